"""C09 — if/elif/else/unless render the first true branch, lazily and evaluating once.

Generator: conditionals (dtml-if chains of 1..5 conditions with optional else, dtml-unless, dtml-call) whose conditions are
names bound to plain values / callables with a logged side effect / nothing (undefined), or expressions (f(), not n, n == lit,
bare name); names may repeat inside a chain; bodies carry a marker and re-reference condition names at nesting depth 0..3
(inside dtml-if, dtml-let, dtml-in wrappers that do not rebind the name).  Small chains are enumerated exhaustively over the
condition kinds (= every truth assignment), larger ones are random.
Histories (one rendering in which a conditional is LEFT BY AN EXCEPTION and rendering goes on over the same namespace):
the escaping conditional (if chain / unless / call, also nested in if / let / in wrappers and inside an enclosing conditional on
a pool name) is left by dtml-raise, by an undefined dtml-var, by dtml-return or by an injected fault in a condition / body
callable; rendering continues through dtml-try/except (matching, non-matching, default, base-class handlers, else),
dtml-try/finally (the finally body runs while the exception is in flight), or the boundary of a sub-template rendered on the
caller's namespace (dtml-var sub / dtml-if sub / dtml-unless sub / dtml-call sub, with or without own defaults); the handler /
finally / else bodies and the rest of the template hold further conditionals and references on the SAME names, which have to
evaluate them afresh.  A second family uses callables whose result CHANGES from one evaluation to the next (real code only).
Scopes inside the chosen body: the wrappers include dtml-with on an object / a mapping, plain and `only` (a fresh namespace),
and a let that REBINDS the condition name; scope-opening blocks also stand BESIDE the references (they have come and gone when
the reference is rendered).  A systematic family puts every kind of scope-opening block (with object / mapping × only ×
attribute of the same name, plain or callable × left by dtml-raise / an undefined variable / an undefined with name and
caught × nested in / around let, in, with only; let, in, if / elif / unless / call on the same name, try, try-finally,
sub-templates incl. one that returns from inside `with only`) into the chosen body of every form of conditional (if, elif,
else, else after a repeated elif, unless, if inside if) before a further reference to the condition name, and refers to a
keyword argument of the call after the conditional (the namespace beneath the cache has to be intact, too).
Spellings: half of all programs are written in another concrete syntax than plain dtml — <dtml-x>, <!--#x-->, or %(x)[ … %(x)]
on the String class (sub-templates pick their own: String and HTML templates in one rendering) — with the else tag repeating
the argument text of its if tag (the old style of the DT_If documentation), end tags with arguments, name=NAME, "expr", and
dtml-unless written as the stand-alone `else NAME` block of the same documentation; a systematic family covers chains of
1..5 conditions × winning position × else tag bare / repeating × 3 syntaxes × first condition name / expression.
Oracle (independent of the model): output and ordered call log predicted from the chain by the documented rule, Python's
try semantics for the recovery constructs; dtml-with = the attributes / keys layered over the namespace (`only`: over
nothing) for exactly the duration of the body.  The expected values do not depend on the spelling.
Objects and data sources (real classes against a plain-Python reference, outside the model): condition values of every kind
whose truth is Python's (__bool__, else __len__, else true) - among them sequence-like objects whose truth is not "has an
element 0" - plain or served by a logged callable, x every form of conditional x the data source that holds the name in a
stack of data sources of every kind (incl. mappings that report a missing name with NameError), and undefined names.
Correspondence: the same programs on the Lean interpreter model (results + call traces).
"""
import itertools
import json
import random

import common
import interp
import proggen
import tmplgen

# kind -> (is_name_condition, builder)
NAME_KINDS = ['val_t', 'val_f', 'str_t', 'str_f', 'none', 'fn_t', 'fn_f', 'fn_none', 'fn_str', 'fn_empty', 'undef']
EXPR_KINDS = ['x_call_t', 'x_call_f', 'x_not_t', 'x_not_f', 'x_eq_t', 'x_eq_f', 'x_name_fn']
CORE_KINDS = ['fn_t', 'fn_f', 'undef', 'val_t', 'val_f', 'x_call_t', 'x_call_f']


class Builder:
    def __init__(self):
        self.ns = {}          # name -> JSON value
        self.fn = 0
        # name -> ('val', v) | ('fn', id, result) | ('fnseq', id, [results]) | ('tmpl', index) | ('undef',)
        self.binding = {'one': ('val', 1), 'single': ('val', 'SEQ'), 'wobj': ('val', Attrs({'wa': 5})),
                        'wmap': ('val', Attrs({'wa': 6}))}
        self.withs = 0
        self.style = None     # None = proggen's plain dtml printer; else {'seed': int, ...} (see Speller / spell_case)
        self.subs = []        # sub-templates rendered on the caller's namespace: (blocks, globals [[name, JSON value]])
        self.seqs = {}        # function id -> successive results (callables whose value changes; not in the model)

    def new_fn(self, result_json, result_py):
        self.fn += 1
        return {'f': self.fn, 'r': result_json}, ('fn', self.fn, result_py)

    def bind(self, name, kind):
        """bind `name` for a NAME kind (or the helper name of an EXPR kind)"""
        if name in self.binding:
            return
        table = {'val_t': (7, 7), 'val_f': (0, 0), 'str_t': ({'s': 'yes'}, 'yes'), 'str_f': ({'s': ''}, ''),
                 'none': (None, None)}
        if kind in table:
            j, p = table[kind]
            self.ns[name] = j
            self.binding[name] = ('val', p)
        elif kind == 'undef':
            self.binding[name] = ('undef',)
        else:
            res = {'fn_t': (1, 1), 'fn_f': (0, 0), 'fn_none': (None, None), 'fn_str': ({'s': 'hello'}, 'hello'),
                   'fn_empty': ({'s': ''}, '')}[kind]
            j, b = self.new_fn(res[0], res[1])
            self.ns[name] = j
            self.binding[name] = b


    def bind_seq(self, name, results):
        """a callable whose i-th invocation returns results[i] (the last one from then on)"""
        self.fn += 1
        self.ns[name] = {'f': self.fn, 'r': results[0]}
        self.binding[name] = ('fnseq', self.fn, [jpy(x) for x in results])
        self.seqs[self.fn] = [jpy(x) for x in results]

    def new_with(self, mapping, attrs):
        """a further object (attributes) / mapping (keys) for dtml-with; attrs: [[name, JSON value]]; a value {'f': 0, 'r': x}
        is a callable with a logged side effect (it gets a fresh id)"""
        self.withs += 1
        name = ('wm%d' if mapping else 'wo%d') % self.withs
        js, py = [], {}
        for k, v in attrs:
            if isinstance(v, dict) and 'f' in v:
                j, bd = self.new_fn(v['r'], jpy(v['r']))
                js.append([k, j])
                py[k] = bd
            elif isinstance(v, dict) and 'd' in v:
                js.append([k, v])
                py[k] = Attrs({kk: jpy(vv) for kk, vv in v['d']})       # a mapping as a value: for a nested dtml-with
            else:
                js.append([k, v])
                py[k] = jpy(v)
        self.ns[name] = {'d': js} if mapping else {'o': 100 + self.withs, 'a': js}
        self.binding[name] = ('val', Attrs(py))
        return name

    def new_sub(self, blocks, globals_):
        self.subs.append((blocks, globals_))
        name = 'sub%d' % len(self.subs)
        self.ns[name] = {'T': len(self.subs)}
        self.binding[name] = ('tmpl', len(self.subs) - 1)
        return name


def jpy(v):
    return v['s'] if isinstance(v, dict) else v


class Attrs(dict):
    """what dtml-with layers over the namespace: the attributes of an object / the keys of a mapping (values: plain values
    or ('fn', id, result) callables, invoked at every reference)"""


ONLY = Attrs()      # marks the bottom of the fresh namespace of a `dtml-with ... only` block: nothing below it is visible


def truthy(v):
    return bool(v)


def pystr(v):
    return str(v)


class Fault(Exception):
    """an exception raised while rendering (by a callable of the namespace, dtml-raise, an undefined dtml-var): it must
    propagate unchanged, whatever its class, up to the first dtml-try handler that names the class or one of its bases"""

    def __init__(self, cls, msg='fault'):
        self.cls = cls
        self.msg = msg


class Ret(Exception):
    """dtml-return: leaves the template being rendered (not caught by dtml-except, seen by dtml-finally)"""

    def __init__(self, v):
        self.v = v


def handles(handler, cls):
    """Python's rule for `except <handler>`; '' is the bare handler"""
    return handler == '' or issubclass(proggen.CLASSES[cls][0], proggen.CLASSES[handler][0])


class Oracle:
    """the documented rule, evaluated over the abstract program.  `caches` is the stack of what is layered over the
    caller's data: one dictionary per conditional being rendered (it lives exactly as long as that conditional, however the
    conditional is left), plus the bindings of the let / in wrappers and the defaults of a sub-template being rendered"""

    def __init__(self, b, faults=(), fault_cls='ValueError'):
        self.b = b
        self.calls = []
        self.out = []
        self.faults = set(faults)
        self.fault_cls = fault_cls
        self.seq_i = {}

    def invoke(self, bd):
        n = len(self.calls)
        self.calls.append(bd[1])
        result = bd[2]
        if bd[0] == 'fnseq':
            i = self.seq_i.get(bd[1], 0)
            self.seq_i[bd[1]] = i + 1
            result = bd[2][min(i, len(bd[2]) - 1)]
        if n in self.faults:
            raise Fault(self.fault_cls)
        return result

    def lookup(self, n, caches, call):
        bd = None
        for c in reversed(caches):
            if c is ONLY:
                raise KeyError(n)
            if n in c:
                if not (isinstance(c, Attrs) and isinstance(c[n], tuple)):
                    return c[n]
                bd = c[n]       # a callable attribute / mapping value: found, and invoked, at every reference
                break
        if bd is None:
            bd = self.b.binding.get(n, ('undef',))
        if bd[0] == 'undef':
            raise KeyError(n)
        if bd[0] == 'val':
            return bd[1]
        if not call:
            return bd      # the callable itself (truthy)
        if bd[0] == 'tmpl':
            return self.sub(bd[1], caches)
        return self.invoke(bd)

    def sub(self, i, caches):
        """a sub-template found by name is rendered on the caller's namespace (its own defaults on top for the duration);
        its value is its text, or what dtml-return gave"""
        blocks, globals_ = self.b.subs[i]
        mark = len(self.out)
        caches.append({k: jpy(v) for k, v in globals_})
        try:
            self.render(blocks, caches)
            return ''.join(self.out[mark:])
        except Ret as e:
            return e.v
        finally:
            caches.pop()
            del self.out[mark:]

    def need(self, n, caches):
        """the value of a name that a tag cannot do without (dtml-with / dtml-let / dtml-in / dtml-return NAME)"""
        try:
            return self.lookup(n, caches, True)
        except KeyError:
            raise Fault('KeyError', n)

    def cond_value(self, src, caches):
        if src[0] == 'n':
            n = src[1]
            try:
                v = self.lookup(n, caches, True)
            except KeyError:
                return None
            caches[-1][n] = v
            return v
        return self.expr(src[1], caches)

    def expr(self, e, caches):
        if e[0] == 'call':
            return self.invoke(self.lookup(e[1][1], caches, False))
        if e[0] == 'not':
            return not truthy(self.lookup(e[1][1], caches, False))
        if e[0] == 'eq':
            return self.lookup(e[1][1], caches, False) == jpy(e[2][1])
        if e[0] == 'name':
            return self.lookup(e[1], caches, False)
        if e[0] == 'lit':
            return jpy(e[1])
        raise ValueError(e)

    def render(self, blocks, caches):
        for b in blocks:
            k = b[0]
            if k == 'lit':
                self.out.append(b[1])
            elif k == 'var':
                n = b[1][1]
                try:
                    v = self.lookup(n, caches, True)
                except KeyError:
                    if b[3] is None:
                        raise Fault('KeyError', n)
                    v = b[3]
                self.out.append(pystr(v))
            elif k == 'cond':
                caches.append({})
                try:
                    for src, body in b[1]:
                        if truthy(self.cond_value(src, caches)):
                            self.render(body, caches)
                            break
                    else:
                        if b[2] is not None:
                            self.render(b[2], caches)
                finally:
                    caches.pop()
            elif k == 'unless':
                caches.append({})
                try:
                    if not truthy(self.cond_value(b[1], caches)):
                        self.render(b[2], caches)
                finally:
                    caches.pop()
            elif k == 'call':
                caches.append({})
                try:
                    self.cond_value(b[1], caches)
                finally:
                    caches.pop()
            elif k == 'let':
                # the bindings are evaluated left to right, each one seeing the earlier ones
                frame = {}
                caches.append(frame)
                try:
                    for n, s in b[1]:
                        frame[n] = self.need(s[1], caches) if s[0] == 'n' else self.expr(s[1], caches)
                    self.render(b[2], caches)
                finally:
                    caches.pop()
            elif k == 'in':
                # wrapper over the one-element list `single`: one iteration; the sequence is cached under its name
                self.need(b[1][1], caches)
                caches.append({b[1][1]: 'SEQ'})
                try:
                    self.render(b[3], caches)
                finally:
                    caches.pop()
            elif k == 'with':
                # the attributes / keys of the value are layered over the namespace for the body; with `only` the body
                # sees NOTHING else (a fresh namespace), and the calling namespace is exactly what it was afterwards,
                # however the body is left
                _, src, mapping, only, body = b
                v = self.need(src[1], caches)
                if only:
                    self.render(body, [ONLY, v])
                else:
                    caches.append(v)
                    try:
                        self.render(body, caches)
                    finally:
                        caches.pop()
            elif k == 'try':
                # Python's try / except / else; what the body had produced before it failed is dropped
                _, body, handlers, els = b
                mark = len(self.out)
                try:
                    self.render(body, caches)
                except Fault as f:
                    hb = [h for nm, h in handlers if handles(nm, f.cls)]
                    if not hb:
                        raise
                    del self.out[mark:]
                    self.render(hb[0], caches)
                else:
                    if els is not None:
                        self.render(els, caches)
            elif k == 'tryfin':
                mark = len(self.out)
                try:
                    self.render(b[1], caches)
                except (Fault, Ret):
                    del self.out[mark:]
                    self.render(b[2], caches)
                    raise
                else:
                    self.render(b[2], caches)
            elif k == 'raise':
                # the body is the message; a failure inside it is replaced by a fixed text
                mark = len(self.out)
                try:
                    self.render(b[3], caches)
                    msg = ''.join(self.out[mark:])
                except Fault:
                    msg = 'Invalid Error Value'
                finally:
                    del self.out[mark:]
                raise Fault(b[1], msg)
            elif k == 'ret':
                if b[1][0] == 'n':
                    v = self.need(b[1][1], caches)
                else:
                    v = self.expr(b[1][1], caches)
                raise Ret(v)
            else:
                raise ValueError(k)


WRAP_KINDS = ['if', 'let', 'in', 'if', 'let', 'in', 'with', 'withmap', 'withonly', 'withmaponly']


def wrap1(w, blocks, shadow=None):
    if w == 'if':
        return [['cond', [[['n', 'one'], blocks]], None]]
    if w == 'let':
        return [['let', [['zz', ['n', 'one']]], blocks]]
    if w == 'letshadow':
        # the wrapper REBINDS the name: inside it the name is the new value, after it the old one again
        return [['let', [[shadow, ['n', 'one']]], blocks]]
    if w == 'in':
        return [['in', ['n', 'single'], {}, blocks, None]]
    if w in ('with', 'withonly'):
        return [['with', ['n', 'wobj'], False, w == 'withonly', blocks]]
    if w in ('withmap', 'withmaponly'):
        return [['with', ['n', 'wmap'], True, w == 'withmaponly', blocks]]
    raise ValueError(w)


def wrap(r, blocks, depth, shadow=None):
    """nest `blocks` inside `depth` wrappers: conditionals / let / in / with (object, mapping) that bind other names only,
    `with ... only` (a fresh namespace: nothing of the caller's is visible inside, everything is again afterwards) and,
    when `shadow` names a variable, a let that rebinds it"""
    for i in range(depth):
        w = r.choice(WRAP_KINDS)
        if w.endswith('only') and i > 0 and r.random() < 0.85:
            # mostly innermost: the let / in / if wrappers inside it would find nothing of what they refer to (that case, a
            # block left by KeyError inside the fresh namespace, is kept with a small share)
            w = w[:-4]
        if shadow is not None and r.random() < 0.15:
            w = 'letshadow'
        blocks = wrap1(w, blocks, shadow)
    return blocks


def scope_beside(r):
    """a scope-opening block that stands BESIDE the references of a body (it has come and gone when they are rendered)"""
    w = r.choice(['withonly', 'withmaponly', 'withonly', 'with', 'withmap', 'let', 'in', 'if'])
    return wrap1(w, [['lit', 'w'], ['var', ['n', 'wa'], False, 'U', None]])


def make_src(b, i, kind, name=None):
    n = name or 'c%d' % i
    if kind in NAME_KINDS:
        b.bind(n, kind)
        return ['n', n]
    h = name if (name and kind not in NAME_KINDS) else 'e%d' % i
    if kind == 'x_call_t':
        b.bind(h, 'fn_t')
        return ['e', ['call', ['name', h]]]
    if kind == 'x_call_f':
        b.bind(h, 'fn_f')
        return ['e', ['call', ['name', h]]]
    if kind == 'x_not_t':          # not <false value> -> true
        b.bind(h, 'val_f')
        return ['e', ['not', ['name', h]]]
    if kind == 'x_not_f':          # not <callable> -> false, and the callable is NOT called
        b.bind(h, 'fn_f')
        return ['e', ['not', ['name', h]]]
    if kind == 'x_eq_t':
        b.bind(h, 'val_t')
        return ['e', ['eq', ['name', h], ['lit', 7]]]
    if kind == 'x_eq_f':
        b.bind(h, 'val_t')
        return ['e', ['eq', ['name', h], ['lit', 1]]]
    if kind == 'x_name_fn':        # a callable passed uncalled to an expression is true
        b.bind(h, 'fn_f')
        return ['e', ['name', h]]
    raise ValueError(kind)


def body_for(r, i, names, refs=True):
    blocks = [['lit', 'B%d' % i]]
    if refs and names and r.random() < 0.8:
        for _ in range(r.randint(1, 2)):
            n = r.choice(names)
            ref = [['lit', '('], ['var', ['n', n], False, 'U', None], ['lit', ')']]
            if r.random() < 0.25:
                blocks += scope_beside(r)
            blocks += wrap(r, ref, r.choice([0, 0, 1, 2, 3]), shadow=n)
    return blocks


class Speller:
    """one concrete spelling of an abstract program.  What varies is what the documentation offers and must not matter:
    the tag syntax (<dtml-x>, <!--#x-->, %(x)[ … %(x)] of the String class), an else tag that REPEATS the argument text of
    its if tag (`<dtml-if x>…<dtml-elif y>…<dtml-else x>…`, the old style of the DT_If documentation), end tags with
    arguments, dtml-unless NAME written as the stand-alone `else NAME` block of the same documentation, NAME / name=NAME,
    "expr" / expr="expr".  The abstract program (and with it the expected output and call log) is the same."""

    def __init__(self, rs, syntax, p_rep=0.5, p_else_start=0.35):
        self.r = rs
        self.st = tmplgen.Style(rs, syntax)
        self.syntax = syntax
        self.p_rep = p_rep
        self.p_else_start = p_else_start
        self.used = set()

    def target(self, s):
        if s[0] == 'n':
            return s[1] if self.r.random() < 0.85 else 'name=%s' % s[1]
        e = proggen.expr_src(s[1])
        return 'expr="%s"' % e if self.r.random() < 0.5 else '"%s"' % e

    def open(self, name, args):
        return tmplgen.open_tag(name, args, self.st)

    def close(self, name, args):
        return tmplgen.close_tag(name, args, self.st)

    def simple(self, name, args):
        return tmplgen.simple_tag(name, args, self.st)

    def blocks(self, bs, encl=()):
        """encl: (argument text, abstract source) of the tags of the innermost enclosing block that has an else continuation"""
        return ''.join(self.block(b, encl) for b in bs)

    def block(self, b, encl):
        k = b[0]
        r = self.r
        if k == 'lit':
            return b[1]
        if k == 'var':
            _, s, hq, missing, null = b
            if self.syntax == 'epfs' and s[0] == 'n' and not hq and r.random() < 0.5:
                # %(name options)s
                a = [s[1]]
            else:
                a = ['var', self.target(s)]
            if hq:
                a.append('html_quote')
            if missing is not None:
                a.append('missing="%s"' % missing)
            if null is not None:
                a.append('null="%s"' % null)
            if self.syntax == 'epfs':
                if a[0] == 'var':
                    return '%%(var%s%s)s' % (tmplgen.epfs_sp(a[1], self.st), ' '.join(a[1:]))
                return '%%(%s)s' % ' '.join(a)
            return self.simple('var', ' '.join(a[1:]))
        if k == 'call':
            return self.simple('call', self.target(b[1]))
        if k == 'ret':
            return self.simple('return', self.target(b[1]))
        if k == 'cond':
            _, conds, els = b
            args = [self.target(c) for c, _ in conds]
            inside = [(a, c) for a, (c, _) in zip(args, conds)]
            out = self.open('if', args[0]) + self.blocks(conds[0][1], inside)
            for a, (_, body) in zip(args[1:], conds[1:]):
                out += self.open('elif', a) + self.blocks(body, inside)
            if els is not None:
                rep = ''
                if not args[0].startswith('expr=') and r.random() < self.p_rep:
                    rep = args[0]
                    self.used.add('else-repeats-if' + ('+elif' if len(conds) > 1 else ''))
                out += self.open('else', rep) + self.blocks(els, inside)
            return out + self.close('if', args[0])
        if k == 'unless':
            a = self.target(b[1])
            if not a.startswith('expr=') and r.random() < self.p_else_start and \
                    not any(e.startswith(a) or src == b[1] for e, src in encl):
                # "to include text when an object is false": <!--#else name--> text <!--#/else name-->
                # (not where it could be read as the else tag of an enclosing block on the same name / expression)
                self.used.add('unless-as-else-start-tag')
                return self.open('else', a) + self.blocks(b[2]) + self.close('else', a)
            return self.open('unless', a) + self.blocks(b[2]) + self.close('unless', a)
        if k == 'in':
            _, s, o, body, els = b
            a = ' '.join([self.target(s)] + (['mapping'] if o.get('mapping') else []) +
                         (['no_push_item'] if o.get('noPush') else []) +
                         (['prefix=%s' % o['prefix']] if o.get('prefix') else []))
            out = self.open('in', a) + self.blocks(body, [(a, s)])
            if els is not None:
                out += self.open('else', '') + self.blocks(els, [(a, s)])
            return out + self.close('in', a)
        if k == 'with':
            _, s, mapping, only, body = b
            a = ' '.join([self.target(s)] + (['mapping'] if mapping else []) + (['only'] if only else []))
            return self.open('with', a) + self.blocks(body) + self.close('with', a)
        if k == 'let':
            _, binds, body = b
            a = ' '.join('%s=%s' % (n, s[1] if s[0] == 'n' else '"%s"' % proggen.expr_src(s[1])) for n, s in binds)
            return self.open('let', a) + self.blocks(body) + self.close('let', '')
        if k == 'try':
            _, body, hs, els = b
            out = self.open('try', '') + self.blocks(body)
            for nm, hb in hs:
                out += self.open('except', nm) + self.blocks(hb)
            if els is not None:
                out += self.open('else', '') + self.blocks(els)
            return out + self.close('try', '')
        if k == 'tryfin':
            return self.open('try', '') + self.blocks(b[1]) + self.open('finally', '') + self.blocks(b[2]) + \
                self.close('try', '')
        if k == 'raise':
            _, cls, e, body = b
            if e is not None:
                raise ValueError('raise by expression is not generated here')
            return self.open('raise', cls) + self.blocks(body) + self.close('raise', '')
        raise ValueError(k)


SYNTAXES = ['dtml', 'ssi', 'epfs']


def spell_case(b, all_blocks):
    """[(class kind, source)] for the main template and the sub-templates.  Without a style: proggen's plain dtml printer.
    With one, every template gets its own syntax — String and HTML templates call each other in one rendering."""
    if b.style is None:
        return [('html', proggen.print_blocks(bs)) for bs in all_blocks], set()
    rs = random.Random(b.style['seed'])
    out = []
    used = set()
    for i, bs in enumerate(all_blocks):
        syntax = (b.style.get('syntax') if i == 0 else None) or rs.choice(SYNTAXES)
        sp = Speller(rs, syntax, b.style.get('p_rep', 0.5), b.style.get('p_else_start', 0.35))
        out.append(('epfs' if syntax == 'epfs' else 'html', sp.blocks(bs)))
        used |= sp.used | {'syntax=' + syntax}
    if len({kd for kd, _ in out}) > 1:
        used.add('String+HTML-in-one-rendering')
    return out, used


def build_case(b, main_blocks):
    ns = dict(b.ns)
    ns['one'] = 1
    ns['single'] = {'l': [{'o': 1, 'a': [['w', 1]]}]}
    ns['wobj'] = {'o': 2, 'a': [['wa', 5]]}
    ns['wmap'] = {'d': [['wa', 6]]}
    spelled, used = spell_case(b, [main_blocks] + [sb for sb, _ in b.subs])
    tmpls = [{'blocks': main_blocks, 'globals': [], 'vars': []}] + \
            [{'blocks': sb, 'globals': sg, 'vars': []} for sb, sg in b.subs]
    for t, (kd, src) in zip(tmpls, spelled):
        t['source'] = src
        t['klass'] = kd
    return {
        'templates': tmpls,
        'main': 0, 'clients': [], 'mapping': [], 'kw': [[k, v] for k, v in ns.items()],
        'classes': proggen.class_table(), 'denied': [], 'guard': False, 'utf8': True, 'spelling': sorted(used),
    }


def gen_exhaustive(r, k, kinds):
    for combo in itertools.product(kinds, repeat=k):
        b = Builder()
        srcs = [make_src(b, i, kd) for i, kd in enumerate(combo)]
        names = [s[1] for s in srcs if s[0] == 'n']
        conds = [[s, body_for(r, i, names)] for i, s in enumerate(srcs)]
        els = body_for(r, 9, names) if r.random() < 0.6 else None
        blocks = [['lit', '['], ['cond', conds, els], ['lit', ']']]
        yield b, blocks, ('if',) + combo + (els is not None,)


def gen_random(r):
    b = Builder()
    blocks = [['lit', '[']]
    key = []
    for _ in range(r.randint(1, 2)):
        form = r.choice(['if', 'if', 'if', 'unless', 'call'])
        if form == 'if':
            k = r.randint(1, 5)
            srcs = []
            kinds = []
            for i in range(k):
                kd = r.choice(NAME_KINDS + EXPR_KINDS)
                nm = None
                if kd in NAME_KINDS and i > 0 and r.random() < 0.3:
                    prev = [s[1] for s in srcs if s[0] == 'n']
                    if prev:
                        nm = r.choice(prev)       # the same name again: must hit the cache
                if kd in EXPR_KINDS and i > 0 and r.random() < 0.3:
                    # the same expression text again in a later branch: expressions are NOT cached, it is evaluated again
                    prev_e = [(s[1][1][1] if s[1][0] in ('call', 'not') else None, k2) for s, k2 in zip(srcs, kinds)
                              if s[0] == 'e' and k2 == kd]
                    prev_e = [x for x in prev_e if x[0]]
                    if prev_e:
                        nm = prev_e[-1][0]
                srcs.append(make_src(b, i + 10 * len(key), kd, nm))
                kinds.append(kd if nm is None else 'repeat')
            names = [s[1] for s in srcs if s[0] == 'n']
            conds = [[s, body_for(r, i, names)] for i, s in enumerate(srcs)]
            els = body_for(r, 9, names) if r.random() < 0.5 else None
            blocks.append(['cond', conds, els])
            key.append(('if',) + tuple(kinds) + (els is not None,))
        elif form == 'unless':
            kd = r.choice(NAME_KINDS + EXPR_KINDS)
            s = make_src(b, 50 + len(key), kd)
            names = [s[1]] if s[0] == 'n' else []
            blocks.append(['unless', s, body_for(r, 5, names)])
            key.append(('unless', kd))
        else:
            kd = r.choice(NAME_KINDS + EXPR_KINDS)
            s = make_src(b, 60 + len(key), kd)
            blocks.append(['call', s])
            key.append(('call', kd))
        blocks.append(['lit', '|'])
    blocks.append(['lit', ']'])
    return b, blocks, tuple(key)


def ref_to(n):
    return [['lit', '('], ['var', ['n', n], False, 'U', None], ['lit', ')']]


RAISE = ['raise', 'ValueError', None, [['lit', 'boom']]]


def scope_table(b, n, inner):
    """every kind of block that opens (and has to close) a scope of its own, placed in the chosen body of a conditional on
    the name `n`; `inner` = what it encloses (a marker, a reference to n, a reference to the with attribute).
    label -> function giving the blocks (it registers the objects / sub-templates it needs with the builder `b`).
    'caught' variants are LEFT BY AN EXCEPTION that a dtml-try around them handles."""
    def caught(blocks):
        return [['try', blocks, [['', [['lit', 'H']] + ref_to(n)]], None]]

    def w(src, mapping, only, body):
        return [['with', ['n', src], mapping, only, body]]

    def let(name, src, body):
        return [['let', [[name, ['n', src]]], body]]
    undef_var = ['var', ['n', 'nowhere'], False, None, None]
    t = {}
    for only in (False, True):
        o = '-only' if only else ''
        t['with-object' + o] = lambda only=only: w('wobj', False, only, inner)
        t['with-mapping' + o] = lambda only=only: w('wmap', True, only, inner)
        # the object / mapping has an attribute / key of the SAME name (plain value; callable with a logged side effect)
        t['with-object-same-name' + o] = lambda only=only: w(
            b.new_with(False, [['wa', 1], [n, {'s': 'SH'}]]), False, only, inner)
        t['with-mapping-same-name' + o] = lambda only=only: w(
            b.new_with(True, [['wa', 2], [n, {'s': 'SM'}]]), True, only, inner)
        t['with-object-same-name-callable' + o] = lambda only=only: w(
            b.new_with(False, [[n, {'f': 0, 'r': {'s': 'SF'}}]]), False, only, inner)
        t['with-mapping-same-name-callable' + o] = lambda only=only: w(
            b.new_with(True, [[n, {'f': 0, 'r': 3}]]), True, only, inner)
        t['with' + o + '-left-by-raise-caught'] = lambda only=only: caught(w('wobj', False, only, inner + [RAISE]))
        t['with-mapping' + o + '-left-by-undefined-var-caught'] = lambda only=only: caught(
            w('wmap', True, only, inner + [undef_var]))
        t['with' + o + '-of-undefined-name-caught'] = lambda only=only: caught(w('nowhere', False, only, inner))
        t['with' + o + '-containing-conditional-on-the-name'] = lambda only=only: w(
            'wobj', False, only, [['cond', [[['n', n], inner]], inner]])
        t['with' + o + '-containing-call-of-the-name'] = lambda only=only: w(
            'wobj', False, only, [['call', ['n', n]]] + inner)
        # the inner with finds its mapping among the keys of the outer one (the only thing visible there)
        t['with' + o + '-inside-with-only'] = lambda only=only: w(
            b.new_with(True, [['wi', {'d': [['wa', 8]]}]]), True, True, inner + w('wi', True, only, inner) + inner)
        t['with' + o + '-inside-let'] = lambda only=only: let('zz', 'one', w('wobj', False, only, inner))
        t['with' + o + '-inside-in'] = lambda only=only: [['in', ['n', 'single'], {}, w('wmap', True, only, inner), None]]
        t['let-inside-with' + o] = lambda only=only: w('wobj', False, only, caught(let('zz', 'wa', inner)))
        t['if-elif-inside-with' + o] = lambda only=only: w(
            'wobj', False, only, [['cond', [[['n', 'nowhere'], inner], [['n', 'wa'], inner]], None]])
        t['two-with' + o + '-in-a-row'] = lambda only=only: w('wobj', False, only, inner) + w('wmap', True, only, inner)
    t['let-other-name'] = lambda: let('zz', 'one', inner)
    t['let-same-name'] = lambda: let(n, 'one', inner)
    t['let-bound-to-the-name'] = lambda: let('zz', n, inner + ref_to('zz'))
    t['let-left-by-raise-caught'] = lambda: caught(let('zz', 'one', inner + [RAISE]))
    t['let-of-undefined-name-caught'] = lambda: caught(let('zz', 'nowhere', inner))
    t['in'] = lambda: [['in', ['n', 'single'], {}, inner, None]]
    t['in-left-by-raise-caught'] = lambda: caught([['in', ['n', 'single'], {}, inner + [RAISE], None]])
    t['if-other-name'] = lambda: [['cond', [[['n', 'one'], inner]], None]]
    t['if-same-name'] = lambda: [['cond', [[['n', n], inner]], inner]]
    t['if-elif-same-name'] = lambda: [['cond', [[['n', 'nowhere'], inner], [['n', n], inner]], inner]]
    t['unless-same-name'] = lambda: [['unless', ['n', n], inner]]
    t['call-same-name'] = lambda: [['call', ['n', n]]]
    t['if-left-by-raise-caught'] = lambda: caught([['cond', [[['n', n], inner + [RAISE]]], inner + [RAISE]]])
    t['if-left-by-undefined-var-caught'] = lambda: caught([['cond', [[['n', 'one'], inner + [undef_var]]], None]])
    t['unless-left-by-raise-caught'] = lambda: caught([['unless', ['n', 'nowhere'], inner + [RAISE]]])
    t['try-passing'] = lambda: [['try', inner, [['', [['lit', 'H']]]], [['lit', 'E']] + ref_to(n)]]
    t['try-finally'] = lambda: [['tryfin', inner, [['lit', 'F']] + ref_to(n)]]
    t['try-finally-left-by-raise-caught'] = lambda: caught([['tryfin', inner + [RAISE], [['lit', 'F']] + ref_to(n)]])
    t['sub-template'] = lambda: [['var', ['n', b.new_sub(
        [['lit', 'S']] + inner + [['cond', [[['n', n], inner]], inner]], [])], False, None, None]]
    t['sub-template-returning-from-with-only'] = lambda: [['var', ['n', b.new_sub(
        [['lit', 'S'], ['with', ['n', 'wobj'], False, True, inner + [['ret', ['e', ['lit', {'s': 'R'}]]]]]], [])],
        False, None, None]]
    t['sub-template-with-defaults-left-by-raise-caught'] = lambda: caught([['var', ['n', b.new_sub(
        [['lit', 'S'], ['with', ['n', 'wmap'], True, False, inner + [RAISE]]], [[n + 'x', {'s': 'D'}]])],
        False, None, None]])
    return t


SCOPE_FORMS = {
    # form -> the kinds of value the name can have for the body to be the chosen one
    'if': ['fn_t', 'fn_str', 'val_t'],
    'elif': ['fn_t', 'fn_str'],
    'else': ['fn_f', 'fn_none', 'fn_empty', 'undef'],
    'elif-then-else': ['fn_f', 'fn_empty'],
    'unless': ['fn_f', 'fn_none', 'val_f', 'undef'],
    'if-inside-if': ['fn_t', 'fn_str'],
}
SCOPE_LABELS = sorted(scope_table(None, 'n', []))


def gen_scope(r, form, kind, label, layout, label2=None):
    """a conditional on the name `c` whose chosen body holds a scope-opening block and, AFTER it, a reference to c: the
    conditional's cache has to be in place still (c is not evaluated again), and so has everything beneath it (`late`, a
    name of the call's keyword arguments, is referred to after the conditional)"""
    b = Builder()
    b.bind('c', kind)
    b.bind('late', 'str_t')
    inner = [['lit', 'i']] + ref_to('c') + [['var', ['n', 'wa'], False, 'U', None]]
    scope = scope_table(b, 'c', inner)[label]()
    if label2 is not None:
        scope = scope + [['lit', '+']] + scope_table(b, 'c', inner)[label2]()
    body = {'after': scope + ref_to('c'), 'between': ref_to('c') + scope + ref_to('c'),
            'nested-after': wrap(r, scope, 1) + ref_to('c')}[layout]
    body = [['lit', 'B']] + body
    other = [['lit', 'X']] + ref_to('c')
    if form == 'if':
        main = ['cond', [[['n', 'c'], body]], other]
    elif form == 'elif':
        b.bind('c0', 'fn_f')
        main = ['cond', [[['n', 'c0'], other], [['n', 'c'], body]], other]
    elif form == 'else':
        main = ['cond', [[['n', 'c'], other]], body]
    elif form == 'elif-then-else':
        b.bind('c0', 'fn_f')
        main = ['cond', [[['n', 'c0'], other], [['n', 'c'], other], [['n', 'c0'], other]], body + ref_to('c0')]
    elif form == 'unless':
        main = ['unless', ['n', 'c'], body]
    else:
        b.bind('c0', 'fn_str')
        main = ['cond', [[['n', 'c0'], [['cond', [[['n', 'c'], body]], None]] + ref_to('c0') + ref_to('c')]], None]
    blocks = [['lit', '['], main, ['lit', '|']] + ref_to('late') + ref_to('c') + [['lit', ']']]
    return b, blocks, ('scope', form, kind, label, layout) + ((label2,) if label2 else ())


def gen_scopes(r, tier):
    for form in sorted(SCOPE_FORMS):
        for label in SCOPE_LABELS:
            kinds = SCOPE_FORMS[form]
            layouts = ['after', 'between', 'nested-after']
            if tier == 'quick':
                # every (form, scope) pair; the value kinds and layouts rotate over them
                kinds = [r.choice(kinds)]
                layouts = [r.choice(layouts)]
            for kind in kinds:
                for layout in layouts:
                    yield gen_scope(r, form, kind, label, layout)
    # two scopes in a row
    for _ in range(150 if tier == 'quick' else 6000):
        form = r.choice(sorted(SCOPE_FORMS))
        yield gen_scope(r, form, r.choice(SCOPE_FORMS[form]), r.choice(SCOPE_LABELS), r.choice(['after', 'between']),
                        r.choice(SCOPE_LABELS))


ELSE_SPELLINGS = [(syntax, rep) for syntax in SYNTAXES for rep in (True, False)]


def gen_spellings(r, tier):
    """if chains of 1..5 conditions with an else × the winning position (each branch, or none = the else body) × the else
    tag bare / repeating the if tag's argument text × the three syntaxes × the first condition a name, name=NAME or an
    expression; further conditions names and expressions; dtml-unless in its two spellings"""
    n = 0
    for k in range(1, 6):
        for win in range(k + 1):
            for first in ('name', 'expr'):
                for syntax, rep in ELSE_SPELLINGS:
                    b = Builder()
                    srcs = []
                    for i in range(k):
                        true = i == win
                        as_name = (first == 'name') if i == 0 else r.random() < 0.6
                        if as_name:
                            kd = r.choice(['fn_t', 'fn_str', 'val_t'] if true else ['fn_f', 'fn_none', 'undef', 'fn_empty'])
                        else:
                            kd = 'x_call_t' if true else 'x_call_f'
                        srcs.append(make_src(b, i, kd))
                    names = [x[1] for x in srcs if x[0] == 'n']
                    conds = [[x, body_for(r, i, names)] for i, x in enumerate(srcs)]
                    blocks = [['lit', '['], ['cond', conds, body_for(r, 9, names)], ['lit', '|']]
                    if r.random() < 0.5:
                        s = make_src(b, 7, r.choice(['fn_f', 'fn_t', 'undef', 'val_f']))
                        blocks += [['unless', s, body_for(r, 7, [s[1]])]]
                    blocks.append(['lit', ']'])
                    n += 1
                    b.style = {'seed': r.randrange(1 << 30), 'syntax': syntax, 'p_rep': 1.0 if rep else 0.0,
                               'p_else_start': 0.5}
                    yield b, blocks, ('spelling', k, win, first, syntax, rep)


HIST_KINDS = ['fn_t', 'fn_t', 'fn_f', 'fn_none', 'fn_str', 'fn_empty', 'val_t', 'val_f', 'str_t', 'none', 'undef']
SEQ_KINDS = {'tf': [1, 0], 'ft': [0, 1], 'alt': [1, 0, 1, 0, 1, 0, 1, 0], 'str': [{'s': 'a'}, {'s': ''}, {'s': 'b'}],
             'none': [None, 2, None, 3], 'up': [0, 0, 5]}
RAISE_NAMES = ['ValueError', 'KeyError', 'ZeroDivisionError', 'LookupError']
HANDLER_NAMES = ['', '', '', 'Exception', 'Exception', 'Exception', 'ValueError', 'KeyError', 'LookupError', 'LookupError',
                 'E1', 'NameError', 'ZeroDivisionError', 'ArithmeticError']
FAULT_CLASSES = ['KeyError', 'NameError', 'ValueError', 'E2']


class History:
    """one template in which a conditional is left by an exception and rendering goes on over the same namespace, with
    more conditionals / references on the same few names (`pool`) afterwards.  `enc` = the names an enclosing conditional
    has already evaluated (there the name stands for its value, so `name()` expressions are not generated for it)."""

    def __init__(self, r, stateful=False):
        self.r = r
        self.b = Builder()
        self.k = 0
        self.shape = []
        self.pool = ['h%d' % i for i in range(r.randint(1, 3))]
        for i, nm in enumerate(self.pool):
            if stateful and (i == 0 or r.random() < 0.5):
                kd = r.choice(sorted(SEQ_KINDS))
                self.b.bind_seq(nm, SEQ_KINDS[kd])
            else:
                self.b.bind(nm, r.choice(['fn_t', 'fn_t', 'fn_f', 'fn_none', 'fn_str'] if i == 0 else HIST_KINDS))

    def tag(self, p):
        self.k += 1
        return '%s%d' % (p, self.k)

    def src(self, enc):
        r = self.r
        c = r.random()
        if c < 0.7:
            return ['n', r.choice(self.pool)]
        if c < 0.8:
            fns = [n for n in self.pool if self.b.binding[n][0] in ('fn', 'fnseq') and n not in enc]
            if fns:
                return ['e', ['call', ['name', r.choice(fns)]]]
        if c < 0.87:
            df = [n for n in self.pool if self.b.binding[n][0] != 'undef']
            if df:
                n = r.choice(df)
                return ['e', r.choice([['not', ['name', n]], ['name', n]])]
        self.k += 1
        return make_src(self.b, 100 + self.k, r.choice(EXPR_KINDS))

    def refs(self):
        r = self.r
        out = []
        for _ in range(r.choice([0, 1, 1, 1, 2])):
            n = r.choice(self.pool)
            ref = [['lit', '('], ['var', ['n', n], False, 'U', None], ['lit', ')']]
            if r.random() < 0.2:
                out += scope_beside(r)
            out += wrap(r, ref, r.choice([0, 0, 0, 1, 2]), shadow=n)
        return out

    def raiser(self, prefer_ret):
        r = self.r
        c = r.random()
        if c < (0.6 if prefer_ret else 0.2):
            if r.random() < 0.5:
                self.shape.append('ret-lit')
                return ['ret', ['e', ['lit', {'s': self.tag('R')}]]]
            self.shape.append('ret-name')
            return ['ret', ['n', r.choice(self.pool)]]
        if c < 0.75:
            cls = r.choice(RAISE_NAMES)
            self.shape.append('raise-' + cls)
            return ['raise', cls, None, [['lit', self.tag('M')]] + (self.refs() if r.random() < 0.3 else [])]
        self.shape.append('undefined-var')
        return ['var', ['n', 'nowhere'], False, None, None]

    def body(self, p, enc, depth, esc=False, prefer_ret=False):
        r = self.r
        blocks = [['lit', self.tag(p)]] + self.refs()
        if depth > 0 and r.random() < 0.2:
            blocks.append(self.cond(enc, depth - 1))
        if esc and r.random() < 0.75:
            rz = wrap(r, [self.raiser(prefer_ret)], r.choice([0, 0, 1, 2]))
            blocks = rz + blocks if r.random() < 0.3 else blocks + rz
        return blocks

    def cond(self, enc, depth, esc=False, prefer_ret=False):
        """a conditional over the pool; esc: its bodies (may) end in something that raises"""
        r = self.r
        form = r.choice(['if', 'if', 'if', 'unless', 'call'] if not esc else ['if', 'if', 'if', 'unless'])
        if form == 'call':
            return ['call', self.src(enc)]
        if form == 'unless':
            s = self.src(enc)
            return ['unless', s, self.body('U', enc | ({s[1]} if s[0] == 'n' else set()), depth, esc, prefer_ret)]
        srcs = []
        enc2 = set(enc)
        for _ in range(r.choice([1, 1, 2, 3])):
            s = self.src(enc2)
            if s[0] == 'n':
                enc2.add(s[1])
            srcs.append(s)
        conds = [[s, self.body('B', enc2, depth, esc, prefer_ret)] for s in srcs]
        els = self.body('L', enc2, depth, esc, prefer_ret) if r.random() < 0.6 else None
        return ['cond', conds, els]

    def handlers(self, enc):
        r = self.r
        names = []
        for _ in range(r.choice([1, 1, 2])):
            nm = r.choice(HANDLER_NAMES)
            if nm not in names:
                names.append(nm)
        self.shape.append('except:' + ','.join(names))
        return [[nm, self.body('H', enc, 1)] for nm in names]

    def segment(self, kind, enc):
        r = self.r
        self.shape.append(kind)
        if kind == 'plain':
            return [self.cond(enc, 1)]
        if kind == 'try':
            body = [['lit', self.tag('T')], self.cond(enc, 1, True), ['lit', 'a']]
            els = self.body('E', enc, 1) if r.random() < 0.3 else None
            return [['try', body, self.handlers(enc), els]]
        if kind == 'tryfin':
            inner = ['tryfin', [['lit', self.tag('T')], self.cond(enc, 1, True)], self.body('F', enc, 1)]
            if r.random() < 0.8:
                return [['try', [inner], self.handlers(enc), None]]
            return [inner]
        if kind == 'sub':
            every = frozenset(self.pool)
            sb = [['lit', self.tag('S')], self.cond(every, 1, True, True), ['lit', 'late']]
            if r.random() < 0.3:
                sb.append(self.cond(every, 0))
            sg = []
            if r.random() < 0.4:
                sg = [['subdef', {'s': 'SD'}]]
                sb.insert(1, ['var', ['n', 'subdef'], False, 'U', None])
            name = self.b.new_sub(sb, sg)
            how = r.choice(['var', 'var', 'if', 'unless', 'call'])
            self.shape.append('sub-by-' + how + ('+defaults' if sg else ''))
            if how == 'var':
                out = [['var', ['n', name], False, None, None]]
            elif how == 'if':
                out = [['cond', [[['n', name], self.body('B', enc, 0) + [['var', ['n', name], False, 'U', None]]]],
                        self.body('L', enc, 0)]]
            elif how == 'unless':
                out = [['unless', ['n', name], self.body('U', enc, 0)]]
            else:
                out = [['call', ['n', name]]]
            if r.random() < 0.6:
                out = [['try', out, self.handlers(enc), None]]
            # the sub-template's defaults are gone once it has returned
            return out + [['var', ['n', 'subdef'], False, 'U', None]]
        raise ValueError(kind)

    def build(self):
        r = self.r
        enc = frozenset()
        outer = None
        if r.random() < 0.3:
            outer = r.choice(self.pool)
            enc = frozenset([outer])
            self.shape.append('inside-conditional')
        kinds = [r.choice(['try', 'try', 'tryfin', 'sub'])]
        kinds += [r.choice(['plain', 'plain', 'plain', 'try', 'tryfin', 'sub']) for _ in range(r.choice([1, 1, 2]))]
        if r.random() < 0.2:
            kinds.insert(0, 'plain')
        segs = []
        for kd in kinds:
            segs += self.segment(kd, enc) + [['lit', '|']]
        if outer is not None:
            # the same history in both branches: it runs under the enclosing conditional's cache whatever the value is
            segs = [['cond', [[['n', outer], segs]], segs]]
        return self.b, [['lit', '[']] + segs + [['lit', ']']], ('history',) + tuple(self.shape)


def gen_history(r, stateful=False):
    return History(r, stateful).build()


class SeqFn(proggen.Fn):
    """namespace callable whose result changes from one invocation to the next"""

    def __init__(self, world, fid, results):
        proggen.Fn.__init__(self, world, fid, None)
        self.results = results
        self.i = 0

    def __call__(self):
        self.result = self.results[min(self.i, len(self.results) - 1)]
        self.i += 1
        return proggen.Fn.__call__(self)


def run_real(case, plan, b):
    """the case on the real classes, each template an instance of the class its spelling is written for (HTML / String),
    with the changing callables of `b` (the model's callables are constant)"""
    import sys
    from DocumentTemplate import HTML
    from DocumentTemplate import String
    if sys.getrecursionlimit() < 20000:
        sys.setrecursionlimit(20000)
    world = proggen.World(plan[0], proggen.CLASSES[plan[1]][0])
    templates = [{'epfs': String, 'html': HTML}[t.get('klass', 'html')](t['source']) for t in case['templates']]
    for t, tj in zip(templates, case['templates']):
        t.globals = {k: proggen.to_py(world, v, templates) for k, v in tj['globals']}
    kw = {}
    for k, v in case['kw']:
        if isinstance(v, dict) and v.get('f') in b.seqs:
            kw[k] = SeqFn(world, v['f'], b.seqs[v['f']])
        else:
            kw[k] = proggen.to_py(world, v, templates)
    try:
        res = {'ok': proggen.from_py(templates[0](None, {}, **kw))}
    except Exception as e:  # noqa
        res = {'raise': type(e).__name__, 'msg': proggen.exc_msg(e)}
    return {'result': res, 'events': world.events, 'calls': world.calls, 'snap_ids': [], 'max_level': 0}


def run_with_string_class(res, cases, plans, bs):
    """programs with a template of the String class (%(…) syntax): the model is asked as usual (it interprets the abstract
    program), the real side is run here because the shared runner knows the HTML class only"""
    if not cases:
        return []
    resp = [None] * len(cases)
    if res.have_driver:
        reqs = [proggen.model_req(c, f, fc) for c, (f, fc) in zip(cases, plans)]
        resp = []
        for i in range(0, len(reqs), 400):
            resp += common.run_driver(reqs[i:i + 400], timeout=600)
    out = []
    for c, pl, rp, b in zip(cases, plans, resp, bs):
        m = rp.get('ok') if rp else None
        if rp is not None and m is None:
            raise RuntimeError('driver: %r' % (rp,))
        out.append((c, pl, run_real(c, pl, b), m))
    return out


def predict(b, blocks, faults=(), fault_cls='ValueError'):
    o = Oracle(b, faults, fault_cls)
    try:
        o.render(blocks, [])
    except Fault as f:
        return {'raise': f.cls, 'msg': f.msg}, o.calls
    except Ret as e:
        return {'ok': proggen.from_py(e.v)}, o.calls       # dtml-return in the main template: its value is the result
    return {'ok': {'s': ''.join(o.out)}}, o.calls


def fault_plans(r, it, dense):
    """the k-th callable invocation raising, for the invocation points of the fault-free run (all of them when `dense`);
    sometimes two faults in one rendering (the second one after the first was handled)"""
    _, calls0 = predict(it[0], it[1])
    n = len(calls0)
    ks = list(range(n))
    if not dense and n > 6:
        ks = sorted(r.sample(ks, 6))
    plans = [((k,), r.choice(FAULT_CLASSES)) for k in ks]
    if n >= 2 and r.random() < 0.5:
        k1 = r.randrange(n - 1)
        plans.append(((k1, r.randrange(k1 + 1, n)), r.choice(FAULT_CLASSES)))
    return plans


def check(res, items, have_driver, r=None, histories=()):
    all_items = list(items)
    plans = [((), 'ValueError')] * len(items)
    if r is not None:
        # the same programs with the k-th callable invocation raising — also KeyError / NameError, which the namespace
        # lookup must not mistake for "name not defined"
        for it in items:
            if r.random() < 0.5:
                for pl in fault_plans(r, it, True):
                    if len(pl[0]) == 1:
                        all_items.append(it)
                        plans.append(pl)
    for it in histories:
        all_items.append(it)
        plans.append(((), 'ValueError'))
        if r is not None:
            for pl in fault_plans(r, it, False):
                all_items.append(it)
                plans.append(pl)
    built = {}
    cases = []
    for it in all_items:
        if id(it) not in built:
            built[id(it)] = build_case(it[0], it[1])
        cases.append(built[id(it)])
    res.have_driver = have_driver
    # callables whose value changes are not part of the model: those programs run on the real classes only
    string_class = [any(t['klass'] == 'epfs' for t in c['templates']) for c in cases]
    in_model = [i for i, it in enumerate(all_items) if not it[0].seqs and not string_class[i]]
    runs = [None] * len(all_items)
    for i, x in zip(in_model, interp.run_cases(res, [cases[i] for i in in_model], [plans[i] for i in in_model])):
        runs[i] = x
    in_model = [i for i, it in enumerate(all_items) if not it[0].seqs and string_class[i]]
    for i, x in zip(in_model, run_with_string_class(res, [cases[i] for i in in_model], [plans[i] for i in in_model],
                                                    [all_items[i][0] for i in in_model])):
        runs[i] = x
    for i, it in enumerate(all_items):
        if runs[i] is None:
            runs[i] = (cases[i], plans[i], run_real(cases[i], plans[i], it[0]), None)
    for (b, blocks, key), (c, plan, impl, m) in zip(all_items, runs):
        res.evaluations += 1
        exp, exp_calls = predict(b, blocks, plan[0], plan[1])
        got = impl['result']
        got_calls = [e[1] for e in impl['events'] if e[0] == 'call']
        ok = got == exp and got_calls == exp_calls
        hist = key[0] == 'history'
        res.nt((key, len(plan[0]), plan[1] if plan[0] else ''))
        if hist:
            res.count('form=history' + ('(changing values)' if b.seqs else ''))
            for w in set(key[1:]):
                if w.startswith(('ret-', 'raise-', 'undefined-var', 'sub-by-', 'inside-')) or w in ('try', 'tryfin'):
                    res.count('history:' + w)
            for cls in (exp.get('raise'),):
                if cls:
                    res.count('history:result=raise')
        elif key[0] == 'scope':
            res.count('form=scope-in-chosen-body')
            res.count('scope-in:' + key[1])
            res.count('scope:' + key[3])
        elif key[0] == 'spelling':
            res.count('form=else-tag-spellings')
            res.count('else-tag:%s,%s,chain-of-%d' % (key[4], 'repeats-if-tag' if key[5] else 'bare', key[1]))
        else:
            res.count('form=' + '+'.join(k[0] for k in ([key] if isinstance(key[0], str) else key)))
        for w in c['spelling']:
            res.count('spelling:' + w)
        src_all = ''.join(t['source'] for t in c['templates'])
        if ' only' in src_all:
            res.count('contains:with-only')
        elif 'with ' in src_all or 'with\n' in src_all:
            res.count('contains:with')
        if plan[0]:
            res.count('fault=' + plan[1])
            if len(plan[0]) > 1:
                res.count('fault=two-in-one-rendering')
        if not ok:
            res.oracle_fail.append({'case': {'source': c['templates'][0]['source'],
                                             'sub_templates': {'sub%d' % i: t['source'] for i, t in
                                                               enumerate(c['templates']) if i},
                                             'classes': [{'html': 'HTML', 'epfs': 'String'}[t['klass']]
                                                         for t in c['templates']],
                                             'namespace': c['kw'],
                                             'changing_results': {str(k): v for k, v in b.seqs.items()},
                                             'faults': list(plan[0]), 'fault_cls': plan[1]},
                                    'what': 'expected %r with calls %r; got %r with calls %r' % (exp, exp_calls, got, got_calls)})
        if m is not None:
            d = interp.compare(impl, m)
            if d == 'oom':
                res.count('outside_model')
                continue
            res.corr_checked += 1
            if d:
                res.corr_mismatch.append({'case': interp.brief(c), 'impl': impl['result'], 'model': m['result'], 'diff': d})
    return runs


# ---------------------------------------------------------------------------------------------------------------------
# OBJECTS AND DATA SOURCES.  The condition values of the families above are what the Lean model knows (ints, strings, None,
# callables); here they are Python objects of every kind whose TRUTH is decided by Python's truth protocol (__bool__, else
# __len__, else true) and the namespace is a stack of data sources of every kind (dicts, mapping classes that report a missing
# key with KeyError or with NameError, dict subclasses, client objects, template defaults, keyword arguments, sources pushed
# by dtml-with / dtml-in ... mapping / dtml-let).  Real classes against a plain-Python reference; no model run.

class SeqLike:
    """sequence-like: __getitem__ + __len__, neither get nor keys; the rows are indexed base .. base+n-1"""

    def __init__(self, rows, base=0, truth=None, label='seq'):
        self.rows, self.base, self.truth, self.label = rows, base, truth, label

    def __len__(self):
        return len(self.rows)

    def __getitem__(self, i):
        if not isinstance(i, int):
            raise TypeError(i)
        if not self.base <= i < self.base + len(self.rows):
            raise IndexError(i)
        return self.rows[i - self.base]

    def __str__(self):
        return '<%s>' % self.label


class SeqLikeBool(SeqLike):
    """... with an explicit truth value (a result set that is false when the query was not complete, ...)"""

    def __bool__(self):
        return self.truth


class StrKeyed(SeqLike):
    """__getitem__ + __len__ keyed by strings (not a mapping by the get / keys test)"""

    def __getitem__(self, k):
        if not isinstance(k, str):
            raise KeyError(k)
        return self.rows[int(k)]


class LenOnly:
    def __init__(self, n):
        self.n = n

    def __len__(self):
        return self.n

    def __str__(self):
        return '<len %d>' % self.n


class BoolOnly:
    def __init__(self, t):
        self.t = t

    def __bool__(self):
        return self.t

    def __str__(self):
        return '<bool %s>' % self.t


class BoolOverLen(LenOnly):
    """__bool__ wins over __len__"""

    def __init__(self, n, t):
        self.n, self.t = n, t

    def __bool__(self):
        return self.t


class GetItemOnly:
    """__getitem__ without __len__: an ordinary object, true"""

    def __getitem__(self, i):
        raise IndexError(i)

    def __str__(self):
        return '<getitem only>'


class MapLike(SeqLike):
    """mapping-like: also get and keys"""

    def get(self, k, d=None):
        return d

    def keys(self):
        return []


class MapLikeBool(MapLike):
    def __bool__(self):
        return self.truth


class Plain:
    def __str__(self):
        return '<plain>'


class TrueList(list):
    def __bool__(self):
        return True


class FalseList(list):
    def __bool__(self):
        return False


class FalseTuple(tuple):
    def __bool__(self):
        return False


class TrueDict(dict):
    def __bool__(self):
        return True


class FalseStr(str):
    def __bool__(self):
        return False


class TrueInt(int):
    def __bool__(self):
        return True


def ds_value_kinds():
    """(label, factory of a fresh value, its truth BY CONSTRUCTION (Python's truth protocol), may be shown by dtml-var)"""
    import decimal
    import fractions
    S, SB = SeqLike, SeqLikeBool
    return [
        ('0', lambda: 0, False, True), ('1', lambda: 1, True, True), ('-1', lambda: -1, True, True),
        ('0.0', lambda: 0.0, False, True), ('0.5', lambda: 0.5, True, True), ('nan', lambda: float('nan'), True, True),
        ('0j', lambda: 0j, False, True), ('True', lambda: True, True, True), ('False', lambda: False, False, True),
        ('None', lambda: None, False, True), ("''", lambda: '', False, True), ("'x'", lambda: 'x', True, True),
        ("' '", lambda: ' ', True, True), ("'0'", lambda: '0', True, True), ("b''", lambda: b'', False, False),
        ("b'x'", lambda: b'x', True, False), ('[]', lambda: [], False, True), ('[0]', lambda: [0], True, True),
        ('[[]]', lambda: [[]], True, True), ('()', lambda: (), False, True), ('(0,)', lambda: (0,), True, True),
        ('{}', lambda: {}, False, True), ('{0: 0}', lambda: {0: 0}, True, True), ('set()', lambda: set(), False, True),
        ('{0}', lambda: {0}, True, True), ('frozenset()', lambda: frozenset(), False, True),
        ('range(0)', lambda: range(0), False, True), ('range(1, 3)', lambda: range(1, 3), True, True),
        ('Decimal(0)', lambda: decimal.Decimal('0.0'), False, True), ('Decimal(2)', lambda: decimal.Decimal(2), True, True),
        ('Fraction(0)', lambda: fractions.Fraction(0), False, True), ('Fraction(1, 2)', lambda: fractions.Fraction(1, 2), True, True),
        ('Plain()', Plain, True, True),
        ('seq[r1, r2]', lambda: S(['r1', 'r2'], label='seq 2'), True, True),
        ('seq[]', lambda: S([], label='seq 0'), False, True),
        ('seq[0] (false first row)', lambda: S([0], label='seq of 0'), True, True),
        ('seq[r1, r2] __bool__ False', lambda: SB(['r1', 'r2'], truth=False, label='seq 2 false'), False, True),
        ('seq[r1, r2] __bool__ True', lambda: SB(['r1', 'r2'], truth=True, label='seq 2 true'), True, True),
        ('seq[] __bool__ True', lambda: SB([], truth=True, label='seq 0 true'), True, True),
        ('seq[] __bool__ False', lambda: SB([], truth=False, label='seq 0 false'), False, True),
        ('seq from 1 [a, b]', lambda: S(['a', 'b'], base=1, label='seq from 1'), True, True),
        ('seq from 1 []', lambda: S([], base=1, label='seq from 1, empty'), False, True),
        ('seq from -2 [a]', lambda: S(['a'], base=-2, label='seq from -2'), True, True),
        ('seq from 5 [a] __bool__ False', lambda: SB(['a'], base=5, truth=False, label='seq from 5 false'), False, True),
        ('string-keyed [a]', lambda: StrKeyed(['a'], label='strkeyed 1'), True, True),
        ('string-keyed []', lambda: StrKeyed([], label='strkeyed 0'), False, True),
        ('LenOnly(0)', lambda: LenOnly(0), False, True), ('LenOnly(3)', lambda: LenOnly(3), True, True),
        ('BoolOnly(False)', lambda: BoolOnly(False), False, True), ('BoolOnly(True)', lambda: BoolOnly(True), True, True),
        ('BoolOverLen(0, True)', lambda: BoolOverLen(0, True), True, True),
        ('BoolOverLen(2, False)', lambda: BoolOverLen(2, False), False, True),
        ('GetItemOnly()', GetItemOnly, True, True),
        ('maplike []', lambda: MapLike([], label='maplike 0'), False, True),
        ('maplike [a]', lambda: MapLike(['a'], label='maplike 1'), True, True),
        ('maplike [] __bool__ True', lambda: MapLikeBool([], truth=True, label='maplike 0 true'), True, True),
        ('maplike [a] __bool__ False', lambda: MapLikeBool(['a'], truth=False, label='maplike 1 false'), False, True),
        ('TrueList()', lambda: TrueList(), True, True), ('FalseList([1])', lambda: FalseList([1]), False, True),
        ('FalseTuple((1,))', lambda: FalseTuple((1,)), False, True), ('TrueDict()', lambda: TrueDict(), True, True),
        ("FalseStr('s')", lambda: FalseStr('s'), False, False), ('TrueInt(0)', lambda: TrueInt(0), True, True),
    ]


DS_VALUES = ds_value_kinds()
DS_ODD = [i for i, v in enumerate(DS_VALUES) if v[0][0] in 'sSLBGmTF' and v[0] not in ('set()', 'True', 'False')]


class DSServed:
    """a namespace callable with a logged side effect"""

    def __init__(self, events, fid, value):
        self.events, self.fid, self.value = events, fid, value

    def __call__(self):
        self.events.append(('call', self.fid))
        return self.value


class KeyMap:
    """a data source that is a mapping class of its own: a name it does not have is a KeyError; successful evaluations are
    logged (they are the side effect of a formula-like source)"""
    missing = KeyError

    def __init__(self, events, lid, d):
        self.events, self.lid, self.d = events, lid, d

    def __getitem__(self, k):
        if k not in self.d:
            raise self.missing(k)
        self.events.append(('get', self.lid, k))
        return self.d[k]


class NameMap(KeyMap):
    """... which evaluates names the way Python does: a name it does not know is a NameError"""
    missing = NameError


class MissingDict(dict):
    def __missing__(self, k):
        raise NameError("name %r is not defined" % k)


class DSObject:
    pass


class DSSkip(Exception):
    pass


DS_MAP_KINDS = ['dict', 'keymap', 'namemap', 'namemap', 'missingdict', 'userdict']
# documented order of consultation (DT_String.__call__): keyword arguments, client, mapping argument, creation keywords
DS_CALL_ORDER = ['defaults', 'mapping', 'client', 'kw']


def ds_layer(lid, pos, kind, names):
    return {'id': lid, 'pos': pos, 'kind': kind, 'names': names, 'logs': kind in ('keymap', 'namemap')}


def ds_val(vi, fid=None):
    return {'vi': vi, 'fid': fid}


class DSOracle:
    """the property's rule over the abstract program: a name is looked up from the top data source down, the first source
    that HAS it decides (a source that does not have it - however it says so - is passed over); undefined = false; truth =
    Python's; first true condition wins, later ones are not evaluated; a named condition's value is kept for the
    conditional"""

    def __init__(self, prog):
        self.prog = prog
        self.events = []
        self.out = []

    def lookup(self, n, stack, call):
        for L in reversed(stack):
            if n in L['names']:
                if L['logs']:
                    self.events.append(('get', L['id'], n))
                v = L['names'][n]
                if v['fid'] is not None and call:
                    self.events.append(('call', v['fid']))
                    return ds_val(v['vi'])
                return v
        return None

    @staticmethod
    def truth(v):
        if v is None:
            return False
        if v['fid'] is not None:
            return True         # the callable itself (an expression naming it does not call it)
        return DS_VALUES[v['vi']][2] if isinstance(v['vi'], int) else bool(v['vi'][0])

    def cond(self, src, stack):
        if src[0] == 'n':
            v = self.lookup(src[1], stack, True)
            if v is not None:
                stack[-1]['names'][src[1]] = v
            return self.truth(v)
        v = self.lookup(src[1], stack, False)
        if v is None:
            raise DSSkip()
        return self.truth(v) != (src[0] == 'xnot')

    def render(self, blocks, stack):
        for b in blocks:
            k = b[0]
            if k == 'lit':
                self.out.append(b[1])
            elif k == 'var':
                v = self.lookup(b[1], stack, True)
                if v is None:
                    raise DSSkip()
                if isinstance(v['vi'], int):
                    if not DS_VALUES[v['vi']][3]:
                        raise DSSkip()
                    self.out.append(str(DS_VALUES[v['vi']][1]()))
                else:
                    self.out.append(str(v['vi'][0]))
            elif k == 'cond':
                stack.append(ds_layer(-1, 'cache', 'dict', {}))
                for src, body in b[1]:
                    if self.cond(src, stack):
                        self.render(body, stack)
                        break
                else:
                    if b[2] is not None:
                        self.render(b[2], stack)
                stack.pop()
            elif k == 'unless':
                stack.append(ds_layer(-1, 'cache', 'dict', {}))
                if not self.cond(b[1], stack):
                    self.render(b[2], stack)
                stack.pop()
            elif k == 'call':
                stack.append(ds_layer(-1, 'cache', 'dict', {}))
                self.cond(b[1], stack)
                stack.pop()
            elif k in ('with', 'in'):
                if self.lookup(b[1]['ref'], stack, True) is None:
                    raise DSSkip()
                stack.append(b[1])
                self.render(b[2], stack)
                stack.pop()
            elif k == 'let':
                stack.append(ds_layer(-1, 'let', 'dict', {n: ds_val((lit,)) for n, lit in b[1]}))
                self.render(b[2], stack)
                stack.pop()
            else:
                raise ValueError(k)


def ds_predict(prog):
    o = DSOracle(prog)
    o.render(prog['blocks'], [L for pos in DS_CALL_ORDER for L in prog['layers'] if L['pos'] == pos])
    return ''.join(o.out), o.events


def ds_source(blocks, syntax, rs):
    def tag(name, args='', end=False, block=True):
        if syntax == 'dtml':
            return '</dtml-%s>' % name if end else '<dtml-%s%s>' % (name, ' ' + args if args else '')
        if syntax == 'ssi':
            return '<!--#/%s-->' % name if end else '<!--#%s%s-->' % (name, ' ' + args if args else '')
        if end:
            return '%%(%s)]' % name
        sep = '  ' if args.startswith('"') else ' '
        return '%%(%s%s)%s' % (name, sep + args if args else '', '[' if block else 's')

    def target(s):
        if s[0] == 'n':
            return s[1] if rs.random() < 0.8 else 'name=' + s[1]
        e = s[1] if s[0] == 'x' else 'not ' + s[1]
        return '"%s"' % e if rs.random() < 0.6 else 'expr="%s"' % e

    out = []
    for b in blocks:
        k = b[0]
        if k == 'lit':
            out.append(b[1])
        elif k == 'var':
            out.append(tag('var', b[1], block=False))
        elif k == 'cond':
            for i, (src, body) in enumerate(b[1]):
                out.append(tag('elif' if i else 'if', target(src)))
                out.append(ds_source(body, syntax, rs))
            if b[2] is not None:
                out.append(tag('else') + ds_source(b[2], syntax, rs))
            out.append(tag('if', end=True))
        elif k == 'unless':
            out.append(tag('unless', target(b[1])) + ds_source(b[2], syntax, rs) + tag('unless', end=True))
        elif k == 'call':
            out.append(tag('call', target(b[1])))
        elif k == 'with':
            out.append(tag('with', b[1]['ref'] + ('' if b[1]['kind'] == 'object' else ' mapping')) + ds_source(b[2], syntax, rs)
                       + tag('with', end=True))
        elif k == 'in':
            out.append(tag('in', b[1]['ref'] + ' mapping') + ds_source(b[2], syntax, rs) + tag('in', end=True))
        elif k == 'let':
            out.append(tag('let', ' '.join('%s="%r"' % (n, lit) for n, lit in b[1])) + ds_source(b[2], syntax, rs)
                       + tag('let', end=True))
    return ''.join(out)


def ds_run_real(prog, source, klass):
    import collections
    from DocumentTemplate import HTML
    from DocumentTemplate import String
    events = []

    def value(v):
        x = DS_VALUES[v['vi']][1]()
        return x if v['fid'] is None else DSServed(events, v['fid'], x)

    def source_of(L):
        d = {n: value(v) for n, v in L['names'].items() if isinstance(v['vi'], int)}
        if L['kind'] == 'dict':
            return d
        if L['kind'] == 'keymap':
            return KeyMap(events, L['id'], d)
        if L['kind'] == 'namemap':
            return NameMap(events, L['id'], d)
        if L['kind'] == 'missingdict':
            return MissingDict(d)
        if L['kind'] == 'userdict':
            return collections.UserDict(d)
        o = DSObject()
        o.__dict__.update(d)
        return o

    args = {'defaults': {}, 'mapping': {}, 'client': None, 'kw': {}}
    for L in prog['layers']:
        args[L['pos']] = source_of(L)
    for L in prog['pushed']:
        args['kw'][L['ref']] = [source_of(L)] if L['pos'] == 'in' else source_of(L)
    try:
        t = {'String': String, 'HTML': HTML}[klass](source, **args['defaults'])
        return t(args['client'], args['mapping'], **args['kw']), events
    except Exception as e:  # noqa
        return 'raised %s: %s' % (type(e).__name__, e), events


class DSGen:
    def __init__(self, r):
        self.r = r
        self.lid = 0
        self.fid = 0
        self.layers = []
        self.pushed = []

    def val(self, vi, served=None):
        if served is None:
            served = self.r.random() < 0.4
        if served:
            self.fid += 1
            return ds_val(vi, self.fid)
        return ds_val(vi)

    def layer(self, pos, names, kind=None):
        r = self.r
        if kind is None:
            kind = {'defaults': 'dict', 'kw': 'dict', 'client': 'object'}.get(pos) or r.choice(DS_MAP_KINDS)
            if pos == 'with' and r.random() < 0.3:
                kind = 'object'
        self.lid += 1
        L = ds_layer(self.lid, pos, kind, names)
        if pos in ('with', 'in'):
            L['ref'] = 'src%d' % self.lid
            self.pushed.append(L)
        else:
            self.layers.append(L)
        return L

    def prog(self, blocks):
        # the pushed sources are found by name among the keyword arguments
        kw = [L for L in self.layers if L['pos'] == 'kw']
        if self.pushed and not kw:
            kw = [self.layer('kw', {})]
        for L in self.pushed:
            kw[0]['names'][L['ref']] = ds_val(('<source>',))
        return {'layers': self.layers, 'pushed': self.pushed, 'blocks': blocks}


def ds_stack(g, r, home, names_here, other_names, force_name_error=True):
    """a namespace: call-level sources + pushed ones (returned as wrappers, innermost last); the source at position `home`
    (None: nowhere) holds `names_here`; every other source holds a random part of `other_names` - and not the names of
    `names_here`, which it has to report as missing"""
    positions = ['defaults', 'mapping', 'client', 'kw', 'with', 'in', 'with']
    chosen = [p for p in positions[:4] if p == home or r.random() < 0.6]
    npush = r.choice([0, 0, 1, 1, 2])
    pushes = [r.choice(['with', 'in']) for _ in range(npush)]
    if home in ('with', 'in'):
        pushes.insert(r.randrange(len(pushes) + 1), home + '!')
    if 'mapping' not in chosen and not pushes and force_name_error:
        chosen.append('mapping')
    wrappers = []
    kinds = []
    for p in [p for p in DS_CALL_ORDER if p in chosen] + pushes:
        mine = p.rstrip('!') == home and (p.endswith('!') or p in DS_CALL_ORDER)
        names = dict(names_here) if mine else {n: g.val(r.randrange(len(DS_VALUES))) for n in other_names if r.random() < 0.4}
        if p == 'mapping' and not names:
            names = {'unused': ds_val(1)}           # (an empty mapping argument is not a data source at all)
        L = g.layer(p.rstrip('!'), names)
        kinds.append(L['kind'])
        if L['pos'] in ('with', 'in'):
            wrappers.append(L)
    if force_name_error and not any(k in ('namemap', 'missingdict') for k in kinds):
        # make one of the mapping sources a NameError-reporting one
        for L in g.layers + g.pushed:
            if L['pos'] in ('mapping', 'with', 'in') and L['kind'] != 'object':
                L['kind'] = r.choice(['namemap', 'missingdict'])
                L['logs'] = L['kind'] == 'namemap'
                break
    return wrappers


def ds_wrap(r, wrappers, blocks, lets=()):
    for L in reversed(wrappers):
        blocks = [[L['pos'], L, blocks]]
        if lets and r.random() < 0.3:
            blocks = [['let', list(lets), blocks]]
    return blocks


DS_FORMS = ['if', 'unless', 'elif', 'call', 'xif', 'xnot', 'xunless', 'twice']


def ds_form(g, form, n):
    """one conditional on the name n (z: a false constant, y: a true callable - both in the keyword arguments)"""
    ref = [['var', n]]
    if form == 'if':
        return [['cond', [(('n', n), [['lit', 'T[']] + ref + [['lit', ']']])], [['lit', 'F']]]]
    if form == 'unless':
        return [['unless', ('n', n), [['lit', 'U']]], ['lit', '.']]
    if form == 'elif':
        return [['cond', [(('n', 'z'), [['lit', 'A']]), (('n', n), [['lit', 'B']] + ref), (('n', 'y'), [['lit', 'C']])],
                 [['lit', 'E']]]]
    if form == 'call':
        return [['lit', '['], ['call', ('n', n)], ['lit', ']']]
    if form == 'xif':
        return [['cond', [(('x', n), [['lit', 'T']])], [['lit', 'F']]]]
    if form == 'xnot':
        return [['cond', [(('xnot', n), [['lit', 'N']]), (('n', n), [['lit', 'T']] + ref)], [['lit', 'F']]]]
    if form == 'xunless':
        return [['unless', ('x', n), [['lit', 'U']]], ['lit', '.']]
    # the name twice in one chain (one evaluation), then again in a second conditional (a fresh one)
    return [['cond', [(('n', 'z'), [['lit', 'A']]), (('n', n), [['lit', 'B']]), (('n', n), [['lit', 'B2']])], [['lit', 'E']]],
            ['unless', ('n', n), [['lit', 'U']]]]


def gen_ds_systematic(r, tier):
    """every kind of value x plain / served by a callable x every form of conditional, the name living in a random data
    source of a random stack (thorough: in every position); and the name defined nowhere"""
    homes = ['defaults', 'mapping', 'client', 'kw', 'with', 'in']
    for vi in list(range(len(DS_VALUES))) + [None]:
        for served in (False, True):
            if vi is None and served:
                continue
            for form in DS_FORMS:
                if vi is None and form in ('xif', 'xnot', 'xunless'):
                    continue        # an undefined name inside an expression is an error, not a false condition
                for home in (homes if tier == 'thorough' else [r.choice(homes)]):
                    g = DSGen(r)
                    here = {} if vi is None else {'a': g.val(vi, served)}
                    wrappers = ds_stack(g, r, None if vi is None else home, here, ['p', 'q'])
                    kw = [L for L in g.layers if L['pos'] == 'kw'] or [g.layer('kw', {})]
                    kw[0]['names'].update({'z': ds_val(0), 'y': g.val(1, True)})
                    blocks = ds_wrap(r, wrappers, ds_form(g, form, 'a'))
                    yield g.prog(blocks), ('ds', form, 'undefined' if vi is None else DS_VALUES[vi][0], served, home)


def gen_ds_random(r):
    """a chain of 1..5 conditions (names / expressions) over 4 names spread over a random stack of data sources; a name may be
    in several sources with different values (the topmost decides)"""
    g = DSGen(r)
    names = ['a', 'b', 'c', 'd']
    pool = DS_ODD if r.random() < 0.5 else list(range(len(DS_VALUES)))
    defined = [n for n in names if r.random() < 0.7]
    home = r.choice(['defaults', 'mapping', 'client', 'kw', 'with', 'in'])
    here = {n: g.val(r.choice(pool)) for n in defined if r.random() < 0.5}
    wrappers = ds_stack(g, r, home, here, defined)
    k = r.randint(1, 5)
    conds = []
    used = []
    for i in range(k):
        n = r.choice(names)
        c = r.random()
        src = ('n', n) if c < 0.7 or n not in defined else (('x', n) if c < 0.85 else ('xnot', n))
        used.append(n)
        body = [['lit', '%d:' % i]] + [['var', m] for m in used if r.random() < 0.4]
        conds.append((src, body))
    els = [['lit', 'E']] if r.random() < 0.6 else None
    shape = r.random()
    if shape < 0.7:
        blocks = [['cond', conds, els]]
    elif shape < 0.85:
        blocks = [['unless', conds[0][0], conds[0][1]]]
    else:
        blocks = [['lit', '['], ['call', conds[0][0]], ['lit', ']']]
    blocks = blocks + [['lit', '|'], ['unless', ('n', r.choice(names)), [['lit', 'U']]]]
    lets = [(n, r.choice([0, 1, '', 's'])) for n in names if r.random() < 0.2]
    return g.prog(ds_wrap(r, wrappers, blocks, lets)), ('ds-random', k, home)


def ds_strip_vars(blocks):
    out = []
    for b in blocks:
        if b[0] == 'var':
            continue
        if b[0] == 'cond':
            b = ['cond', [(s, ds_strip_vars(body)) for s, body in b[1]], None if b[2] is None else ds_strip_vars(b[2])]
        elif b[0] in ('unless', 'with', 'in', 'let'):
            b = [b[0], b[1], ds_strip_vars(b[2])]
        out.append(b)
    return out


def check_data_sources(res, tier):
    r = common.rng('C09-data-sources')
    progs = list(gen_ds_systematic(r, tier))
    for _ in range(1200 if tier == 'quick' else 20000):
        progs.append(gen_ds_random(r))
    n = 0
    for prog, key in progs:
        try:
            exp = ds_predict(prog)
        except DSSkip:
            # a reference in a body to a name that is not defined there / a value dtml-var is not asked to show here:
            # the same conditional without the references
            prog['blocks'] = ds_strip_vars(prog['blocks'])
            try:
                exp = ds_predict(prog)
            except DSSkip:
                continue
        syntax = r.choice(SYNTAXES)
        source = ds_source(prog['blocks'], syntax, r)
        klass = 'String' if syntax == 'epfs' else 'HTML'
        got = ds_run_real(prog, source, klass)
        n += 1
        res.evaluations += 1
        res.nt(key)
        res.count('form=objects-and-data-sources')
        res.count('data-sources:' + key[0] + ('' if key[0] != 'ds' else ':' + key[1]))
        for L in prog['layers'] + prog['pushed']:
            res.count('data-source:%s(%s)' % (L['pos'], L['kind']))
        if (got[0], got[1]) != (exp[0], exp[1]):
            res.oracle_fail.append({
                'case': {'source': source, 'class': klass, 'family': 'objects-and-data-sources',
                         'data_sources (lowest first; then the pushed ones)': [
                             {'at': L['pos'], 'kind': L['kind'], 'id': L['id'], 'ref': L.get('ref'),
                              'names': {nm: (DS_VALUES[v['vi']][0] if isinstance(v['vi'], int) else repr(v['vi'][0]))
                                        + ('' if v['fid'] is None else ' served by callable %d' % v['fid'])
                                        for nm, v in L['names'].items()}}
                             for L in prog['layers'] + prog['pushed']]},
                'what': 'expected %r with events %r; got %r with events %r' % (exp[0], exp[1], got[0], got[1])})
    return n


# ---------------------------------------------------------------------------------------------------------------------
# EFFECTS: callables whose side effect CHANGES a data source (gives an object an attribute, binds / rebinds / removes a
# key of a mapping) while the template is being rendered - between two conditionals, inside the chosen body of one, or in
# the middle of one expression.  Reference: the property's rule over a plain-Python state (a dict per data source): every
# conditional is a new evaluation over the sources as they are THEN; a named condition's value is kept for its own
# conditional only; an expression's names are resolved when its evaluation starts and the expression is then evaluated
# once, left to right, by Python itself.

EFF_TARGETS = [('client', 'object'), ('with', 'object'), ('in', 'object'), ('mapping', 'dict'), ('withmap', 'dict'),
               ('inmap', 'dict')]
EFF_FIRST = ['if', 'unless', 'elif', 'xguard', 'none']
EFF_SETTERS = ['call', 'callx', 'ifn', 'unlessn', 'late', 'late-and', 'late-call', 'inbody']
EFF_RETESTS = ['if', 'unless', 'elif', 'x', 'twice']


class EffObject:
    pass


class EffRaise(Exception):
    def __init__(self, cls):
        Exception.__init__(self, cls)
        self.cls = cls


def eff_is(v, tag):
    return isinstance(v, tuple) and v[0] == tag


class EffOracle:
    def __init__(self, prog):
        self.prog = prog
        self.state = {S['id']: dict(S['names']) for S in prog['sources']}
        self.events = []
        self.out = []

    def fn(self, f):
        spec = self.prog['fns'][f]

        def call():
            self.events.append(f)
            for sid, n, op in spec['effects']:
                if op[0] == 'set':
                    self.state[sid][n] = op[1]
                else:
                    self.state[sid].pop(n, None)
            return spec['ret']
        return call

    def lookup(self, n, stack):
        for fr in reversed(stack):
            d = self.state[fr] if isinstance(fr, int) else fr
            if n in d:
                return True, d[n]
        return False, None

    def value(self, n, stack):
        found, v = self.lookup(n, stack)
        if found and eff_is(v, 'fn'):
            v = self.fn(v[1])()
        return found, v

    def evalx(self, text, used, stack):
        env = {}
        for n in used:
            found, v = self.lookup(n, stack)
            if found:
                env[n] = self.fn(v[1]) if eff_is(v, 'fn') else v
        try:
            return eval(text, {'__builtins__': {}}, env)
        except NameError:
            raise EffRaise('NameError')
        except TypeError:
            # (inside the chosen body of a conditional on a callable's NAME the name stands for the kept result)
            raise EffRaise('TypeError')

    def cond(self, src, stack):
        if src[0] == 'n':
            found, v = self.value(src[1], stack)
            if not found:
                return False
            stack[-1][src[1]] = v
            return bool(v)
        return bool(self.evalx(src[1], src[2], stack))

    def render(self, blocks, stack):
        for b in blocks:
            k = b[0]
            if k == 'lit':
                self.out.append(b[1])
            elif k == 'var':
                found, v = self.value(b[1], stack)
                if not found:
                    raise EffRaise('KeyError')
                self.out.append(str(v))
            elif k in ('cond', 'unless', 'call'):
                stack.append({})
                try:
                    if k == 'cond':
                        for src, body in b[1]:
                            if self.cond(src, stack):
                                self.render(body, stack)
                                break
                        else:
                            if b[2] is not None:
                                self.render(b[2], stack)
                    elif k == 'unless':
                        if not self.cond(b[1], stack):
                            self.render(b[2], stack)
                    else:
                        self.cond(b[1], stack)
                finally:
                    stack.pop()
            elif k == 'push':
                stack.append(b[1])
                try:
                    self.render(b[2], stack)
                finally:
                    stack.pop()
            elif k == 'try':
                mark, depth = len(self.out), len(stack)
                try:
                    self.render(b[1], stack)
                except EffRaise:
                    del self.out[mark:]
                    assert len(stack) == depth
                    self.render(b[2], stack)
            else:
                raise ValueError(k)


def eff_predict(prog):
    o = EffOracle(prog)
    try:
        o.render(prog['blocks'], [S['id'] for S in prog['sources'] if S['pos'] in ('mapping', 'client', 'kw')])
    except EffRaise as e:
        return 'raised ' + e.cls, o.events
    return ''.join(o.out), o.events


def eff_source(prog, blocks, syntax, rs):
    def tag(name, args='', end=False):
        if syntax == 'dtml':
            return '</dtml-%s>' % name if end else '<dtml-%s%s>' % (name, ' ' + args if args else '')
        return '<!--#/%s-->' % name if end else '<!--#%s%s-->' % (name, ' ' + args if args else '')

    def target(s):
        if s[0] == 'n':
            return s[1] if rs.random() < 0.8 else 'name=' + s[1]
        return '"%s"' % s[1] if rs.random() < 0.6 else 'expr="%s"' % s[1]

    def sub(bs):
        return eff_source(prog, bs, syntax, rs)

    out = []
    for b in blocks:
        k = b[0]
        if k == 'lit':
            out.append(b[1])
        elif k == 'var':
            out.append(tag('var', b[1]))
        elif k == 'cond':
            for i, (src, body) in enumerate(b[1]):
                out.append(tag('elif' if i else 'if', target(src)) + sub(body))
            if b[2] is not None:
                out.append(tag('else') + sub(b[2]))
            out.append(tag('if', end=True))
        elif k == 'unless':
            out.append(tag('unless', target(b[1])) + sub(b[2]) + tag('unless', end=True))
        elif k == 'call':
            out.append(tag('call', target(b[1])))
        elif k == 'push':
            S = [S for S in prog['sources'] if S['id'] == b[1]][0]
            name = 'with' if S['pos'].startswith('with') else 'in'
            out.append(tag(name, S['ref'] + (' mapping' if S['kind'] == 'dict' else '')) + sub(b[2]) + tag(name, end=True))
        elif k == 'try':
            out.append(tag('try') + sub(b[1]) + tag('except') + sub(b[2]) + tag('try', end=True))
    return ''.join(out)


def eff_run_real(prog, source):
    from DocumentTemplate import HTML
    events = []
    real = {S['id']: (EffObject() if S['kind'] == 'object' else {}) for S in prog['sources']}

    def mk(f):
        spec = prog['fns'][f]

        def call():
            events.append(f)
            for sid, n, op in spec['effects']:
                tgt = real[sid]
                if isinstance(tgt, dict):
                    if op[0] == 'set':
                        tgt[n] = op[1]
                    else:
                        tgt.pop(n, None)
                elif op[0] == 'set':
                    setattr(tgt, n, op[1])
                elif hasattr(tgt, n):
                    delattr(tgt, n)
            return spec['ret']
        return call

    args = {'client': None, 'mapping': {}, 'kw': {}}
    for S in prog['sources']:
        for n, v in S['names'].items():
            if eff_is(v, 'fn'):
                v = mk(v[1])
            elif eff_is(v, 'ref'):
                v = [real[v[1]]] if v[2] else real[v[1]]
            if S['kind'] == 'object':
                setattr(real[S['id']], n, v)
            else:
                real[S['id']][n] = v
        if S['pos'] in args:
            args[S['pos']] = real[S['id']]
    try:
        return HTML(source)(args['client'], args['mapping'], **args['kw']), events
    except Exception as e:  # noqa
        return 'raised ' + type(e).__name__, events


class EffGen:
    """a namespace (lowest first: mapping argument, client object, keyword arguments, then pushed sources) and the callables
    over it"""

    def __init__(self, r):
        self.r = r
        self.sources = []
        self.fns = {}

    def source(self, pos, kind, names):
        S = {'id': len(self.sources), 'pos': pos, 'kind': kind, 'names': names}
        if pos not in ('mapping', 'client', 'kw'):
            S['ref'] = 'src%d' % S['id']
        self.sources.append(S)
        return S

    def fn(self, prefix, ret, effects=()):
        f = '%s%d' % (prefix, len(self.fns) + 1)
        self.fns[f] = {'ret': ret, 'effects': list(effects)}
        return f

    def stack(self, target, low=None, extra=None):
        """the sources; returns (target source, pushed ids in order).  low: {name: value} placed in the mapping argument
        (below every other source)"""
        r = self.r
        pos, kind = target
        extra = r.random() < 0.4 if extra is None else extra
        T = None
        if pos == 'mapping' or low or r.random() < 0.5:
            S = self.source('mapping', 'dict', dict({'unused': 1}, **(low or {}) if pos != 'mapping' else {}))
            T = S if pos == 'mapping' else T
        if pos == 'client' or r.random() < 0.5:
            S = self.source('client', 'object', {})
            T = S if pos == 'client' else T
        self.kw = self.source('kw', 'dict', {})
        pushes = [] if T is not None else [target]
        if extra:
            pushes.insert(r.randrange(len(pushes) + 1), r.choice(EFF_TARGETS[1:3] + EFF_TARGETS[4:]))
        pushed = []
        for p in pushes:
            S = self.source(p[0], p[1], {})
            self.kw['names'][S['ref']] = ('ref', S['id'], p[0].startswith('in'))
            pushed.append(S['id'])
            if p is target:
                T = S
        return T, pushed

    def prog(self, blocks, pushed):
        r = self.r
        clients = [S for S in self.sources if S['pos'] == 'client']
        home = clients[0] if clients and r.random() < 0.4 else self.kw
        for f in self.fns:
            home['names'][f] = ('fn', f)
        for sid in reversed(pushed):
            blocks = [['push', sid, blocks]]
        return {'sources': self.sources, 'fns': self.fns, 'blocks': blocks}


def eff_test(form, n, tag=''):
    """one conditional on the name n (zz: defined nowhere)"""
    ref = [['var', n]]
    if form == 'if':
        return [['cond', [(('n', n), [['lit', tag + 'T[']] + ref + [['lit', ']']])], [['lit', tag + 'F']]]]
    if form == 'unless':
        return [['unless', ('n', n), [['lit', tag + 'U']]], ['lit', '.']]
    if form == 'elif':
        return [['cond', [(('n', 'zz'), [['lit', 'A']]), (('n', n), [['lit', tag + 'B:']] + ref)], [['lit', tag + 'E']]]]
    if form in ('x', 'xguard'):
        # an expression on the name: an error where the name is not defined, so the template guards it
        return [['try', [['cond', [(('x', n, [n]), [['lit', tag + 'X']])], [['lit', tag + 'Y']]]], [['lit', tag + 'undefined']]]]
    if form == 'twice':
        return [['cond', [(('n', 'zz'), [['lit', 'A']]), (('n', n), [['lit', tag + 'B']]), (('n', n), [['lit', 'B2']])],
                 [['lit', tag + 'E']]], ['unless', ('n', n), [['lit', tag + 'U']]]]
    return [['lit', tag + '-']]


def eff_setter(form, f, t, n, retest, guard):
    """the callable f (whose side effect changes n) is evaluated; t: a callable that only counts"""
    late = None
    if form == 'call':
        bs = [['call', ('n', f)]]
    elif form == 'callx':
        bs = [['call', ('x', '%s()' % f, [f])]]
    elif form == 'ifn':
        bs = [['cond', [(('n', f), [['lit', 'c']])], [['lit', 'd']]]]
    elif form == 'unlessn':
        bs = [['unless', ('n', f), [['lit', 'u']]]]
    elif form == 'late':
        late = ('x', '%s() or %s() or %s' % (t, f, n), [t, f, n])
        bs = [['cond', [(('n', 'zz'), [['lit', 'N']]), (late, [['lit', 'L']])], [['lit', 'M']]]]
    elif form == 'late-and':
        late = ('x', 'not %s() and not %s() and %s' % (t, f, n), [t, f, n])
        bs = [['unless', late, [['lit', 'L']]]]
    elif form == 'late-call':
        late = ('x', '%s() or %s() or %s' % (t, f, n), [t, f, n])
        bs = [['call', late]]
    else:
        # inside the chosen body of a conditional on n itself (there the kept value goes on being used), or its else body
        inner = [['call', ('n', f)], ['lit', '/']] + retest
        return [['cond', [(('n', n), [['lit', 'in:']] + [['var', n]] + inner + [['var', n]])], [['lit', 'else:']] + inner]]
    if late is not None and guard:
        bs = [['try', bs + [['lit', 'done']], [['lit', 'undefined']]]]
    return bs


def gen_eff_systematic(r, tier):
    """the data source that is changed (client object, dtml-with object, dtml-in item; mapping argument, dtml-with / dtml-in
    mapping) x the name's state there before (objects: not there; mappings: also false / true) x the name also defined in a
    source below or not x the first look at the name x how the changing callable is evaluated x the new state x the
    second look"""
    combos = []
    for target in EFF_TARGETS:
        for init in ([None] if target[1] == 'object' else [None, 0, 'a']):
            for low in (False, True):
                if low and target[0] == 'mapping':
                    continue
                for first in EFF_FIRST:
                    for setter in EFF_SETTERS:
                        for new in (('set', 'v'), ('set', 0), ('set', ''), ('del',)):
                            if new == ('del',) and init is None:
                                continue
                            for retest in EFF_RETESTS:
                                combos.append((target, init, low, first, setter, new, retest))
    if tier == 'quick':
        combos = r.sample(combos, 2500)
    for target, init, low, first, setter, new, retest in combos:
        g = EffGen(r)
        T, pushed = g.stack(target, {'n': 'low'} if low else None)
        if init is not None:
            T['names']['n'] = init
        t = g.fn('t', 0)
        f = g.fn('s', r.choice([0, '', None]) if setter.startswith('late') else r.choice([0, 1, '', 'r', None]),
                 [(T['id'], 'n', new)])
        blocks = (eff_test(first, 'n', '1') + [['lit', '|']]
                  + eff_setter(setter, f, t, 'n', eff_test(retest, 'n', 'i'), r.random() < 0.5) + [['lit', '|']]
                  + eff_test(retest, 'n', '2'))
        yield g.prog(blocks, pushed), ('effects', target[0], repr(init), low, first, setter, new[0], retest)


def gen_eff_random(r):
    """2 names over a random stack, 1..3 changing callables with 1..2 effects each, 1..2 counting ones; a sequence of 3..7
    conditionals / calls / guarded groups on them"""
    g = EffGen(r)
    target = r.choice(EFF_TARGETS)
    names = ['n', 'm']
    low = {n: r.choice(['low', 0]) for n in names if r.random() < 0.3}
    T, pushed = g.stack(target, low)
    others = [S for S in g.sources if S['kind'] == 'dict' and S['pos'] != 'kw' and S is not T]
    for n in names:
        if T['kind'] == 'dict' and r.random() < 0.4:
            T['names'][n] = r.choice([0, 1, '', 'a'])
    ticks = [g.fn('t', r.choice([0, 0, 1, '', 'r'])) for _ in range(r.randint(1, 2))]
    setters = []
    taken = set()
    for _ in range(r.randint(1, 3)):
        effects = []
        for _ in range(r.randint(1, 2)):
            S = T if not others or r.random() < 0.7 else r.choice(others)
            n = r.choice(names)
            if S['kind'] == 'object':
                # (an object's attribute, once it has been looked up with success, is kept for the rendering by the
                # library: the client frame keeps what it has answered - a matter of the namespace (C02), not of the conditional; objects only GAIN a name here, once)
                if (S['id'], n) in taken:
                    continue
                taken.add((S['id'], n))
                effects.append((S['id'], n, ('set', r.choice([1, 'v', 0, '']))))
            else:
                effects.append((S['id'], n, r.choice([('set', 1), ('set', 'v'), ('set', 0), ('set', ''), ('del',)])))
        setters.append(g.fn('s', r.choice([0, 0, 1, '', 'r', None]), effects))
    fns = ticks + setters

    def expr():
        atoms = []
        used = []
        for _ in range(r.randint(1, 4)):
            c = r.random()
            a = r.choice(fns) if c < 0.6 else r.choice(names)
            used.append(a)
            atoms.append(('%s()' % a if c < 0.6 else a) if r.random() < 0.75 else ('not %s()' % a if c < 0.6 else 'not ' + a))
        return ('x', r.choice([' or ', ' and ']).join(atoms), used)

    def src():
        c = r.random()
        if c < 0.4:
            return ('n', r.choice(names))
        if c < 0.6:
            return ('n', r.choice(fns))
        return expr()

    def seq(depth, k):
        bs = []
        for i in range(k):
            c = r.random()
            body = lambda: ([['lit', '%d%d' % (depth, i)]] + [['var', n] for n in names if r.random() < 0.25]  # noqa
                            + (seq(depth + 1, r.randint(1, 2)) if depth < 2 and r.random() < 0.35 else []))
            if c < 0.4:
                b = [['cond', [(src(), body()) for _ in range(r.randint(1, 3))], body() if r.random() < 0.6 else None]]
            elif c < 0.55:
                b = [['unless', src(), body()]]
            elif c < 0.85:
                b = [['call', r.choice([('n', r.choice(setters)), expr(), ('n', r.choice(fns))])]]
            else:
                b = eff_test(r.choice(EFF_RETESTS), r.choice(names), 'r')
            if r.random() < 0.6:
                b = [['try', b, [['lit', 'h']] + (eff_test(r.choice(EFF_RETESTS[:3]), r.choice(names), 'h')
                                                   if r.random() < 0.4 else [])]]
            bs += b + [['lit', '|']]
        return bs

    return g.prog(seq(0, r.randint(3, 7)), pushed), ('effects-random', target[0])


def check_effects(res, tier):
    r = common.rng('C09-effects')
    progs = list(gen_eff_systematic(r, tier))
    for _ in range(1500 if tier == 'quick' else 30000):
        progs.append(gen_eff_random(r))
    for prog, key in progs:
        exp = eff_predict(prog)
        source = eff_source(prog, prog['blocks'], r.choice(['dtml', 'dtml', 'ssi']), r)
        got = eff_run_real(prog, source)
        res.evaluations += 1
        res.nt(key)
        res.count('form=effects-on-data-sources')
        res.count('effects:%s' % key[1])
        res.count('effects-outcome:%s' % ('raised' if exp[0].startswith('raised ') else 'rendered'))
        if key[0] == 'effects':
            res.count('effects-setter:%s' % key[5])
        if (got[0], list(got[1])) != (exp[0], list(exp[1])):
            res.oracle_fail.append({
                'case': {'source': source, 'class': 'HTML', 'family': 'effects-on-data-sources',
                         'data_sources (lowest first; pushed ones by dtml-with / dtml-in)': [
                             {'at': S['pos'], 'kind': S['kind'], 'id': S['id'], 'ref': S.get('ref'),
                              'names': {n: repr(v) for n, v in S['names'].items()}} for S in prog['sources']],
                         'callables (result; effects = (data source id, name, change))': {
                             f: repr((spec['ret'], spec['effects'])) for f, spec in prog['fns'].items()}},
                'what': 'expected %r with callable invocations %r; got %r with %r' % (exp[0], exp[1], got[0], got[1])})
    return len(progs)


def run(res, tier, have_driver):
    r = common.rng('C09')
    res.rule = ('dtml-if chains of 1..5 conditions (+else), dtml-unless, dtml-call; conditions = names bound to plain true/false '
                'values, None, callables with a logged side effect returning true/false/None/text, undefined names, or expressions '
                '(f(), not n, n == lit, bare name); repeated names inside a chain; bodies re-reference condition names at nesting '
                'depth 0..3; repeated expression texts in one chain; each program also with the k-th callable invocation raising '
                'KeyError / NameError / ValueError / E2; exhaustive over 7 core condition kinds for chains of length <= 3 (quick) / 4 (thorough) = every truth '
                'assignment, random beyond; non-trivial = distinct (form, condition kinds, else?) tuples.  HISTORIES (one '
                'rendering in which a conditional is left by an exception and rendering continues over the same namespace): an '
                'if chain / unless over a pool of 1..3 names (callables with a logged side effect, plain values, None, undefined) '
                'and expressions on them (h(), not h, h) whose bodies end, at wrapper depth 0..2, in dtml-raise (4 classes, '
                'message body with references), an undefined dtml-var, or dtml-return (literal / name); recovered by dtml-try '
                'with 1..2 handlers (bare, exact class, base class, non-matching; optional else), by dtml-try/finally (alone or '
                'inside a dtml-try), or at the boundary of a sub-template rendered on the caller\'s namespace (dtml-var / dtml-if / '
                'dtml-unless / dtml-call sub, with and without own defaults, inside or outside a dtml-try); followed by 1..2 '
                'further conditionals / try / sub segments on the same names, the handler / finally / else bodies re-testing '
                'and re-referencing them too; about 30 % of the histories run inside an enclosing conditional on a pool name (whose '
                'cache must keep serving); every history also with the k-th callable invocation raising (up to 6 points, '
                'KeyError / NameError / ValueError / E2) and with two faults in one rendering; a third of the histories use '
                'callables whose result changes from one evaluation to the next (real code only, no model run); expected output '
                '+ ordered call log from the documented rule with Python try semantics.  SCOPES: body wrappers also dtml-with '
                '(object / mapping, plain / only) and a let rebinding the condition name; scope-opening blocks beside the '
                'references; systematic: ' + str(len(SCOPE_LABELS)) + ' kinds of scope-opening block (with × only × same-name attribute plain / callable × '
                'left by raise / undefined variable / undefined with name and caught × nesting with let / in / with only; let, '
                'in, if / elif / unless / call on the same name, try, try-finally, sub-templates) in the chosen body of 6 forms '
                'of conditional (if, elif, else, else after repeated elif, unless, if inside if), before / between references '
                'to the condition name, a keyword argument referred to after the conditional; pairs of scopes in a row.  '
                'SPELLINGS: half of the programs in <dtml-x> / <!--#x--> / %(x)[ (String class; sub-templates choose their '
                'own syntax: String and HTML in one rendering) with the else tag repeating the if tag\'s argument text, end '
                'tags with arguments, name=NAME, "expr" / expr="expr", unless as stand-alone else NAME block; systematic: '
                'chains of 1..5 conditions × winning position × else bare / repeating × 3 syntaxes × first condition name / '
                'expression')
    items = []
    kmax = 3 if tier == 'quick' else 4
    for k in range(1, kmax + 1):
        items += list(gen_exhaustive(r, k, CORE_KINDS))
    for _ in range(1500 if tier == 'quick' else 20000):
        items.append(gen_random(r))
    items += list(gen_scopes(common.rng('C09-scopes'), tier))
    items += list(gen_spellings(common.rng('C09-else-spellings'), tier))
    rh = common.rng('C09-history')
    nh = 500 if tier == 'quick' else 8000
    histories = [gen_history(rh) for _ in range(nh)] + [gen_history(rh, True) for _ in range(nh // 2)]
    restyle(common.rng('C09-spelling'), items + histories)
    runs = check(res, items, have_driver, r, histories)
    nds = check_data_sources(res, tier)
    res.rule += ('.  OBJECTS AND DATA SOURCES (real classes against a plain-Python reference): %d programs; condition values of '
                 '%d kinds (numbers incl. 0.0 / nan / 0j / Decimal / Fraction, strings, bytes, containers, ranges, plain objects, '
                 'sequence-like objects whose truth differs from "has an element 0" (explicit __bool__, indices not starting at 0, '
                 'string keys), __len__-only / __bool__-only / __bool__-over-__len__ objects, mapping-like objects, subclasses of '
                 'list / tuple / dict / str / int overriding __bool__), plain or served by a logged callable, x 8 forms (if/else '
                 'with reference, unless, elif between a false and a true condition, call, "expr", "not expr", unless "expr", '
                 'repeated name) x the data source holding the name (template defaults, mapping argument, client object, keyword '
                 'arguments, dtml-with object / mapping, dtml-in mapping) in a stack of further sources of every kind (dict, '
                 'mapping class raising KeyError, mapping class / dict subclass raising NameError for a missing name, UserDict, '
                 'object) that do not have the name, and the name defined nowhere; random chains of 1..5 conditions over 4 names '
                 'spread over such stacks; 3 syntaxes; expected text + ordered log of callable invocations and of evaluations by '
                 'logging sources' % (nds, len(DS_VALUES)))
    neff = check_effects(res, tier)
    res.rule += ('.  EFFECTS ON DATA SOURCES (real classes against a plain-Python reference holding one dict per data source): '
                 '%d programs in which a callable evaluated by the template CHANGES a data source during the rendering: the '
                 'changed source = client object / dtml-with object / dtml-in item (gains an attribute) or mapping argument / '
                 'dtml-with mapping / dtml-in mapping (a key is bound, rebound to a true / false value, removed) x the name\'s '
                 'state there before x the name also defined in a source below or not x first look at the name (if with '
                 'reference, unless, elif after an undefined name, guarded expression, none) x how the callable is evaluated '
                 '(dtml-call name / "f()", as named condition of if / unless, in the middle of an expression that then uses '
                 'the name: "t() or f() or n", "not t() and not f() and n" as elif / unless / dtml-call argument, guarded by '
                 'dtml-try or not, inside the chosen / else body of a conditional on the name itself with references before '
                 'and after) x second look (if, unless, elif, expression, the name twice in one chain); random sequences of '
                 '3..7 conditionals / calls / guarded groups over 2 names, 1..3 changing and 1..2 counting callables (living '
                 'in the keyword arguments or on the client object) with or / and expressions of 1..4 calls and names; '
                 'expected text (or the class of the error) + ordered log of callable invocations: each conditional '
                 'evaluates over the sources as they are then, a named condition\'s value is kept inside its own conditional '
                 'only, an expression is evaluated once from left to right over the names as resolved at its start' % neff)
    res.oracle_fail.sort(key=lambda f: len(f['case']['source']))      # the replay shows the shortest failing input
    res.exhaustive = False
    for i in (0, len(runs) // 2, len(runs) - 1):
        c, plan, impl, m = runs[i]
        res.sample({'source': c['templates'][0]['source'][:300], 'result': impl['result'],
                    'calls': [e[1] for e in impl['events'] if e[0] == 'call']})
    res.assumptions += ['interpreter model validated (not verified) against the real classes: results and call traces compared',
                        'truth of a value = Python bool(); values are ints, strings, None, callables',
                        'histories: exceptions are ValueError / KeyError / NameError / LookupError / ZeroDivisionError / a user '
                        'class; handler bodies do not use error_type / error_value; callables with changing results are compared '
                        'with the oracle only (the model\'s callables are constant)',
                        'the model interprets the abstract program; that the spellings (syntaxes, else NAME, stand-alone else) '
                        'compile to it is observed on the real classes through the oracle, and stated by C06 / C07 for the parser model',
                        'effects on data sources: an OBJECT source only gains a name, once (the library keeps an attribute '
                        'that was looked up with success for the rest of the rendering: the namespace answers, the conditional is judged against the namespace); '
                        'mapping sources change freely; values are ints / strings / None',
                        'a stand-alone `else NAME` block is not generated where an enclosing if / in block is on the same name or '
                        'expression (there the documentation leaves open which tag it continues)']


def restyle(rs, items, share=0.5):
    """a share of the programs is written in another spelling (see Speller); the rest stays in proggen's plain dtml"""
    for it in items:
        if it[0].style is None and rs.random() < share:
            it[0].style = {'seed': rs.randrange(1 << 30)}


def search_more(res, tier):
    r = common.rng('C09-more')
    res2 = common.Result('C09')
    items = [gen_random(r) for _ in range(6000)]
    for k in (4,):
        items += list(gen_exhaustive(r, k, CORE_KINDS))
    items += list(gen_scopes(r, 'thorough' if tier == 'thorough' else 'quick'))
    items += list(gen_spellings(r, tier))
    hist = [gen_history(r, i % 3 == 2) for i in range(3000)]
    restyle(r, items + hist)
    check(res2, items, False, r, hist)
    check_data_sources(res2, tier)
    check_effects(res2, tier)
    return res2.oracle_fail


def replay(path):
    with open(path) as f:
        d = json.load(f)
    print(json.dumps(d.get('first', d), indent=1)[:3000])
    return 1
