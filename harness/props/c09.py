"""C09 — if/elif/else/unless render the first true branch, lazily and evaluating once.

Generator: conditionals (dtml-if chains of 1..5 conditions with optional else, dtml-unless, dtml-call) whose conditions are
names bound to plain values / callables with a logged side effect / nothing (undefined), or expressions (f(), not n, n == lit,
bare name); names may repeat inside a chain; bodies carry a marker and re-reference condition names at nesting depth 0..3
(inside dtml-if, dtml-let, dtml-in wrappers that do not rebind the name).  Small chains are enumerated exhaustively over the
condition kinds (= every truth assignment), larger ones are random.
Histories (one rendering in which a conditional is LEFT BY AN EXCEPTION and rendering goes on over the same namespace):
the escaping conditional (if chain / unless / call, also nested in if / let / in wrappers and inside an enclosing conditional on
a pool name) is left by dtml-raise, by an undefined dtml-var, by dtml-return or by an injected fault in a condition / body
callable; rendering continues through dtml-try/except (matching, non-matching, default, base-class handlers, else),
dtml-try/finally (the finally body runs while the exception is in flight), or the boundary of a sub-template rendered on the
caller's namespace (dtml-var sub / dtml-if sub / dtml-unless sub / dtml-call sub, with or without own defaults); the handler /
finally / else bodies and the rest of the template hold further conditionals and references on the SAME names, which have to
evaluate them afresh.  A second family uses callables whose result CHANGES from one evaluation to the next (real code only).
Oracle (independent of the model): output and ordered call log predicted from the chain by the documented rule, Python's
try semantics for the recovery constructs.
Correspondence: the same programs on the Lean interpreter model (results + call traces).
"""
import itertools
import json

import common
import interp
import proggen

# kind -> (is_name_condition, builder)
NAME_KINDS = ['val_t', 'val_f', 'str_t', 'str_f', 'none', 'fn_t', 'fn_f', 'fn_none', 'fn_str', 'fn_empty', 'undef']
EXPR_KINDS = ['x_call_t', 'x_call_f', 'x_not_t', 'x_not_f', 'x_eq_t', 'x_eq_f', 'x_name_fn']
CORE_KINDS = ['fn_t', 'fn_f', 'undef', 'val_t', 'val_f', 'x_call_t', 'x_call_f']


class Builder:
    def __init__(self):
        self.ns = {}          # name -> JSON value
        self.fn = 0
        # name -> ('val', v) | ('fn', id, result) | ('fnseq', id, [results]) | ('tmpl', index) | ('undef',)
        self.binding = {'one': ('val', 1), 'single': ('val', 'SEQ')}
        self.subs = []        # sub-templates rendered on the caller's namespace: (blocks, globals [[name, JSON value]])
        self.seqs = {}        # function id -> successive results (callables whose value changes; not in the model)

    def new_fn(self, result_json, result_py):
        self.fn += 1
        return {'f': self.fn, 'r': result_json}, ('fn', self.fn, result_py)

    def bind(self, name, kind):
        """bind `name` for a NAME kind (or the helper name of an EXPR kind)"""
        if name in self.binding:
            return
        table = {'val_t': (7, 7), 'val_f': (0, 0), 'str_t': ({'s': 'yes'}, 'yes'), 'str_f': ({'s': ''}, ''),
                 'none': (None, None)}
        if kind in table:
            j, p = table[kind]
            self.ns[name] = j
            self.binding[name] = ('val', p)
        elif kind == 'undef':
            self.binding[name] = ('undef',)
        else:
            res = {'fn_t': (1, 1), 'fn_f': (0, 0), 'fn_none': (None, None), 'fn_str': ({'s': 'hello'}, 'hello'),
                   'fn_empty': ({'s': ''}, '')}[kind]
            j, b = self.new_fn(res[0], res[1])
            self.ns[name] = j
            self.binding[name] = b


    def bind_seq(self, name, results):
        """a callable whose i-th invocation returns results[i] (the last one from then on)"""
        self.fn += 1
        self.ns[name] = {'f': self.fn, 'r': results[0]}
        self.binding[name] = ('fnseq', self.fn, [jpy(x) for x in results])
        self.seqs[self.fn] = [jpy(x) for x in results]

    def new_sub(self, blocks, globals_):
        self.subs.append((blocks, globals_))
        name = 'sub%d' % len(self.subs)
        self.ns[name] = {'T': len(self.subs)}
        self.binding[name] = ('tmpl', len(self.subs) - 1)
        return name


def jpy(v):
    return v['s'] if isinstance(v, dict) else v


def truthy(v):
    return bool(v)


def pystr(v):
    return str(v)


class Fault(Exception):
    """an exception raised while rendering (by a callable of the namespace, dtml-raise, an undefined dtml-var): it must
    propagate unchanged, whatever its class, up to the first dtml-try handler that names the class or one of its bases"""

    def __init__(self, cls, msg='fault'):
        self.cls = cls
        self.msg = msg


class Ret(Exception):
    """dtml-return: leaves the template being rendered (not caught by dtml-except, seen by dtml-finally)"""

    def __init__(self, v):
        self.v = v


def handles(handler, cls):
    """Python's rule for `except <handler>`; '' is the bare handler"""
    return handler == '' or issubclass(proggen.CLASSES[cls][0], proggen.CLASSES[handler][0])


class Oracle:
    """the documented rule, evaluated over the abstract program.  `caches` is the stack of what is layered over the
    caller's data: one dictionary per conditional being rendered (it lives exactly as long as that conditional, however the
    conditional is left), plus the bindings of the let / in wrappers and the defaults of a sub-template being rendered"""

    def __init__(self, b, faults=(), fault_cls='ValueError'):
        self.b = b
        self.calls = []
        self.out = []
        self.faults = set(faults)
        self.fault_cls = fault_cls
        self.seq_i = {}

    def invoke(self, bd):
        n = len(self.calls)
        self.calls.append(bd[1])
        result = bd[2]
        if bd[0] == 'fnseq':
            i = self.seq_i.get(bd[1], 0)
            self.seq_i[bd[1]] = i + 1
            result = bd[2][min(i, len(bd[2]) - 1)]
        if n in self.faults:
            raise Fault(self.fault_cls)
        return result

    def lookup(self, n, caches, call):
        for c in reversed(caches):
            if n in c:
                return c[n]
        bd = self.b.binding.get(n, ('undef',))
        if bd[0] == 'undef':
            raise KeyError(n)
        if bd[0] == 'val':
            return bd[1]
        if not call:
            return bd      # the callable itself (truthy)
        if bd[0] == 'tmpl':
            return self.sub(bd[1], caches)
        return self.invoke(bd)

    def sub(self, i, caches):
        """a sub-template found by name is rendered on the caller's namespace (its own defaults on top for the duration);
        its value is its text, or what dtml-return gave"""
        blocks, globals_ = self.b.subs[i]
        mark = len(self.out)
        caches.append({k: jpy(v) for k, v in globals_})
        try:
            self.render(blocks, caches)
            return ''.join(self.out[mark:])
        except Ret as e:
            return e.v
        finally:
            caches.pop()
            del self.out[mark:]

    def cond_value(self, src, caches):
        if src[0] == 'n':
            n = src[1]
            try:
                v = self.lookup(n, caches, True)
            except KeyError:
                return None
            caches[-1][n] = v
            return v
        return self.expr(src[1], caches)

    def expr(self, e, caches):
        if e[0] == 'call':
            return self.invoke(self.lookup(e[1][1], caches, False))
        if e[0] == 'not':
            return not truthy(self.lookup(e[1][1], caches, False))
        if e[0] == 'eq':
            return self.lookup(e[1][1], caches, False) == jpy(e[2][1])
        if e[0] == 'name':
            return self.lookup(e[1], caches, False)
        if e[0] == 'lit':
            return jpy(e[1])
        raise ValueError(e)

    def render(self, blocks, caches):
        for b in blocks:
            k = b[0]
            if k == 'lit':
                self.out.append(b[1])
            elif k == 'var':
                n = b[1][1]
                try:
                    v = self.lookup(n, caches, True)
                except KeyError:
                    if b[3] is None:
                        raise Fault('KeyError', n)
                    v = b[3]
                self.out.append(pystr(v))
            elif k == 'cond':
                caches.append({})
                try:
                    for src, body in b[1]:
                        if truthy(self.cond_value(src, caches)):
                            self.render(body, caches)
                            break
                    else:
                        if b[2] is not None:
                            self.render(b[2], caches)
                finally:
                    caches.pop()
            elif k == 'unless':
                caches.append({})
                try:
                    if not truthy(self.cond_value(b[1], caches)):
                        self.render(b[2], caches)
                finally:
                    caches.pop()
            elif k == 'call':
                caches.append({})
                try:
                    self.cond_value(b[1], caches)
                finally:
                    caches.pop()
            elif k == 'let':
                caches.append({n: self.lookup(s[1], caches, True) for n, s in b[1]})
                try:
                    self.render(b[2], caches)
                finally:
                    caches.pop()
            elif k == 'in':
                # wrapper over the one-element list `single`: one iteration; the sequence is cached under its name
                caches.append({b[1][1]: 'SEQ'})
                try:
                    self.render(b[3], caches)
                finally:
                    caches.pop()
            elif k == 'try':
                # Python's try / except / else; what the body had produced before it failed is dropped
                _, body, handlers, els = b
                mark = len(self.out)
                try:
                    self.render(body, caches)
                except Fault as f:
                    hb = [h for nm, h in handlers if handles(nm, f.cls)]
                    if not hb:
                        raise
                    del self.out[mark:]
                    self.render(hb[0], caches)
                else:
                    if els is not None:
                        self.render(els, caches)
            elif k == 'tryfin':
                mark = len(self.out)
                try:
                    self.render(b[1], caches)
                except (Fault, Ret):
                    del self.out[mark:]
                    self.render(b[2], caches)
                    raise
                else:
                    self.render(b[2], caches)
            elif k == 'raise':
                # the body is the message; a failure inside it is replaced by a fixed text
                mark = len(self.out)
                try:
                    self.render(b[3], caches)
                    msg = ''.join(self.out[mark:])
                except Fault:
                    msg = 'Invalid Error Value'
                finally:
                    del self.out[mark:]
                raise Fault(b[1], msg)
            elif k == 'ret':
                if b[1][0] == 'n':
                    try:
                        v = self.lookup(b[1][1], caches, True)
                    except KeyError:
                        raise Fault('KeyError', b[1][1])
                else:
                    v = self.expr(b[1][1], caches)
                raise Ret(v)
            else:
                raise ValueError(k)


def wrap(r, blocks, depth):
    """nest `blocks` inside `depth` wrappers that bind other names only"""
    for _ in range(depth):
        w = r.choice(['if', 'let', 'in'])
        if w == 'if':
            blocks = [['cond', [[['n', 'one'], blocks]], None]]
        elif w == 'let':
            blocks = [['let', [['zz', ['n', 'one']]], blocks]]
        else:
            blocks = [['in', ['n', 'single'], {}, blocks, None]]
    return blocks


def make_src(b, i, kind, name=None):
    n = name or 'c%d' % i
    if kind in NAME_KINDS:
        b.bind(n, kind)
        return ['n', n]
    h = name if (name and kind not in NAME_KINDS) else 'e%d' % i
    if kind == 'x_call_t':
        b.bind(h, 'fn_t')
        return ['e', ['call', ['name', h]]]
    if kind == 'x_call_f':
        b.bind(h, 'fn_f')
        return ['e', ['call', ['name', h]]]
    if kind == 'x_not_t':          # not <false value> -> true
        b.bind(h, 'val_f')
        return ['e', ['not', ['name', h]]]
    if kind == 'x_not_f':          # not <callable> -> false, and the callable is NOT called
        b.bind(h, 'fn_f')
        return ['e', ['not', ['name', h]]]
    if kind == 'x_eq_t':
        b.bind(h, 'val_t')
        return ['e', ['eq', ['name', h], ['lit', 7]]]
    if kind == 'x_eq_f':
        b.bind(h, 'val_t')
        return ['e', ['eq', ['name', h], ['lit', 1]]]
    if kind == 'x_name_fn':        # a callable passed uncalled to an expression is true
        b.bind(h, 'fn_f')
        return ['e', ['name', h]]
    raise ValueError(kind)


def body_for(r, i, names, refs=True):
    blocks = [['lit', 'B%d' % i]]
    if refs and names and r.random() < 0.8:
        for _ in range(r.randint(1, 2)):
            n = r.choice(names)
            ref = [['lit', '('], ['var', ['n', n], False, 'U', None], ['lit', ')']]
            blocks += wrap(r, ref, r.choice([0, 0, 1, 2, 3]))
    return blocks


def build_case(b, main_blocks):
    ns = dict(b.ns)
    ns['one'] = 1
    ns['single'] = {'l': [{'o': 1, 'a': [['w', 1]]}]}
    subs = [{'blocks': sb, 'globals': sg, 'vars': [], 'source': proggen.print_blocks(sb)} for sb, sg in b.subs]
    return {
        'templates': [{'blocks': main_blocks, 'globals': [], 'vars': [], 'source': proggen.print_blocks(main_blocks)}] + subs,
        'main': 0, 'clients': [], 'mapping': [], 'kw': [[k, v] for k, v in ns.items()],
        'classes': proggen.class_table(), 'denied': [], 'guard': False, 'utf8': True,
    }


def gen_exhaustive(r, k, kinds):
    for combo in itertools.product(kinds, repeat=k):
        b = Builder()
        srcs = [make_src(b, i, kd) for i, kd in enumerate(combo)]
        names = [s[1] for s in srcs if s[0] == 'n']
        conds = [[s, body_for(r, i, names)] for i, s in enumerate(srcs)]
        els = body_for(r, 9, names) if r.random() < 0.6 else None
        blocks = [['lit', '['], ['cond', conds, els], ['lit', ']']]
        yield b, blocks, ('if',) + combo + (els is not None,)


def gen_random(r):
    b = Builder()
    blocks = [['lit', '[']]
    key = []
    for _ in range(r.randint(1, 2)):
        form = r.choice(['if', 'if', 'if', 'unless', 'call'])
        if form == 'if':
            k = r.randint(1, 5)
            srcs = []
            kinds = []
            for i in range(k):
                kd = r.choice(NAME_KINDS + EXPR_KINDS)
                nm = None
                if kd in NAME_KINDS and i > 0 and r.random() < 0.3:
                    prev = [s[1] for s in srcs if s[0] == 'n']
                    if prev:
                        nm = r.choice(prev)       # the same name again: must hit the cache
                if kd in EXPR_KINDS and i > 0 and r.random() < 0.3:
                    # the same expression text again in a later branch: expressions are NOT cached, it is evaluated again
                    prev_e = [(s[1][1][1] if s[1][0] in ('call', 'not') else None, k2) for s, k2 in zip(srcs, kinds)
                              if s[0] == 'e' and k2 == kd]
                    prev_e = [x for x in prev_e if x[0]]
                    if prev_e:
                        nm = prev_e[-1][0]
                srcs.append(make_src(b, i + 10 * len(key), kd, nm))
                kinds.append(kd if nm is None else 'repeat')
            names = [s[1] for s in srcs if s[0] == 'n']
            conds = [[s, body_for(r, i, names)] for i, s in enumerate(srcs)]
            els = body_for(r, 9, names) if r.random() < 0.5 else None
            blocks.append(['cond', conds, els])
            key.append(('if',) + tuple(kinds) + (els is not None,))
        elif form == 'unless':
            kd = r.choice(NAME_KINDS + EXPR_KINDS)
            s = make_src(b, 50 + len(key), kd)
            names = [s[1]] if s[0] == 'n' else []
            blocks.append(['unless', s, body_for(r, 5, names)])
            key.append(('unless', kd))
        else:
            kd = r.choice(NAME_KINDS + EXPR_KINDS)
            s = make_src(b, 60 + len(key), kd)
            blocks.append(['call', s])
            key.append(('call', kd))
        blocks.append(['lit', '|'])
    blocks.append(['lit', ']'])
    return b, blocks, tuple(key)


HIST_KINDS = ['fn_t', 'fn_t', 'fn_f', 'fn_none', 'fn_str', 'fn_empty', 'val_t', 'val_f', 'str_t', 'none', 'undef']
SEQ_KINDS = {'tf': [1, 0], 'ft': [0, 1], 'alt': [1, 0, 1, 0, 1, 0, 1, 0], 'str': [{'s': 'a'}, {'s': ''}, {'s': 'b'}],
             'none': [None, 2, None, 3], 'up': [0, 0, 5]}
RAISE_NAMES = ['ValueError', 'KeyError', 'ZeroDivisionError', 'LookupError']
HANDLER_NAMES = ['', '', '', 'Exception', 'Exception', 'Exception', 'ValueError', 'KeyError', 'LookupError', 'LookupError',
                 'E1', 'NameError', 'ZeroDivisionError', 'ArithmeticError']
FAULT_CLASSES = ['KeyError', 'NameError', 'ValueError', 'E2']


class History:
    """one template in which a conditional is left by an exception and rendering goes on over the same namespace, with
    more conditionals / references on the same few names (`pool`) afterwards.  `enc` = the names an enclosing conditional
    has already evaluated (there the name stands for its value, so `name()` expressions are not generated for it)."""

    def __init__(self, r, stateful=False):
        self.r = r
        self.b = Builder()
        self.k = 0
        self.shape = []
        self.pool = ['h%d' % i for i in range(r.randint(1, 3))]
        for i, nm in enumerate(self.pool):
            if stateful and (i == 0 or r.random() < 0.5):
                kd = r.choice(sorted(SEQ_KINDS))
                self.b.bind_seq(nm, SEQ_KINDS[kd])
            else:
                self.b.bind(nm, r.choice(['fn_t', 'fn_t', 'fn_f', 'fn_none', 'fn_str'] if i == 0 else HIST_KINDS))

    def tag(self, p):
        self.k += 1
        return '%s%d' % (p, self.k)

    def src(self, enc):
        r = self.r
        c = r.random()
        if c < 0.7:
            return ['n', r.choice(self.pool)]
        if c < 0.8:
            fns = [n for n in self.pool if self.b.binding[n][0] in ('fn', 'fnseq') and n not in enc]
            if fns:
                return ['e', ['call', ['name', r.choice(fns)]]]
        if c < 0.87:
            df = [n for n in self.pool if self.b.binding[n][0] != 'undef']
            if df:
                n = r.choice(df)
                return ['e', r.choice([['not', ['name', n]], ['name', n]])]
        self.k += 1
        return make_src(self.b, 100 + self.k, r.choice(EXPR_KINDS))

    def refs(self):
        r = self.r
        out = []
        for _ in range(r.choice([0, 1, 1, 1, 2])):
            ref = [['lit', '('], ['var', ['n', r.choice(self.pool)], False, 'U', None], ['lit', ')']]
            out += wrap(r, ref, r.choice([0, 0, 0, 1, 2]))
        return out

    def raiser(self, prefer_ret):
        r = self.r
        c = r.random()
        if c < (0.6 if prefer_ret else 0.2):
            if r.random() < 0.5:
                self.shape.append('ret-lit')
                return ['ret', ['e', ['lit', {'s': self.tag('R')}]]]
            self.shape.append('ret-name')
            return ['ret', ['n', r.choice(self.pool)]]
        if c < 0.75:
            cls = r.choice(RAISE_NAMES)
            self.shape.append('raise-' + cls)
            return ['raise', cls, None, [['lit', self.tag('M')]] + (self.refs() if r.random() < 0.3 else [])]
        self.shape.append('undefined-var')
        return ['var', ['n', 'nowhere'], False, None, None]

    def body(self, p, enc, depth, esc=False, prefer_ret=False):
        r = self.r
        blocks = [['lit', self.tag(p)]] + self.refs()
        if depth > 0 and r.random() < 0.2:
            blocks.append(self.cond(enc, depth - 1))
        if esc and r.random() < 0.75:
            rz = wrap(r, [self.raiser(prefer_ret)], r.choice([0, 0, 1, 2]))
            blocks = rz + blocks if r.random() < 0.3 else blocks + rz
        return blocks

    def cond(self, enc, depth, esc=False, prefer_ret=False):
        """a conditional over the pool; esc: its bodies (may) end in something that raises"""
        r = self.r
        form = r.choice(['if', 'if', 'if', 'unless', 'call'] if not esc else ['if', 'if', 'if', 'unless'])
        if form == 'call':
            return ['call', self.src(enc)]
        if form == 'unless':
            s = self.src(enc)
            return ['unless', s, self.body('U', enc | ({s[1]} if s[0] == 'n' else set()), depth, esc, prefer_ret)]
        srcs = []
        enc2 = set(enc)
        for _ in range(r.choice([1, 1, 2, 3])):
            s = self.src(enc2)
            if s[0] == 'n':
                enc2.add(s[1])
            srcs.append(s)
        conds = [[s, self.body('B', enc2, depth, esc, prefer_ret)] for s in srcs]
        els = self.body('L', enc2, depth, esc, prefer_ret) if r.random() < 0.6 else None
        return ['cond', conds, els]

    def handlers(self, enc):
        r = self.r
        names = []
        for _ in range(r.choice([1, 1, 2])):
            nm = r.choice(HANDLER_NAMES)
            if nm not in names:
                names.append(nm)
        self.shape.append('except:' + ','.join(names))
        return [[nm, self.body('H', enc, 1)] for nm in names]

    def segment(self, kind, enc):
        r = self.r
        self.shape.append(kind)
        if kind == 'plain':
            return [self.cond(enc, 1)]
        if kind == 'try':
            body = [['lit', self.tag('T')], self.cond(enc, 1, True), ['lit', 'a']]
            els = self.body('E', enc, 1) if r.random() < 0.3 else None
            return [['try', body, self.handlers(enc), els]]
        if kind == 'tryfin':
            inner = ['tryfin', [['lit', self.tag('T')], self.cond(enc, 1, True)], self.body('F', enc, 1)]
            if r.random() < 0.8:
                return [['try', [inner], self.handlers(enc), None]]
            return [inner]
        if kind == 'sub':
            every = frozenset(self.pool)
            sb = [['lit', self.tag('S')], self.cond(every, 1, True, True), ['lit', 'late']]
            if r.random() < 0.3:
                sb.append(self.cond(every, 0))
            sg = []
            if r.random() < 0.4:
                sg = [['subdef', {'s': 'SD'}]]
                sb.insert(1, ['var', ['n', 'subdef'], False, 'U', None])
            name = self.b.new_sub(sb, sg)
            how = r.choice(['var', 'var', 'if', 'unless', 'call'])
            self.shape.append('sub-by-' + how + ('+defaults' if sg else ''))
            if how == 'var':
                out = [['var', ['n', name], False, None, None]]
            elif how == 'if':
                out = [['cond', [[['n', name], self.body('B', enc, 0) + [['var', ['n', name], False, 'U', None]]]],
                        self.body('L', enc, 0)]]
            elif how == 'unless':
                out = [['unless', ['n', name], self.body('U', enc, 0)]]
            else:
                out = [['call', ['n', name]]]
            if r.random() < 0.6:
                out = [['try', out, self.handlers(enc), None]]
            # the sub-template's defaults are gone once it has returned
            return out + [['var', ['n', 'subdef'], False, 'U', None]]
        raise ValueError(kind)

    def build(self):
        r = self.r
        enc = frozenset()
        outer = None
        if r.random() < 0.3:
            outer = r.choice(self.pool)
            enc = frozenset([outer])
            self.shape.append('inside-conditional')
        kinds = [r.choice(['try', 'try', 'tryfin', 'sub'])]
        kinds += [r.choice(['plain', 'plain', 'plain', 'try', 'tryfin', 'sub']) for _ in range(r.choice([1, 1, 2]))]
        if r.random() < 0.2:
            kinds.insert(0, 'plain')
        segs = []
        for kd in kinds:
            segs += self.segment(kd, enc) + [['lit', '|']]
        if outer is not None:
            # the same history in both branches: it runs under the enclosing conditional's cache whatever the value is
            segs = [['cond', [[['n', outer], segs]], segs]]
        return self.b, [['lit', '[']] + segs + [['lit', ']']], ('history',) + tuple(self.shape)


def gen_history(r, stateful=False):
    return History(r, stateful).build()


class SeqFn(proggen.Fn):
    """namespace callable whose result changes from one invocation to the next"""

    def __init__(self, world, fid, results):
        proggen.Fn.__init__(self, world, fid, None)
        self.results = results
        self.i = 0

    def __call__(self):
        self.result = self.results[min(self.i, len(self.results) - 1)]
        self.i += 1
        return proggen.Fn.__call__(self)


def run_real(case, plan, b):
    """the case on the real classes only, with the changing callables of `b` (the model's callables are constant)"""
    from DocumentTemplate import HTML
    world = proggen.World(plan[0], proggen.CLASSES[plan[1]][0])
    templates = [HTML(t['source']) for t in case['templates']]
    for t, tj in zip(templates, case['templates']):
        t.globals = {k: proggen.to_py(world, v, templates) for k, v in tj['globals']}
    kw = {}
    for k, v in case['kw']:
        if isinstance(v, dict) and v.get('f') in b.seqs:
            kw[k] = SeqFn(world, v['f'], b.seqs[v['f']])
        else:
            kw[k] = proggen.to_py(world, v, templates)
    try:
        res = {'ok': proggen.from_py(templates[0](None, {}, **kw))}
    except Exception as e:  # noqa
        res = {'raise': type(e).__name__, 'msg': proggen.exc_msg(e)}
    return {'result': res, 'events': world.events, 'calls': world.calls, 'snap_ids': [], 'max_level': 0}


def predict(b, blocks, faults=(), fault_cls='ValueError'):
    o = Oracle(b, faults, fault_cls)
    try:
        o.render(blocks, [])
    except Fault as f:
        return {'raise': f.cls, 'msg': f.msg}, o.calls
    except Ret as e:
        return {'ok': proggen.from_py(e.v)}, o.calls       # dtml-return in the main template: its value is the result
    return {'ok': {'s': ''.join(o.out)}}, o.calls


def fault_plans(r, it, dense):
    """the k-th callable invocation raising, for the invocation points of the fault-free run (all of them when `dense`);
    sometimes two faults in one rendering (the second one after the first was handled)"""
    _, calls0 = predict(it[0], it[1])
    n = len(calls0)
    ks = list(range(n))
    if not dense and n > 6:
        ks = sorted(r.sample(ks, 6))
    plans = [((k,), r.choice(FAULT_CLASSES)) for k in ks]
    if n >= 2 and r.random() < 0.5:
        k1 = r.randrange(n - 1)
        plans.append(((k1, r.randrange(k1 + 1, n)), r.choice(FAULT_CLASSES)))
    return plans


def check(res, items, have_driver, r=None, histories=()):
    all_items = list(items)
    plans = [((), 'ValueError')] * len(items)
    if r is not None:
        # the same programs with the k-th callable invocation raising — also KeyError / NameError, which the namespace
        # lookup must not mistake for "name not defined"
        for it in items:
            if r.random() < 0.5:
                for pl in fault_plans(r, it, True):
                    if len(pl[0]) == 1:
                        all_items.append(it)
                        plans.append(pl)
    for it in histories:
        all_items.append(it)
        plans.append(((), 'ValueError'))
        if r is not None:
            for pl in fault_plans(r, it, False):
                all_items.append(it)
                plans.append(pl)
    built = {}
    cases = []
    for it in all_items:
        if id(it) not in built:
            built[id(it)] = build_case(it[0], it[1])
        cases.append(built[id(it)])
    res.have_driver = have_driver
    # callables whose value changes are not part of the model: those programs run on the real classes only
    in_model = [i for i, it in enumerate(all_items) if not it[0].seqs]
    runs = [None] * len(all_items)
    for i, x in zip(in_model, interp.run_cases(res, [cases[i] for i in in_model], [plans[i] for i in in_model])):
        runs[i] = x
    for i, it in enumerate(all_items):
        if runs[i] is None:
            runs[i] = (cases[i], plans[i], run_real(cases[i], plans[i], it[0]), None)
    for (b, blocks, key), (c, plan, impl, m) in zip(all_items, runs):
        res.evaluations += 1
        exp, exp_calls = predict(b, blocks, plan[0], plan[1])
        got = impl['result']
        got_calls = [e[1] for e in impl['events'] if e[0] == 'call']
        ok = got == exp and got_calls == exp_calls
        hist = key[0] == 'history'
        res.nt((key, len(plan[0]), plan[1] if plan[0] else ''))
        if hist:
            res.count('form=history' + ('(changing values)' if b.seqs else ''))
            for w in set(key[1:]):
                if w.startswith(('ret-', 'raise-', 'undefined-var', 'sub-by-', 'inside-')) or w in ('try', 'tryfin'):
                    res.count('history:' + w)
            for cls in (exp.get('raise'),):
                if cls:
                    res.count('history:result=raise')
        else:
            res.count('form=' + '+'.join(k[0] for k in ([key] if isinstance(key[0], str) else key)))
        if plan[0]:
            res.count('fault=' + plan[1])
            if len(plan[0]) > 1:
                res.count('fault=two-in-one-rendering')
        if not ok:
            res.oracle_fail.append({'case': {'source': c['templates'][0]['source'],
                                             'sub_templates': {'sub%d' % i: t['source'] for i, t in
                                                               enumerate(c['templates']) if i},
                                             'namespace': c['kw'],
                                             'changing_results': {str(k): v for k, v in b.seqs.items()},
                                             'faults': list(plan[0]), 'fault_cls': plan[1]},
                                    'what': 'expected %r with calls %r; got %r with calls %r' % (exp, exp_calls, got, got_calls)})
        if m is not None:
            d = interp.compare(impl, m)
            if d == 'oom':
                res.count('outside_model')
                continue
            res.corr_checked += 1
            if d:
                res.corr_mismatch.append({'case': interp.brief(c), 'impl': impl['result'], 'model': m['result'], 'diff': d})
    return runs


def run(res, tier, have_driver):
    r = common.rng('C09')
    res.rule = ('dtml-if chains of 1..5 conditions (+else), dtml-unless, dtml-call; conditions = names bound to plain true/false '
                'values, None, callables with a logged side effect returning true/false/None/text, undefined names, or expressions '
                '(f(), not n, n == lit, bare name); repeated names inside a chain; bodies re-reference condition names at nesting '
                'depth 0..3; repeated expression texts in one chain; each program also with the k-th callable invocation raising '
                'KeyError / NameError / ValueError / E2; exhaustive over 7 core condition kinds for chains of length <= 3 (quick) / 4 (thorough) = every truth '
                'assignment, random beyond; non-trivial = distinct (form, condition kinds, else?) tuples.  HISTORIES (one '
                'rendering in which a conditional is left by an exception and rendering continues over the same namespace): an '
                'if chain / unless over a pool of 1..3 names (callables with a logged side effect, plain values, None, undefined) '
                'and expressions on them (h(), not h, h) whose bodies end, at wrapper depth 0..2, in dtml-raise (4 classes, '
                'message body with references), an undefined dtml-var, or dtml-return (literal / name); recovered by dtml-try '
                'with 1..2 handlers (bare, exact class, base class, non-matching; optional else), by dtml-try/finally (alone or '
                'inside a dtml-try), or at the boundary of a sub-template rendered on the caller\'s namespace (dtml-var / dtml-if / '
                'dtml-unless / dtml-call sub, with and without own defaults, inside or outside a dtml-try); followed by 1..2 '
                'further conditionals / try / sub segments on the same names, the handler / finally / else bodies re-testing '
                'and re-referencing them too; about 30 % of the histories run inside an enclosing conditional on a pool name (whose '
                'cache must keep serving); every history also with the k-th callable invocation raising (up to 6 points, '
                'KeyError / NameError / ValueError / E2) and with two faults in one rendering; a third of the histories use '
                'callables whose result changes from one evaluation to the next (real code only, no model run); expected output '
                '+ ordered call log from the documented rule with Python try semantics')
    items = []
    kmax = 3 if tier == 'quick' else 4
    for k in range(1, kmax + 1):
        items += list(gen_exhaustive(r, k, CORE_KINDS))
    for _ in range(1500 if tier == 'quick' else 20000):
        items.append(gen_random(r))
    rh = common.rng('C09-history')
    nh = 500 if tier == 'quick' else 8000
    histories = [gen_history(rh) for _ in range(nh)] + [gen_history(rh, True) for _ in range(nh // 2)]
    runs = check(res, items, have_driver, r, histories)
    res.oracle_fail.sort(key=lambda f: len(f['case']['source']))      # the replay shows the shortest failing input
    res.exhaustive = False
    for i in (0, len(runs) // 2, len(runs) - 1):
        c, plan, impl, m = runs[i]
        res.sample({'source': c['templates'][0]['source'][:300], 'result': impl['result'],
                    'calls': [e[1] for e in impl['events'] if e[0] == 'call']})
    res.assumptions += ['interpreter model validated (not verified) against the real classes: results and call traces compared',
                        'truth of a value = Python bool(); values are ints, strings, None, callables',
                        'histories: exceptions are ValueError / KeyError / NameError / LookupError / ZeroDivisionError / a user '
                        'class; handler bodies do not use error_type / error_value; callables with changing results are compared '
                        'with the oracle only (the model\'s callables are constant)']


def search_more(res, tier):
    r = common.rng('C09-more')
    res2 = common.Result('C09')
    items = [gen_random(r) for _ in range(6000)]
    for k in (4,):
        items += list(gen_exhaustive(r, k, CORE_KINDS))
    check(res2, items, False, r, [gen_history(r, i % 3 == 2) for i in range(3000)])
    return res2.oracle_fail


def replay(path):
    with open(path) as f:
        d = json.load(f)
    print(json.dumps(d.get('first', d), indent=1)[:3000])
    return 1
