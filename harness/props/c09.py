"""C09 — if/elif/else/unless render the first true branch, lazily and evaluating once.

Generator: conditionals (dtml-if chains of 1..5 conditions with optional else, dtml-unless, dtml-call) whose conditions are
names bound to plain values / callables with a logged side effect / nothing (undefined), or expressions (f(), not n, n == lit,
bare name); names may repeat inside a chain; bodies carry a marker and re-reference condition names at nesting depth 0..3
(inside dtml-if, dtml-let, dtml-in wrappers that do not rebind the name).  Small chains are enumerated exhaustively over the
condition kinds (= every truth assignment), larger ones are random.
Oracle (independent of the model): output and ordered call log predicted from the chain by the documented rule.
Correspondence: the same programs on the Lean interpreter model (results + call traces).
"""
import itertools
import json

import common
import interp
import proggen

# kind -> (is_name_condition, builder)
NAME_KINDS = ['val_t', 'val_f', 'str_t', 'str_f', 'none', 'fn_t', 'fn_f', 'fn_none', 'fn_str', 'fn_empty', 'undef']
EXPR_KINDS = ['x_call_t', 'x_call_f', 'x_not_t', 'x_not_f', 'x_eq_t', 'x_eq_f', 'x_name_fn']
CORE_KINDS = ['fn_t', 'fn_f', 'undef', 'val_t', 'val_f', 'x_call_t', 'x_call_f']


class Builder:
    def __init__(self):
        self.ns = {}          # name -> JSON value
        self.fn = 0
        self.binding = {'one': ('val', 1), 'single': ('val', 'SEQ')}   # name -> ('val', v) | ('fn', id, result) | ('undef',)

    def new_fn(self, result_json, result_py):
        self.fn += 1
        return {'f': self.fn, 'r': result_json}, ('fn', self.fn, result_py)

    def bind(self, name, kind):
        """bind `name` for a NAME kind (or the helper name of an EXPR kind)"""
        if name in self.binding:
            return
        table = {'val_t': (7, 7), 'val_f': (0, 0), 'str_t': ({'s': 'yes'}, 'yes'), 'str_f': ({'s': ''}, ''),
                 'none': (None, None)}
        if kind in table:
            j, p = table[kind]
            self.ns[name] = j
            self.binding[name] = ('val', p)
        elif kind == 'undef':
            self.binding[name] = ('undef',)
        else:
            res = {'fn_t': (1, 1), 'fn_f': (0, 0), 'fn_none': (None, None), 'fn_str': ({'s': 'hello'}, 'hello'),
                   'fn_empty': ({'s': ''}, '')}[kind]
            j, b = self.new_fn(res[0], res[1])
            self.ns[name] = j
            self.binding[name] = b


def truthy(v):
    return bool(v)


def pystr(v):
    return str(v)


class Fault(Exception):
    """an exception raised by a callable of the namespace: it must propagate unchanged, whatever its class"""

    def __init__(self, cls):
        self.cls = cls


class Oracle:
    """the documented rule, evaluated over the abstract program"""

    def __init__(self, b, faults=(), fault_cls=ValueError):
        self.b = b
        self.calls = []
        self.out = []
        self.faults = set(faults)
        self.fault_cls = fault_cls

    def invoke(self, fid, result):
        n = len(self.calls)
        self.calls.append(fid)
        if n in self.faults:
            raise Fault(self.fault_cls)
        return result

    def lookup(self, n, caches, call):
        for c in reversed(caches):
            if n in c:
                return c[n]
        bd = self.b.binding.get(n, ('undef',))
        if bd[0] == 'undef':
            raise KeyError(n)
        if bd[0] == 'val':
            return bd[1]
        if call:
            return self.invoke(bd[1], bd[2])
        return bd      # the callable itself (truthy)

    def cond_value(self, src, caches):
        if src[0] == 'n':
            n = src[1]
            try:
                v = self.lookup(n, caches, True)
            except KeyError:
                return None
            caches[-1][n] = v
            return v
        e = src[1]
        if e[0] == 'call':
            bd = self.lookup(e[1][1], caches, False)
            return self.invoke(bd[1], bd[2])
        if e[0] == 'not':
            return not truthy(self.lookup(e[1][1], caches, False))
        if e[0] == 'eq':
            return self.lookup(e[1][1], caches, False) == (e[2][1]['s'] if isinstance(e[2][1], dict) else e[2][1])
        if e[0] == 'name':
            return self.lookup(e[1], caches, False)
        raise ValueError(e)

    def render(self, blocks, caches):
        for b in blocks:
            k = b[0]
            if k == 'lit':
                self.out.append(b[1])
            elif k == 'var':
                n = b[1][1]
                try:
                    v = self.lookup(n, caches, True)
                except KeyError:
                    v = b[3]
                self.out.append(pystr(v))
            elif k == 'cond':
                caches.append({})
                try:
                    for src, body in b[1]:
                        if truthy(self.cond_value(src, caches)):
                            self.render(body, caches)
                            break
                    else:
                        if b[2] is not None:
                            self.render(b[2], caches)
                finally:
                    caches.pop()
            elif k == 'unless':
                caches.append({})
                try:
                    if not truthy(self.cond_value(b[1], caches)):
                        self.render(b[2], caches)
                finally:
                    caches.pop()
            elif k == 'call':
                caches.append({})
                try:
                    self.cond_value(b[1], caches)
                finally:
                    caches.pop()
            elif k == 'let':
                caches.append({n: self.lookup(s[1], caches, True) for n, s in b[1]})
                try:
                    self.render(b[2], caches)
                finally:
                    caches.pop()
            elif k == 'in':
                # wrapper over the one-element list `single`: one iteration; the sequence is cached under its name
                caches.append({b[1][1]: 'SEQ'})
                try:
                    self.render(b[3], caches)
                finally:
                    caches.pop()
            else:
                raise ValueError(k)


def wrap(r, blocks, depth):
    """nest `blocks` inside `depth` wrappers that bind other names only"""
    for _ in range(depth):
        w = r.choice(['if', 'let', 'in'])
        if w == 'if':
            blocks = [['cond', [[['n', 'one'], blocks]], None]]
        elif w == 'let':
            blocks = [['let', [['zz', ['n', 'one']]], blocks]]
        else:
            blocks = [['in', ['n', 'single'], {}, blocks, None]]
    return blocks


def make_src(b, i, kind, name=None):
    n = name or 'c%d' % i
    if kind in NAME_KINDS:
        b.bind(n, kind)
        return ['n', n]
    h = name if (name and kind not in NAME_KINDS) else 'e%d' % i
    if kind == 'x_call_t':
        b.bind(h, 'fn_t')
        return ['e', ['call', ['name', h]]]
    if kind == 'x_call_f':
        b.bind(h, 'fn_f')
        return ['e', ['call', ['name', h]]]
    if kind == 'x_not_t':          # not <false value> -> true
        b.bind(h, 'val_f')
        return ['e', ['not', ['name', h]]]
    if kind == 'x_not_f':          # not <callable> -> false, and the callable is NOT called
        b.bind(h, 'fn_f')
        return ['e', ['not', ['name', h]]]
    if kind == 'x_eq_t':
        b.bind(h, 'val_t')
        return ['e', ['eq', ['name', h], ['lit', 7]]]
    if kind == 'x_eq_f':
        b.bind(h, 'val_t')
        return ['e', ['eq', ['name', h], ['lit', 1]]]
    if kind == 'x_name_fn':        # a callable passed uncalled to an expression is true
        b.bind(h, 'fn_f')
        return ['e', ['name', h]]
    raise ValueError(kind)


def body_for(r, i, names, refs=True):
    blocks = [['lit', 'B%d' % i]]
    if refs and names and r.random() < 0.8:
        for _ in range(r.randint(1, 2)):
            n = r.choice(names)
            ref = [['lit', '('], ['var', ['n', n], False, 'U', None], ['lit', ')']]
            blocks += wrap(r, ref, r.choice([0, 0, 1, 2, 3]))
    return blocks


def build_case(b, main_blocks):
    ns = dict(b.ns)
    ns['one'] = 1
    ns['single'] = {'l': [{'o': 1, 'a': [['w', 1]]}]}
    return {
        'templates': [{'blocks': main_blocks, 'globals': [], 'vars': [], 'source': proggen.print_blocks(main_blocks)}],
        'main': 0, 'clients': [], 'mapping': [], 'kw': [[k, v] for k, v in ns.items()],
        'classes': proggen.class_table(), 'denied': [], 'guard': False, 'utf8': True,
    }


def gen_exhaustive(r, k, kinds):
    for combo in itertools.product(kinds, repeat=k):
        b = Builder()
        srcs = [make_src(b, i, kd) for i, kd in enumerate(combo)]
        names = [s[1] for s in srcs if s[0] == 'n']
        conds = [[s, body_for(r, i, names)] for i, s in enumerate(srcs)]
        els = body_for(r, 9, names) if r.random() < 0.6 else None
        blocks = [['lit', '['], ['cond', conds, els], ['lit', ']']]
        yield b, blocks, ('if',) + combo + (els is not None,)


def gen_random(r):
    b = Builder()
    blocks = [['lit', '[']]
    key = []
    for _ in range(r.randint(1, 2)):
        form = r.choice(['if', 'if', 'if', 'unless', 'call'])
        if form == 'if':
            k = r.randint(1, 5)
            srcs = []
            kinds = []
            for i in range(k):
                kd = r.choice(NAME_KINDS + EXPR_KINDS)
                nm = None
                if kd in NAME_KINDS and i > 0 and r.random() < 0.3:
                    prev = [s[1] for s in srcs if s[0] == 'n']
                    if prev:
                        nm = r.choice(prev)       # the same name again: must hit the cache
                if kd in EXPR_KINDS and i > 0 and r.random() < 0.3:
                    # the same expression text again in a later branch: expressions are NOT cached, it is evaluated again
                    prev_e = [(s[1][1][1] if s[1][0] in ('call', 'not') else None, k2) for s, k2 in zip(srcs, kinds)
                              if s[0] == 'e' and k2 == kd]
                    prev_e = [x for x in prev_e if x[0]]
                    if prev_e:
                        nm = prev_e[-1][0]
                srcs.append(make_src(b, i + 10 * len(key), kd, nm))
                kinds.append(kd if nm is None else 'repeat')
            names = [s[1] for s in srcs if s[0] == 'n']
            conds = [[s, body_for(r, i, names)] for i, s in enumerate(srcs)]
            els = body_for(r, 9, names) if r.random() < 0.5 else None
            blocks.append(['cond', conds, els])
            key.append(('if',) + tuple(kinds) + (els is not None,))
        elif form == 'unless':
            kd = r.choice(NAME_KINDS + EXPR_KINDS)
            s = make_src(b, 50 + len(key), kd)
            names = [s[1]] if s[0] == 'n' else []
            blocks.append(['unless', s, body_for(r, 5, names)])
            key.append(('unless', kd))
        else:
            kd = r.choice(NAME_KINDS + EXPR_KINDS)
            s = make_src(b, 60 + len(key), kd)
            blocks.append(['call', s])
            key.append(('call', kd))
        blocks.append(['lit', '|'])
    blocks.append(['lit', ']'])
    return b, blocks, tuple(key)


def predict(b, blocks, faults=(), fault_cls='ValueError'):
    o = Oracle(b, faults, fault_cls)
    try:
        o.render(blocks, [])
    except Fault as f:
        return {'raise': f.cls, 'msg': 'fault'}, o.calls
    return {'ok': {'s': ''.join(o.out)}}, o.calls


def check(res, items, have_driver, r=None):
    cases = [build_case(b, blocks) for b, blocks, _ in items]
    plans = [((), 'ValueError')] * len(items)
    all_items = list(items)
    if r is not None:
        # the same programs with the k-th callable invocation raising — also KeyError / NameError, which the namespace
        # lookup must not mistake for "name not defined"
        for it, c in zip(items, cases):
            if r.random() < 0.5:
                _, calls0 = predict(it[0], it[1])
                for k in range(len(calls0)):
                    all_items.append(it)
                    cases.append(c)
                    plans.append(((k,), r.choice(['KeyError', 'NameError', 'ValueError', 'E2'])))
    res.have_driver = have_driver
    runs = interp.run_cases(res, cases, plans)
    for (b, blocks, key), (c, plan, impl, m) in zip(all_items, runs):
        res.evaluations += 1
        exp, exp_calls = predict(b, blocks, plan[0], plan[1])
        got = impl['result']
        got_calls = [e[1] for e in impl['events'] if e[0] == 'call']
        ok = got == exp and got_calls == exp_calls
        res.nt((key, plan[0] != (), plan[1] if plan[0] else ''))
        res.count('form=' + '+'.join(k[0] for k in ([key] if isinstance(key[0], str) else key)))
        if plan[0]:
            res.count('fault=' + plan[1])
        if not ok:
            res.oracle_fail.append({'case': {'source': c['templates'][0]['source'], 'namespace': c['kw'], 'faults': list(plan[0]),
                                             'fault_cls': plan[1]},
                                    'what': 'expected %r with calls %r; got %r with calls %r' % (exp, exp_calls, got, got_calls)})
        if m is not None:
            d = interp.compare(impl, m)
            if d == 'oom':
                res.count('outside_model')
                continue
            res.corr_checked += 1
            if d:
                res.corr_mismatch.append({'case': interp.brief(c), 'impl': impl['result'], 'model': m['result'], 'diff': d})
    return runs


def run(res, tier, have_driver):
    r = common.rng('C09')
    res.rule = ('dtml-if chains of 1..5 conditions (+else), dtml-unless, dtml-call; conditions = names bound to plain true/false '
                'values, None, callables with a logged side effect returning true/false/None/text, undefined names, or expressions '
                '(f(), not n, n == lit, bare name); repeated names inside a chain; bodies re-reference condition names at nesting '
                'depth 0..3; repeated expression texts in one chain; each program also with the k-th callable invocation raising '
                'KeyError / NameError / ValueError / E2; exhaustive over 7 core condition kinds for chains of length <= 3 (quick) / 4 (thorough) = every truth '
                'assignment, random beyond; non-trivial = distinct (form, condition kinds, else?) tuples')
    items = []
    kmax = 3 if tier == 'quick' else 4
    for k in range(1, kmax + 1):
        items += list(gen_exhaustive(r, k, CORE_KINDS))
    for _ in range(1500 if tier == 'quick' else 20000):
        items.append(gen_random(r))
    runs = check(res, items, have_driver, r)
    res.exhaustive = False
    for i in (0, len(runs) // 2, len(runs) - 1):
        c, plan, impl, m = runs[i]
        res.sample({'source': c['templates'][0]['source'][:300], 'result': impl['result'],
                    'calls': [e[1] for e in impl['events'] if e[0] == 'call']})
    res.assumptions += ['interpreter model validated (not verified) against the real classes: results and call traces compared',
                        'truth of a value = Python bool(); values are ints, strings, None, callables']


def search_more(res, tier):
    r = common.rng('C09-more')
    res2 = common.Result('C09')
    items = [gen_random(r) for _ in range(6000)]
    for k in (4,):
        items += list(gen_exhaustive(r, k, CORE_KINDS))
    check(res2, items, False, r)
    return res2.oracle_fail


def replay(path):
    with open(path) as f:
        d = json.load(f)
    print(json.dumps(d.get('first', d), indent=1)[:3000])
    return 1
