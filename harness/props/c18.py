"""C18 — concurrent renders of one shared template give sequential results.

(a) Shared-write monitor: after a template is compiled, rendering it (several namespaces) must not change anything reachable
    from the template object, its compiled blocks, the tag classes' tables — the model (Conc.lean) has no per-render shared
    write; what the first render (the cook) writes is listed in the evidence.  Line by line as well (class Shared): before every
    source line of a rendering of an already rendered template all shared state (template, compiled objects, their classes, the
    package's module globals, function defaults and closures) is compared with what it was one line earlier, so a value that is
    taken away and put back a few lines later is seen too.
(b) Deterministic scheduler (harness/sched.py: sys.settrace hand-off at line granularity inside DocumentTemplate/ and TreeDisplay/):
    2 threads with different inputs on one shared template — every single-pre-emption schedule on the compiled template;
    on the uncompiled template single pre-emptions (strided + around the shared accesses), the targeted 3-pre-emption family
    around the cook (T0 passes the _v_cooked test | T1 cooks and is stopped before reading _v_blocks | T0 cooks again and is
    stopped inside the cook | T1 finishes | T0 finishes), 3 threads racing the cook, and random schedules.
(c) Inputs: besides the values a template prints, everything a tag option NAMES and the rendering resolves through its namespace
    differs between the threads (comparison functions of sort="key/FUNC", batch parameters by name, the method fmt= names on
    the value, callables, exception classes, sub-templates, names only some threads have, client object / mapping / template
    defaults, items the guards of a guarded template class refuse, the tree and its state cookie); threads 1 and 3 are alike in
    kind and differ in data.
(d) Systematic two-pre-emption schedules, chosen from a line-by-line profile of each thread's rendering alone (function `directed`):
    for one-tag templates every pair (A stopped, B stopped) with both threads inside frames that hold the same shared object
    (compiled tag, expression, section list, option dict, template), on a template rendered before with other data, rendered
    before with every kind of data, and only compiled; single pre-emptions at every such line for racing first renderings;
    3 threads; a sample of the same for the long templates; and, around every line the profile saw changing shared state,
    A stopped 0..4 lines before / after it and B all around its own.
Oracle: each thread's result == the result of rendering alone on a NEW template object (also for the schedule without any
pre-emption: the threads one after the other).
Correspondence: the shared-access events of every scheduled run (test / acquire / writeBlocks / writeFlag / release /
readBlocks / finish, in the order they took effect) replayed on the Lean model (op "conc"): every event must be the model
thread's next step and the model's results must be the solo results.
"""
import json
import operator
import os
import re
import sys
import types

import common
import sched

# the containers a let binds, from a literal of every shape and from expressions that are no literals; all changed in place by the body
ACCUMULATE_LET = ('<dtml-let groups="{\'lo\': [], \'hi\': []}" pair="([], [0])" rows="[[], [\'r\']]" seen="[]" cnt="{}" deep="{\'a\': {\'b\': [[]]}}" '
                  'mix="[[tag], []]" made="_.list((_.list(), _.dict()))">'
                  '<dtml-in seq2><dtml-call "groups[rank > 1 and \'hi\' or \'lo\'].append(name)"><dtml-call "pair[0].append(rank)">'
                  '<dtml-call "pair[1].insert(0, name)"><dtml-call "rows[rank % 2].append(name)"><dtml-call "seen.append(name)">'
                  '<dtml-call "cnt.update({name: rank})"><dtml-call "deep[\'a\'][\'b\'][0].append(name)"><dtml-call "mix[1].append(rank)">'
                  '<dtml-call "made[0].append(name)"><dtml-call "made[1].update({rank: tag})"></dtml-in>'
                  '<dtml-var groups>/<dtml-var pair>/<dtml-var rows>/<dtml-var seen>/<dtml-var cnt>/<dtml-var deep>/<dtml-var mix>/<dtml-var made>'
                  '</dtml-let>')
# the same for the objects dtml-with pushes and dtml-in iterates over
ACCUMULATE_WITH_IN = ('<dtml-with expr="{\'acc\': [], \'inner\': {\'n\': [], \'m\': ([],)}}" mapping><dtml-call "acc.append(tag)">'
                      '<dtml-call "inner[\'n\'].append(num)"><dtml-call "inner[\'m\'][0].append(tag)"><dtml-var acc><dtml-var inner></dtml-with>|'
                      '<dtml-in expr="[[1], [2, []]]"><dtml-call "_[\'sequence-item\'].append(tag)"><dtml-call "_[\'sequence-item\'][-2:][0]'
                      ' == [] and _[\'sequence-item\'][1].append(num)"><dtml-var sequence-item></dtml-in>|'
                      '<dtml-in expr="{\'k\': [], \'j\': [0]}.items()"><dtml-call "_[\'sequence-item\'].append(tag)"><dtml-var sequence-key>'
                      '<dtml-var sequence-item></dtml-in>')

GUARDED_REPEAT = ('<dtml-if "flag">A<dtml-var "tag + tag"></dtml-if>|<dtml-unless "flag">u</dtml-unless>|<dtml-let z="tag + tag" y="num * 2">'
                  '<dtml-var z><dtml-var y></dtml-let>|<dtml-in "seq[:2]"><dtml-var "name + tag"></dtml-in><dtml-with "o">'
                  '<dtml-var "name + tag"></dtml-with><dtml-if "num * 2 > 16">big</dtml-if>')

TEMPLATES = {
    'sort_expr': '<dtml-in seq sort_expr="key"><dtml-var name></dtml-in>|<dtml-var tag>',
    'reverse_expr': '<dtml-in seq reverse_expr="rev"><dtml-var name></dtml-in>|<dtml-var tag>',
    'batch': '<dtml-in seq size=2 start=st orphan=0 sort=name><dtml-var name><dtml-if sequence-end>.</dtml-if></dtml-in><dtml-var tag>',
    'if-let-with': '<dtml-if flag>T<dtml-var tag><dtml-else>F<dtml-var tag></dtml-if><dtml-let z="tag + tag" y=tag><dtml-var z>'
                   '</dtml-let><dtml-with o><dtml-var name></dtml-with>',
    'try-raise': '<dtml-try><dtml-if flag><dtml-raise KeyError><dtml-var tag></dtml-raise></dtml-if>ok<dtml-except KeyError>'
                 'E<dtml-var error_value></dtml-try><dtml-unless flag>u</dtml-unless>',
    'var-formats': '<dtml-var tag fmt="x%sx" upper><dtml-var expr="tag * 2" html_quote>&dtml-tag;<dtml-var num fmt=%05d>'
                   '<dtml-var missing_ missing="M"><dtml-call "tag">',
    'sub': '<dtml-var sub><dtml-in seq sort_expr="key" size=3 orphan=0><dtml-var sequence-index><dtml-var name></dtml-in>',
    'with-only': '<dtml-with o only>[<dtml-var name>/<dtml-var name>]</dtml-with><dtml-with o mapping_ only><dtml-var name></dtml-with>'.replace(' mapping_', ''),
    'try-classes': '<dtml-try><dtml-if flag><dtml-raise KeyError><dtml-var tag></dtml-raise><dtml-else><dtml-raise ValueError>v<dtml-var tag>'
                   '</dtml-raise></dtml-if><dtml-except ValueError>V:<dtml-var error_value><dtml-except KeyError>K:<dtml-var error_value></dtml-try>',
    # ---- attribute TEXT that is constant, MEANING that is per rendering: names inside tag options that are resolved through the
    #      namespace of the rendering (comparison functions of sort="key/FUNC", batch parameters given by name, the method a fmt= names
    #      on the value, missing / null / else branches taken by some threads only, callables, exception classes, sub-templates)
    'sort-func': '<dtml-in seq sort="name/cmpf"><dtml-var name></dtml-in>|<dtml-in mseq mapping sort="grp/cmpg,name/cmpf/desc">'
                 '<dtml-var name></dtml-in>|<dtml-in seq5 sort="rank/cmpf/desc" size=sz start=st orphan=0><dtml-var name></dtml-in>',
    'batch-names': '<dtml-in seq5 size=sz start=st orphan=orph overlap=ov><dtml-if previous-sequence>[<dtml-var previous-sequence-size>]'
                   '</dtml-if><dtml-var name><dtml-if next-sequence>[<dtml-var next-sequence-size>]</dtml-if></dtml-in>|<dtml-in seq5 '
                   'size=sz start=st previous>P<dtml-var previous-sequence-start-number></dtml-in>|<dtml-in seq5 size=sz start=st next>'
                   'N<dtml-var next-sequence-start-number></dtml-in>|<dtml-in seq start=st end=en><dtml-var name></dtml-in>',
    'in-options': '<dtml-in pairs prefix=p><dtml-var p_key>=<dtml-var p_item>,</dtml-in>|<dtml-in seq2 no_push_item reverse>'
                  '<dtml-var expr="_[\'sequence-item\'].name"></dtml-in>|<dtml-in empty><dtml-var name><dtml-else>none<dtml-var tag>'
                  '</dtml-in>',
    'in-expr-mapping': '<dtml-in expr="seq5[:sz]"><dtml-var sequence-number><dtml-var sequence-roman>:<dtml-var expr="name + tag">;'
                       '</dtml-in>|<dtml-in mseq mapping><dtml-var name><dtml-var sequence-var-grp></dtml-in>',
    'var-options': '<dtml-var val fmt=show>|<dtml-var opt missing="M">|<dtml-var nul null="N">|<dtml-var amount fmt=dollars-and-cents>'
                   '|<dtml-var fn>|<dtml-var long size=8 etc="~">|<dtml-var tag url_quote>|<dtml-var expr="fn() + tag" lower>|'
                   '<dtml-if opt>has<dtml-var opt><dtml-elif nul>nul<dtml-var nul><dtml-else>neither</dtml-if>|<dtml-unless opt>'
                   'no-opt</dtml-unless>|<dtml-var sub2>',
    'try-else-finally': '<dtml-try><dtml-call boom>calm<dtml-var tag><dtml-except KeyError>K<dtml-var error_type><dtml-except>O'
                        '<dtml-var error_type><dtml-else>E<dtml-var tag></dtml-try>|<dtml-try><dtml-raise expr="errt">m<dtml-var tag>'
                        '</dtml-raise><dtml-except LookupError>L<dtml-var error_value><dtml-except ValueError>V<dtml-var error_value>'
                        '</dtml-try>|<dtml-try><dtml-try><dtml-var tag><dtml-call boom><dtml-finally>F<dtml-var tag></dtml-try>'
                        '<dtml-except>X<dtml-var error_type></dtml-try><dtml-comment>c<dtml-var tag></dtml-comment><dtml-if "num > 9">'
                        '<dtml-return expr="\'R\' + tag"></dtml-if>end<dtml-var tag>',
    # ---- the other ways a caller hands data in: a client object, a mapping, defaults given when the template was made
    'client-mapping': '<dtml-var cattr>|<dtml-var mkey>|<dtml-var dflt>|<dtml-var dflt2>|<dtml-var tag>|<dtml-with o><dtml-var name>'
                      '<dtml-var cattr></dtml-with><dtml-let x=cattr y="mkey + dflt"><dtml-var x><dtml-var y></dtml-let><dtml-var sub>',
    # ---- a template class with guards: expressions run as restricted code, attributes and items go through the guards
    'guarded': '<dtml-var expr="o.name + tag">|<dtml-in gseq skip_unauthorized><dtml-var name></dtml-in>|<dtml-with o><dtml-var name>'
               '</dtml-with>|<dtml-var expr="seq[0].rank + num">|<dtml-let z="o.name"><dtml-var z></dtml-let>',
    # ---- the block tag that lives next to the package
    'tree': '<dtml-tree root sort=nid>[[<dtml-var nid><dtml-var tag>]]</dtml-tree>',
    # ---- per-render VALUES that are objects: what an attribute expression builds (literal containers of every shape: flat, nested in
    #      a dict / list / tuple, two levels deep; built by calls) is new for every rendering; the body changes it in place (the DTML
    #      accumulate / group idiom) and prints it
    'accumulate': ACCUMULATE_LET + '|' + ACCUMULATE_WITH_IN,
}
CALL = {'client-mapping': 'client'}
# for the processes that have been up for a while: expression texts no other template of this check has (nothing of it is compiled in the
# process when the threads start), each text at two or more sites
AGED = {'a-guarded-repeat': re.sub(r'"([^"]+)"', r'"(\1)"', GUARDED_REPEAT)}
GUARDED = ('a-guarded-repeat', 'guarded', 'u-guarded-expr', 'u-guarded-in', 'u-guarded-accumulate')
DEFAULTS = {'client-mapping': ({'dflt': 'D0', 'dflt2': 'D2', 'mkey': 'hidden'}, {'dflt': 'D1'})}
OLD = ('sort_expr', 'reverse_expr', 'batch', 'if-let-with', 'try-raise', 'var-formats', 'sub', 'with-only', 'try-classes')

# one tag each: small enough for the systematic two-pre-emption family "both threads inside the same compiled object"
UNITS = {
    'u-var-expr': '<dtml-var expr="tag + tag">',
    'u-var-fmt': '<dtml-var tag fmt="x%sx" upper>',
    'u-var-method': '<dtml-var val fmt=show>',
    'u-var-missing-null': '<dtml-var opt missing="M"><dtml-var nul null="N">',
    'u-call': '<dtml-call "fn()"><dtml-var fn>',
    'u-if': '<dtml-if "flag">A<dtml-var tag><dtml-elif "num > 8">B<dtml-else>C</dtml-if>',
    'u-if-name': '<dtml-if opt>A<dtml-var opt><dtml-elif nul>B<dtml-else>C</dtml-if>',
    'u-unless': '<dtml-unless flag>u<dtml-var tag></dtml-unless>',
    'u-in': '<dtml-in seq2><dtml-var name></dtml-in>',
    'u-in-expr': '<dtml-in expr="seq[:2]"><dtml-var expr="name + tag"></dtml-in>',
    'u-in-sort-expr': '<dtml-in seq2 sort_expr="key"><dtml-var name></dtml-in>',
    'u-in-reverse-expr': '<dtml-in seq2 reverse_expr="rev"><dtml-var name></dtml-in>',
    'u-in-sort-func': '<dtml-in seq2 sort="name/cmpf"><dtml-var name></dtml-in>',
    'u-in-batch': '<dtml-in seq size=sz start=st orphan=0><dtml-var name></dtml-in>',
    'u-in-else': '<dtml-in empty><dtml-var name><dtml-else>none</dtml-in>',
    'u-with': '<dtml-with o><dtml-var name></dtml-with>',
    'u-with-only': '<dtml-with o only><dtml-var name></dtml-with>',
    'u-with-expr': '<dtml-with expr="o" mapping_><dtml-var name></dtml-with>'.replace(' mapping_', ''),
    'u-let': '<dtml-let z="tag + tag" y=tag><dtml-var z><dtml-var y></dtml-let>',
    'u-try': '<dtml-try><dtml-call boom>ok<dtml-except KeyError>K<dtml-var error_type><dtml-var error_value><dtml-except>O<dtml-var error_value><dtml-else>E<dtml-var tag></dtml-try>',
    'u-try-finally': '<dtml-try><dtml-try><dtml-call boom><dtml-finally>F<dtml-var tag></dtml-try><dtml-except>X<dtml-var error_value></dtml-try>',
    'u-raise': '<dtml-try><dtml-raise expr="errt">m<dtml-var tag></dtml-raise><dtml-except>X<dtml-var error_type><dtml-var error_value></dtml-try>',
    'u-return': 'a<dtml-if flag><dtml-return expr="\'R\' + tag"></dtml-if>b',
    'u-sub': '<dtml-var sub>',
    'u-tree': '<dtml-tree root>[[<dtml-var nid>]]</dtml-tree>',
    'u-guarded-expr': '<dtml-var expr="o.name + tag">',
    'u-guarded-in': '<dtml-in gseq skip_unauthorized><dtml-var name></dtml-in>',
    'u-let-accumulate': ACCUMULATE_LET,
    'u-with-in-accumulate': ACCUMULATE_WITH_IN,
    'u-guarded-accumulate': ACCUMULATE_LET.replace('_.list((_.list(), _.dict()))', '[[], {}]'),
}


class O:
    def __init__(self, **kw):
        self.__dict__.update(kw)


class ShowA:
    def __init__(self, i):
        self.i = i

    def show(self):
        return 'A<%d>' % self.i


class ShowB(ShowA):
    def show(self):
        return 'B{%d}' % self.i


class Node:
    def __init__(self, nid, kids=()):
        self.nid = nid
        self.kids = list(kids)

    def tpValues(self):
        return self.kids

    def tpId(self):
        return self.nid

    def tpURL(self):
        return 'u'


class Resp:
    def __init__(self):
        self.cookies = {}

    def setCookie(self, k, v, **kw):
        self.cookies[k] = v


def _cmp(a, b):
    return (a > b) - (a < b)


def cmp_asc(a, b):
    return _cmp(a, b)


def cmp_desc(a, b):
    return _cmp(b, a)


def cmp_odd(a, b):
    return _cmp((ord(str(a)[0]) % 2, a), (ord(str(b)[0]) % 2, b))


def namespace(i, sub):
    """the values thread i hands in.  Everything a template can look up by name differs between the threads of a run."""
    def fn():
        return 'Fn%d' % i

    # threads 1 and 3 are alike in kind (same branches, same classes, same functions) and differ in data; 0 and 2 differ from them and
    # from each other
    errt = (ValueError, KeyError, IndexError, KeyError)[i % 4]

    def boom():
        if i % 4 != 2:
            raise errt('boom%d' % i)
        return 'calm'
    ns = dict(seq=[O(name='b', rank=1 + i, grp=i % 2), O(name='a', rank=3, grp=1), O(name='c', rank=2 - i, grp=0)],
              key=['name', 'rank', 'name/cmp/desc'][i % 3],
              rev=i % 2, st=1 + (i % 2), flag=i % 2, tag='T%d' % i, o=O(name='o%d' % i), num=7 + i, sub=sub,
              # ---- names that tag options resolve through the namespace
              cmpf=(cmp_asc, cmp_desc, cmp_odd, cmp_desc)[i % 4], cmpg=(cmp_desc, cmp_asc)[i % 2],
              sz=2 + (i % 2), orph=i % 2, ov=(i + 1) % 2, en=3 + (i % 2),
              seq2=[O(name='q%d' % i, rank=2), O(name='p%d' % (3 - i), rank=1 + i)],
              seq5=[O(name=n + str(i), rank=(7 * k + 3 * i) % 5) for k, n in enumerate('edcba')],
              mseq=[{'name': 'm' + n, 'grp': (k + i) % 2} for k, n in enumerate('xay')],
              pairs=[('k%d' % i, 'v%d' % i), ('j', 'w%d' % (i + 1))], empty=[] if i % 2 else [O(name='e%d' % i)],
              gseq=[O(name='g%d' % i, deny=i % 2 == 0), O(name='h', deny=False), O(name='k%d' % i, deny=i % 2 == 1)],
              val=(ShowA, ShowB)[i % 2](i), nul=(None, 'x', '', 0)[i % 4], amount=1234.5 + i, fn=fn, boom=boom,
              long='lorem ipsum %d dolor' % i if i % 2 else 'short%d' % i, errt=errt,
              sub2=sub if i % 2 else fn,
              # ---- dtml-tree: its own per-render state comes in through the namespace as well
              root=Node('r', [Node('a%d' % i, [Node('a1')]), Node('b')]),
              URL='http://host/app/t%d' % i, RESPONSE=Resp())
    if i % 2 == 0:
        ns['opt'] = 'opt%d' % i
        ns['expand_all'] = 1
    elif i % 4 == 1:
        from TreeDisplay.TreeTag import encode_seq
        ns['tree-s'] = encode_seq((['r', [['a%d' % i, []]]],))
    return ns


_GUARDED = []


def guarded_class():
    if not _GUARDED:
        from DocumentTemplate import HTML
        from zExceptions import Unauthorized
        marker = object()

        class Guarded(HTML):
            def guarded_getattr(self, inst, name, default=marker):
                if name == 'deny':
                    raise Unauthorized(name)
                if default is marker:
                    return getattr(inst, name)
                return getattr(inst, name, default)

            def guarded_getitem(self, ob, index):
                v = ob[index]
                if getattr(v, 'deny', False):
                    raise Unauthorized('item')
                return v
        _GUARDED.append(Guarded)
    return _GUARDED[0]


def make_template(name, src):
    from DocumentTemplate import HTML
    if name in GUARDED:
        return guarded_class()(src)
    d = DEFAULTS.get(name)
    if d:
        return HTML(src, dict(d[0]), **d[1])
    return HTML(src)


def invoke(t, name, i, sub):
    """thread i's rendering: the template's output plus what the rendering handed back through the caller's own objects"""
    ns = namespace(i, sub)
    if CALL.get(name) == 'client':
        out = t(O(cattr='c%d' % i, name='cn%d' % i), {'mkey': 'm%d' % i, 'tag': 'mapping-tag'}, **ns)
    else:
        out = t(**ns)
    ck = ns['RESPONSE'].cookies
    if ck:
        out = '%s cookies=%s' % (out, sorted(ck.items()))
    return out


def pkg_dir():
    import DocumentTemplate
    return os.path.dirname(DocumentTemplate.__file__) + os.sep


_ROOT = []


def trace_root():
    """the directory whose source lines are yield points: the package — together with TreeDisplay (the dtml-tree tag, registered by the
    package's __init__) when the two are the only packages of their directory"""
    if not _ROOT:
        p = pkg_dir()
        parent = os.path.dirname(p.rstrip(os.sep))
        try:
            names = {n for n in os.listdir(parent) if os.path.isdir(os.path.join(parent, n)) and n[:1] not in '._'
                     and not n.endswith(('.egg-info', '.dist-info'))}
        except OSError:
            names = set()
        _ROOT.append(parent + os.sep if 'TreeDisplay' in names and names <= {'DocumentTemplate', 'TreeDisplay'} else p)
    return _ROOT[0]


def find_marks():
    """line numbers of the shared accesses of String.__call__ / cook; missing ones are returned separately"""
    fn = os.path.join(pkg_dir(), 'DT_String.py')
    with open(fn) as f:
        lines = f.read().split('\n')
    pats = {'test': r"^\s*if not hasattr\(self, '_v_cooked'\):", 'writeBlocks': r"^\s*self\._v_blocks = self\.parse\(self\.read\(\)\)\s*$",
            'writeFlag': r"^\s*self\._v_cooked = None\s*$", 'readBlocks': r"^\s*result = render_blocks\(self\._v_blocks, md,"}
    marks, missing = {}, []
    for kind, pat in pats.items():
        hits = [i + 1 for i, l in enumerate(lines) if re.match(pat, l)]
        if len(hits) != 1:
            missing.append('%s (%d matches of %r in DT_String.py)' % (kind, len(hits), pat))
        for h in hits:
            marks[(fn, h)] = kind
    return marks, missing


# --------------------------------------------------------------------------- what one rendering touches, line by line

ATOMS = frozenset([str, bytes, int, float, bool, type(None), complex])


def _val(v):
    return v if type(v) in ATOMS else id(v)


_is = operator.is_


class Shared:
    """Everything all rendering threads can reach: the template, its compiled objects, the classes of those objects, the modules,
    classes and functions (default arguments, closures) of the package.  `check()` says which of these objects differ from the last
    look — called before every source line of a rendering it finds the lines that write shared state, also when the line after
    next puts the old value back."""

    def __init__(self, roots):
        self.root = trace_root()
        self._mine = {}
        mods = []
        for mname, mod in sorted(sys.modules.items()):
            f = getattr(mod, '__file__', None) or ''
            if f.startswith(self.root) and '/tests' not in f[len(self.root):] and not f.endswith('tests.py'):
                mods.append(mod)
        self.roots = list(roots) + mods
        self.serial = {}          # id -> number in order of first sight (the same for every new object of the same template)
        self.collect()

    def mine(self, o):
        mn = getattr(o, '__module__', None)
        if not isinstance(mn, str):
            return False
        r = self._mine.get(mn)
        if r is None:
            f = getattr(sys.modules.get(mn), '__file__', None) or ''
            r = self._mine[mn] = f.startswith(self.root)
        return r

    def kids(self, o):
        """objects whose state belongs to o's; None: o holds no state of the package"""
        if isinstance(o, dict):
            return list(o.values()) + [k for k in o if type(k) not in ATOMS]
        if isinstance(o, (list, tuple, set, frozenset)):
            return list(o)
        if isinstance(o, types.MethodType):
            return [o.__self__, o.__func__]
        if isinstance(o, types.ModuleType):
            f = getattr(o, '__file__', None) or ''
            return [v for k, v in vars(o).items() if k[:2] != '__' and not isinstance(v, types.ModuleType)] if f.startswith(self.root) else None
        if isinstance(o, type):
            return list(vars(o).values()) if self.mine(o) else None
        if isinstance(o, types.FunctionType):
            if not self.mine(o):
                return None
            ks = list(o.__defaults__ or ()) + list((o.__kwdefaults__ or {}).values())
            for c in o.__closure__ or ():
                try:
                    ks.append(c.cell_contents)
                except ValueError:
                    pass
            return ks
        if isinstance(o, (staticmethod, classmethod)):
            return [o.__func__]
        if isinstance(o, property):
            return [o.fget, o.fset, o.fdel]
        d = getattr(o, '__dict__', None)
        if isinstance(d, dict):
            return list(d.values()) + [type(o)]
        return None

    def view(self, o):
        """(names, values) of the state o itself holds; None: nothing that can change"""
        if isinstance(o, dict):
            return (list(o), list(o.values()))
        if isinstance(o, list):
            return (None, list(o))
        if isinstance(o, set):
            return (None, sorted(o, key=id))
        if isinstance(o, (types.ModuleType, type)):
            d = vars(o)
            return (list(d), list(d.values()))
        if isinstance(o, types.FunctionType):
            if not (o.__defaults__ or o.__closure__ or o.__kwdefaults__):
                return None
            vs = list(o.__defaults__ or ()) + list((o.__kwdefaults__ or {}).values())
            for c in o.__closure__ or ():
                try:
                    vs.append(c.cell_contents)
                except ValueError:
                    vs.append(None)
            return (None, vs)
        if isinstance(o, (tuple, frozenset, types.MethodType, staticmethod, classmethod, property)):
            return None
        d = o.__dict__
        return (list(d), list(d.values()))

    def collect(self):
        seen, order = {}, []
        stack = list(reversed(self.roots))
        while stack:
            o = stack.pop()
            if type(o) in ATOMS or id(o) in seen:
                continue
            ks = self.kids(o)
            if ks is None:
                continue
            seen[id(o)] = o
            self.serial.setdefault(id(o), len(self.serial))
            if self.view(o) is not None:
                order.append(o)
            stack.extend(reversed(ks))
        self.objs = order
        self.views = [self.view(o) for o in order]          # the views keep the values alive: an id is never used twice
        # what a running frame can hold: compiled objects (tags, expressions, templates) and the containers hanging off them
        self.holdable = {id(o) for o in order if not isinstance(o, (types.ModuleType, type, types.FunctionType))}
        # compiled objects: what hangs off the block list of a template (the rest — the template object itself, its defaults, the
        # package's own tables — is held by the same code whatever the template says)
        comp, stack = set(), [getattr(x, '_v_blocks', None) for x in self.roots if getattr(x, 'isDocTemp', 0) and not isinstance(x, type)]
        while stack:
            o = stack.pop()
            if id(o) in comp or id(o) not in seen or isinstance(o, (types.ModuleType, type, types.FunctionType)):
                continue
            comp.add(id(o))
            stack.extend(self.kids(o) or ())
        self.generic = {self.serial[i] for i in seen if i not in comp}

    def label(self, o, old, new):
        if isinstance(o, types.ModuleType):
            tn = 'module ' + o.__name__
        elif isinstance(o, type):
            tn = 'class ' + o.__name__
        elif isinstance(o, types.FunctionType):
            return 'defaults / closure of function ' + o.__qualname__
        else:
            tn = type(o).__name__
        if old[0] is not None and new[0] is not None:
            a, b = dict(zip(old[0], map(_val, old[1]))), dict(zip(new[0], map(_val, new[1])))
            ch = sorted(str(k)[:30] for k in set(a) | set(b) if a.get(k, '<absent>') != b.get(k, '<absent>'))
            return '%s: %s' % (tn, ', '.join(ch[:6]))
        return '%s: items' % tn

    def check(self):
        """[(serial, label)] of the objects that changed since the last look"""
        views, view, changed = self.views, self.view, None
        for n, o in enumerate(self.objs):
            v = view(o)
            w = views[n]
            if len(v[1]) == len(w[1]) and v[0] == w[0] and all(map(_is, v[1], w[1])):
                continue
            views[n] = v
            if v[0] == w[0] and list(map(_val, v[1])) == list(map(_val, w[1])):
                continue            # an equal value was stored
            if changed is None:
                changed = []
            changed.append((self.serial[id(o)], self.label(o, w, v)))
        if changed:
            self.collect()          # what the write attached is shared from now on
        return changed


class Profile:
    """one rendering, alone, line by line (the yield points are numbered as harness/sched.py numbers them)"""

    def __init__(self):
        self.steps = []      # per yield point: (file, line, serials of the compiled objects the running frame holds)
        self.writes = []     # (k, [(serial, label)]): the line at yield point k changed these shared objects
        self.result = None


def prepare(name, src, cooked, warm):
    from DocumentTemplate import HTML
    sub = HTML('[sub <dtml-var tag>]')
    sub.cook()
    t = make_template(name, src)
    if cooked:
        t.cook()
    for w in (warm or ()):
        try:
            invoke(t, name, w, sub)
        except Exception:  # noqa
            pass
    return t, sub


def profile(name, src, i, warm):
    import DocumentTemplate.DT_String as DTS
    t, sub = prepare(name, src, True, warm)
    sh = Shared([t, sub, DTS.String.commands])
    root = sh.root
    pr = Profile()
    steps, writes, serial = pr.steps, pr.writes, sh.serial

    def tracer(frame, event, arg):
        fn = frame.f_code.co_filename
        if not fn.startswith(root) or '/tests/' in fn:
            return None

        def local(frame, event, arg):
            if event == 'line':
                ch = sh.check()
                if ch:
                    writes.append((len(steps), ch))
                hold = sh.holdable
                steps.append((fn, frame.f_lineno, frozenset(serial[id(v)] for v in frame.f_locals.values() if id(v) in hold)))
            return local
        return local

    def body():
        return invoke(t, name, i, sub)
    sys.settrace(tracer)
    try:
        try:
            pr.result = ('ok', body())
        except Exception as e:  # noqa
            pr.result = ('raise', '%s: %s' % (type(e).__name__, str(e)[:200]))
    finally:
        sys.settrace(None)
    ch = sh.check()
    if ch:
        writes.append((len(steps), ch))
    pr.generic = sh.generic
    pr.where = {k: '%s:%d' % (os.path.basename(steps[k - 1][0]), steps[k - 1][1]) for k, _ in writes if 0 < k <= len(steps)}
    return pr


def same_object_pairs(pa, pb, r, cap, tcap):
    """(k1, k2) such that thread A is stopped right before or right after a line of a frame holding shared object X (a compiled tag, an
    expression, a list or dict hanging off them, the template) and thread B is stopped right before or right after a line of a frame
    holding the same X; at most `cap` per object (drawn with r beyond); `tcap` for what does not hang off the block list (the template
    object, its defaults, the package's tables: the frames holding those run the same code in every template)"""
    def by_object(pr):
        d = {}
        for k, (_, _, held) in enumerate(pr.steps, 1):
            for x in held:
                d.setdefault(x, set()).update((k - 1, k))
        return d
    da, db = by_object(pa), by_object(pb)
    out, seen = [], set()
    for x in sorted(da):
        if x not in db:
            continue
        cand = [(k1, k2) for k1 in sorted(da[x]) for k2 in sorted(db[x]) if (k1, k2) not in seen]
        c = cap if x not in pa.generic else tcap
        if len(cand) > c:
            cand = r.sample(cand, c)
        seen.update(cand)
        out += cand
    return out


def around_write_pairs(pa, pb, r, cap):
    """(k1, k2): thread A stopped 0..4 lines before / right after a line that changes shared state, thread B stopped around its own
    shared writes, at the lines of frames holding an object A writes, and at every 9th line besides"""
    if not pa.writes:
        return []
    na, nb = len(pa.steps), len(pb.steps)
    ka, written = set(), set()
    for j, ch in pa.writes:
        ka.update(k for k in range(j - 5, j + 1) if 0 <= k <= na)
        written.update(x for x, _ in ch)
    kb = set(range(0, nb + 1, 9))
    for j, ch in pb.writes:
        kb.update(k for k in range(j - 6, j + 9) if 0 <= k <= nb)
    for k, (_, _, held) in enumerate(pb.steps, 1):
        if held & written:
            kb.update((k - 1, k))
    cand = [(k1, k2) for k1 in sorted(ka) for k2 in sorted(kb)]
    if len(cand) > cap:
        cand = r.sample(cand, cap)
    return cand


# --------------------------------------------------------------------------- (a) shared-write monitor

def reach(roots):
    seen = {}
    stack = list(roots)
    while stack:
        o = stack.pop()
        if id(o) in seen or isinstance(o, (str, bytes, int, float, bool, type(None))):
            continue
        seen[id(o)] = o
        if isinstance(o, (list, tuple, set, frozenset)):
            stack.extend(o)
        elif isinstance(o, dict):
            stack.extend(o.values())
        elif isinstance(o, types.MethodType):
            stack.append(o.__self__)
        elif isinstance(o, (types.FunctionType, types.BuiltinFunctionType, types.ModuleType, type)):
            continue
        else:
            d = getattr(o, '__dict__', None)
            if isinstance(d, dict):
                stack.append(d)
    return seen


def snapshot(roots):
    out = {}
    for i, o in reach(roots).items():
        d = getattr(o, '__dict__', None)
        if isinstance(d, dict) and not isinstance(o, (type, types.ModuleType)):
            out[i] = (type(o).__name__, {k: (v if isinstance(v, (str, int, bool, type(None))) else id(v)) for k, v in d.items()})
        elif isinstance(o, list):
            out[i] = ('list', {'#items': [id(x) for x in o]})
        elif isinstance(o, dict):
            out[i] = ('dict', {repr(k)[:40]: id(v) for k, v in o.items()})
    return out


def snap_diff(a, b):
    res = []
    for i, (tn, d) in b.items():
        if i not in a:
            continue
        if a[i][1] != d:
            ch = sorted({k for k in d if a[i][1].get(k, '<absent>') != d[k]} | {k for k in a[i][1] if k not in d})
            res.append('%s: %s' % (tn, ', '.join(ch)))
    return sorted(res)


def monitor(res):
    from DocumentTemplate import HTML
    import DocumentTemplate.DT_String as DTS
    sub = HTML('[sub <dtml-var tag>]')
    cook_writes = set()
    for name, src in list(TEMPLATES.items()) + list(UNITS.items()):
        t = make_template(name, src)
        roots = [t, DTS.String.commands, sub]
        s0 = snapshot(roots)
        invoke(t, name, 0, sub)
        s1 = snapshot(roots)
        for w in snap_diff(s0, s1):
            cook_writes.add(w)
        for i in (1, 2, 3, 0, 2):
            try:
                invoke(t, name, i, sub)
            except Exception:  # noqa
                pass
        s2 = snapshot(roots)
        res.evaluations += 1
        d = snap_diff(s1, s2)
        if d:
            res.corr_mismatch.append({'case': {'template': name, 'source': src}, 'impl': d, 'model': [],
                                      'diff': 'rendering a compiled template wrote shared state (the model has no per-render shared '
                                              'write): ' + '; '.join(d)})
    res.extra['writes_of_first_render'] = sorted(cook_writes)


# --------------------------------------------------------------------------- (b) scheduled runs

class Runner:
    def __init__(self, res, have_driver):
        self.res = res
        self.have_driver = have_driver
        self.pkg = trace_root()
        self.marks, self.missing = find_marks()
        self.reqs = []
        self.req_meta = []
        self._solo = {}

    def solo(self, name, src, i):
        """what thread i obtains alone: a NEW template object, rendered once, nobody else around"""
        key = (name, src, i)
        if key not in self._solo:
            from DocumentTemplate import HTML
            sub = HTML('[sub <dtml-var tag>]')
            try:
                self._solo[key] = ('ok', invoke(make_template(name, src), name, i, sub))
            except Exception as e:  # noqa
                self._solo[key] = ('raise', '%s: %s' % (type(e).__name__, str(e)[:200]))
        return self._solo[key]

    def run(self, name, src, cooked, nthreads, script, label, idx=None, warm=None):
        """idx: which namespace each thread uses (default 0, 1, …); warm: namespaces rendered (alone) before the threads
        start, so that anything an earlier rendering left on the compiled tags is there"""
        t, sub = prepare(name, src, cooked, warm)
        idx = list(idx) if idx is not None else list(range(nthreads))
        bodies = [(lambda i=i: invoke(t, name, i, sub)) for i in idx]
        results, s = sched.run_threads(bodies, script, self.marks, self.pkg, mark_self=t)
        self.res.evaluations += 1
        self.res.count('schedule=' + label)
        bad = []
        for ti, (i, r) in enumerate(zip(idx, results)):
            want = self.solo(name, src, i)
            if r != want:
                bad.append('thread %d obtained %r, alone it obtains %r' % (ti, r, want))
        if bad:
            self.res.oracle_fail.append({'case': {'template': name, 'source': src, 'compiled_before': cooked, 'threads': nthreads,
                                                  'namespaces': idx, 'rendered_before_with': list(warm or ()),
                                                  'how_called': CALL.get(name, 'keyword arguments: namespace(i)'),
                                                  'schedule': [list(x) if not isinstance(x[1], tuple) else [x[0], list(x[1])] for x in script],
                                                  'family': label},
                                         'what': '; '.join(bad)})
        # model replay of the shared-access events
        self.reqs.append({'op': 'conc', 'threads': nthreads, 'raw': 1, 'cooked': bool(cooked), 'events': [[tid, kind] for tid, kind in s.events]})
        self.req_meta.append((name, src, cooked, script, label, results))
        return results, s

    def steps_of(self, name, src, cooked):
        """number of yield points of thread 0 running alone on this template"""
        results, s = self.run(name, src, cooked, 1, [(0, sched.INF)], 'solo')
        return s.steps.get(0, 0)

    def flush_model(self):
        if not self.have_driver or not self.reqs:
            return
        resp = common.run_driver(self.reqs)
        for rq, meta, rp in zip(self.reqs, self.req_meta, resp):
            m = rp.get('ok')
            if m is None:
                self.res.harness_errors.append('driver: %r' % (rp,))
                return
            self.res.corr_checked += 1
            name, src, cooked, script, label, results = meta
            n = rq['threads']
            want = [[1, 100 + i] for i in range(n)]
            if m['unexpected'] or m['results'] != want:
                if any(r[0] != 'ok' for r in results):
                    continue      # the run itself failed: reported by the oracle
                self.res.corr_mismatch.append({'case': {'template': name, 'family': label, 'compiled_before': cooked},
                                               'impl': rq['events'][:40], 'model': m,
                                               'diff': 'shared-access events of the real run are not a run of the model: %s' % (
                                                   m['unexpected'][:3] or m['results'])})


def source_of(name):
    return TEMPLATES[name] if name in TEMPLATES else UNITS[name] if name in UNITS else AGED[name]


def pack(res, rn, extra=None):
    metas = [(m[0], m[1], m[2], None, m[4], m[5]) for m in rn.req_meta]
    out = {'evaluations': res.evaluations, 'dist': res.dist, 'oracle_fail': res.oracle_fail, 'nt': list(res.nontrivial),
           'reqs': rn.reqs, 'metas': metas, 'missing': rn.missing, 'corr_mismatch': res.corr_mismatch,
           'harness_errors': res.harness_errors, 'extra': extra or {}}
    return out


def explore_one(args):
    """the line-by-line schedules of one template (or one part of them), in a worker process; returns plain data"""
    name, tier, seed, do_race, parts, shard, nshards = args
    import random
    r = random.Random(seed)
    res = common.Result('C18')
    rn = Runner(res, False)
    src = TEMPLATES[name]
    count = [0]

    def go(*a, **kw):
        # the schedules of one part are dealt out to `nshards` worker processes
        count[0] += 1
        if count[0] % nshards == shard:
            rn.run(*a, **kw)
    # compiled template: every single pre-emption, both orders
    n0 = rn.steps_of(name, src, True)
    res.nt(('steps', name, n0))
    stride = 1 if tier == 'thorough' or n0 <= 150 else 2
    # the templates added for their inputs are long (a loop item costs about 200 lines): a sweep of about 75 positions here — line
    # by line their tags get the systematic families of `directed`
    estride = 1 if tier == 'thorough' or name in OLD else max(4, n0 // 75)
    stride = stride if name in OLD else estride
    if 'compiled' in parts:
        for k in range(0, n0 + 1, stride):
            go(name, src, True, 2, [(0, k), (1, sched.INF), (0, sched.INF)], 'compiled-1-preemption')
            go(name, src, True, 2, [(1, k), (0, sched.INF), (1, sched.INF)], 'compiled-1-preemption')
    for _ in range(40 if tier == 'quick' else 600):
        k1, k2 = r.randint(0, n0), r.randint(0, n0)
        if 'compiled' in parts:
            go(name, src, True, 2, [(0, k1), (1, k2), (0, sched.INF), (1, sched.INF)], 'compiled-2-preemptions')
    # state an EARLIER rendering left on the compiled tags: threads with like inputs (1, 3) after a rendering with unlike ones
    if 'earlier' in parts:
        for k in range(0, n0 + 1, estride):
            go(name, src, True, 2, [(0, k), (1, sched.INF), (0, sched.INF)], 'after-earlier-render-1-preemption', idx=(1, 3), warm=(0,))
            if k % stride == 0 and name in OLD:
                go(name, src, True, 2, [(1, k), (0, sched.INF), (1, sched.INF)], 'after-earlier-render-1-preemption', idx=(3, 1), warm=(2,))
        # three threads on the compiled template, two of them stopped half-way
        r3 = random.Random(seed + 3)
        for _ in range(16 if tier == 'quick' else 300):
            k1, k2 = r3.randint(0, n0), r3.randint(0, n0)
            go(name, src, True, 3, [(0, k1), (1, k2), (2, sched.INF), (1, sched.INF), (0, sched.INF)], 'compiled-3-threads',
               idx=(0, 1, 2) if k1 % 2 else (1, 3, 2), warm=(3,) if k2 % 2 else ())
    if do_race and 'race' in parts:
        n0 = rn.steps_of(name, src, False)
        res.nt(('steps-uncompiled', name, n0))
        stride = 7 if tier == 'quick' else 1
        for k in range(0, n0 + 1, stride):
            rn.run(name, src, False, 2, [(0, k), (1, sched.INF), (0, sched.INF)], 'cook-1-preemption')
        # around the shared accesses of thread 0
        for kind in ('test', 'acquire', 'writeBlocks', 'writeFlag', 'release', 'readBlocks'):
            for extra in range(0, 4):
                rn.run(name, src, False, 2, [(0, ('after', kind, extra)), (1, sched.INF), (0, sched.INF)], 'cook-at-shared-access')
        # the targeted family: T0 tests | T1 cooks, stopped before it reads | T0 cooks again, stopped inside | T1 ends | T0 ends
        inside = list(range(0, 30)) + list(range(30, 400, 13 if tier == 'quick' else 2))
        for j1 in (0, 1, 2) if tier != 'quick' else (0, 1):
            for j2 in inside:
                rn.run(name, src, False, 2, [(0, ('after', 'test', 1)), (1, ('after', 'release', j1)), (0, ('after', 'acquire', j2)),
                                             (1, sched.INF), (0, sched.INF)], 'cook-again-while-other-reads')
        # three threads
        for j2 in inside[::3]:
            rn.run(name, src, False, 3, [(0, ('after', 'test', 1)), (1, ('after', 'test', 1)), (0, ('after', 'release', 0)),
                                         (1, ('after', 'acquire', j2)), (2, sched.INF), (0, sched.INF), (1, sched.INF)], 'three-threads-cook')
        for _ in range(30 if tier == 'quick' else 600):
            ks = [r.randint(0, n0) for _ in range(3)]
            rn.run(name, src, False, 2, [(0, ks[0]), (1, ks[1]), (0, ks[2]), (1, sched.INF), (0, sched.INF)], 'cook-random')
    extra = {}
    if 'directed' in parts:
        extra = directed(rn, res, name, src, tier, seed, unit=False)
    return pack(res, rn, extra)


def check_profile(rn, res, name, src, i, warm, pr):
    """the profile's numbering of the yield points must be the scheduler's"""
    t, sub = prepare(name, src, True, warm)
    results, s = sched.run_threads([lambda: invoke(t, name, i, sub)], [(0, sched.INF)], rn.marks, rn.pkg, want_trace=True, mark_self=t)
    mine = [(fn, ln) for fn, ln, _ in pr.steps]
    theirs = [(fn, ln) for _, fn, ln in s.trace_log]
    if mine != theirs and not pr.writes:
        res.harness_errors.append('C18 profile of %s/namespace %d: %d yield points, the scheduler numbers %d' % (name, i, len(mine), len(theirs)))
    return mine == theirs


def directed(rn, res, name, src, tier, seed, unit, n0=0, shard=0, nshards=1):
    """two-pre-emption schedules chosen from what the renderings touch:
       same-object: both threads stopped inside frames that hold the same compiled object (tag, expression, template) — every such pair
                    for the one-tag templates (up to a cap per object), a sample for the long ones;
       around-write: if a line of a rendering of an already rendered template changes shared state (found by comparing all shared
                    state before every line), thread A is stopped 0..4 lines before / after it and B all around its own.
    Both on a template that was rendered before with other data, and (one-tag templates) on one that was only compiled."""
    import random
    r = random.Random(seed + 11)
    quick = tier == 'quick'
    count = [0]

    def go(*a, **kw):
        # the schedules are dealt out to `nshards` worker processes (each draws the same ones)
        count[0] += 1
        if count[0] % nshards == shard:
            rn.run(*a, **kw)
    # (namespaces of the two threads, rendered before with, share of the same-object pairs)
    ALL = (0, 1, 2, 3)
    if unit:
        plans = [((1, 3), (0,), 1.0), ((0, 1), ALL, 0.2), ((0, 1), (), 0.15), ((3, 1), (0,), 0.1)]
        cap, tcap = (300, 12) if quick else (1500, 200)
        if quick:
            cap = max(60, int(cap * min(1.0, 450.0 / max(1, n0))))      # a long one-tag template (loops, the tree) gets fewer per object
    else:
        plans = [((0, 1), ALL, 1.0)]
        cap, tcap = (8, 2) if quick else (100, 20)
    wcap = 700 if quick else 4000
    profs, written = {}, {}
    for idx, warm, share in plans:
        for i in idx:
            if (i, warm) not in profs:
                pr = profs[(i, warm)] = profile(name, src, i, warm)
                check_profile(rn, res, name, src, i, warm, pr)
                res.count('profiled-renderings')
                if pr.result != rn.solo(name, src, i) and warm:
                    res.oracle_fail.append({'case': {'template': name, 'source': src, 'compiled_before': True, 'threads': 1 + len(warm),
                                                     'namespaces': list(warm) + [i], 'rendered_before_with': [],
                                                     'schedule': 'no pre-emption: each thread runs to its end before the next one starts',
                                                     'family': 'one-after-the-other'},
                                            'what': 'the last thread obtained %r, alone (new template) it obtains %r' % (
                                                pr.result, rn.solo(name, src, i))})
    # per-render shared writes: a rendering of a template that every kind of input has been through before must not change shared
    # state, not even for a few lines
    for i in (0, 1):
        pr = profs[(i, ALL)]
        for k, ch in pr.writes:
            written.setdefault('%s  <- %s' % ('; '.join(sorted(lb for _, lb in ch)), pr.where.get(k, 'end')), i)
    fails0 = len(res.oracle_fail)
    for idx, warm, share in plans:
        pa, pb = profs[(idx[0], warm)], profs[(idx[1], warm)]
        pairs = same_object_pairs(pa, pb, r, cap, tcap)
        if share < 1.0:
            pairs = r.sample(pairs, int(len(pairs) * share))
        for k1, k2 in pairs:
            go(name, src, True, 2, [(0, k1), (1, k2), (0, sched.INF), (1, sched.INF)], 'same-object-2-preemptions', idx=idx, warm=warm)
            if len(res.oracle_fail) - fails0 >= 12:
                break
        if len(res.oracle_fail) - fails0 >= 12:
            break
    if unit and () in [w for _, w, _ in plans]:
        # first renderings of a template that was only compiled: one thread stopped at a line of a frame holding a compiled object,
        # the other renders from start to end meanwhile
        for a, b in ((0, 1), (1, 0)):
            pa = profs[(a, ())]
            ks = set()
            for k, (_, _, held) in enumerate(pa.steps, 1):
                if held - pa.generic:
                    ks.update((k - 1, k))
            ks = sorted(ks)
            if quick and len(ks) > 120:
                ks = sorted(r.sample(ks, 120))
            for k in ks:
                go(name, src, True, 2, [(0, k), (1, sched.INF), (0, sched.INF)], 'first-renderings-1-preemption-at-compiled-object',
                   idx=(a, b), warm=())
                if len(res.oracle_fail) - fails0 >= 36:
                    break
        # three threads, two of them stopped inside the same object
        idx, warm, _ = plans[0]
        pairs = same_object_pairs(profs[(idx[0], warm)], profs[(idx[1], warm)], r, max(8, cap // 12), 2)
        for k1, k2 in pairs:
            go(name, src, True, 3, [(0, k1), (1, k2), (2, sched.INF), (0, sched.INF), (1, sched.INF)], 'same-object-3-threads',
               idx=idx + (2,), warm=warm)
            if len(res.oracle_fail) - fails0 >= 40:
                break
    for idx, warm, share in plans:
        pa, pb = profs[(idx[0], warm)], profs[(idx[1], warm)]
        for k1, k2 in around_write_pairs(pa, pb, r, wcap):
            go(name, src, True, 2, [(0, k1), (1, k2), (0, sched.INF), (1, sched.INF)], 'around-shared-write-2-preemptions', idx=idx, warm=warm)
            if len(res.oracle_fail) - fails0 >= 24:
                break
    return {'per_render_writes': {name: written} if written and shard == 0 else {}}


def explore_unit(args):
    name, tier, seed, shard, nshards = args
    res = common.Result('C18')
    rn = Runner(res, False)
    src = UNITS[name]
    n0 = rn.steps_of(name, src, True)
    res.nt(('steps', name, n0))
    extra = directed(rn, res, name, src, tier, seed, unit=True, n0=n0, shard=shard, nshards=nshards)
    return pack(res, rn, extra)


def work(job):
    return explore_unit(job[1:]) if job[0] == 'unit' else explore_one(job[1:])


def make_jobs(tier, r):
    # 'accumulate' (long): its two halves are one-tag templates of every tier; the whole one is swept in the thorough tier
    names = [n for n in TEMPLATES if tier == 'thorough' or n != 'accumulate']
    race = set(['sort_expr', 'if-let-with', 'var-formats', 'client-mapping'] if tier == 'quick' else names)
    seeds = {n: r.randrange(10 ** 9) for n in names}
    jobs = []
    heavy = ('sub', 'batch', 'sort_expr', 'reverse_expr')          # long templates swept line by line: two worker processes each
    for n in names:
        for parts in (('compiled',), ('earlier',), ('race',), ('directed',)):
            if parts == ('race',) and n not in race:
                continue
            nsh = 2 if n in heavy and parts[0] in ('compiled', 'earlier') and tier == 'quick' else 1
            for sh in range(nsh):
                jobs.append(('full', n, tier, seeds[n], n in race, parts, sh, nsh))
    # the long jobs first
    est = {'u-tree': 15, 'u-try-finally': 21, 'u-raise': 18, 'u-in-batch': 12, 'u-in-expr': 13, 'u-try': 14, 'u-in-sort-expr': 11,
           'u-in-reverse-expr': 11, 'u-in-sort-func': 10, 'u-in': 16, 'u-let': 15, 'u-with-expr': 13, ('client-mapping', 'race'): 23,
           ('sub', 'earlier'): 16, ('if-let-with', 'race'): 12, ('batch', 'earlier'): 12, ('sub', 'compiled'): 11}
    split = ('u-tree', 'u-try-finally', 'u-raise', 'u-in-batch', 'u-in-expr', 'u-try', 'u-in-sort-expr', 'u-in-reverse-expr', 'u-in-sort-func')
    for n in UNITS:
        sd = r.randrange(10 ** 9)
        nsh = 2 if n in split and tier == 'quick' else 1
        jobs += [('unit', n, tier, sd, sh, nsh) for sh in range(nsh)]
    jobs.sort(key=lambda j: -(est.get(j[1], 7) if j[0] == 'unit' else est.get((j[1], j[5][0]), {'directed': 4}.get(j[5][0], 8))))
    return jobs


def explore(res, tier, have_driver, r):
    import multiprocessing
    jobs = make_jobs(tier, r)
    with multiprocessing.get_context('fork').Pool(min(len(jobs), max(8, min(16, os.cpu_count() or 8)))) as pool:
        # (a worker that never comes back - a schedule that deadlocks outside the scheduler's view - must end the check as a
        # harness error, exit 2, not hang it)
        outs = pool.map_async(work, jobs, chunksize=1).get(timeout=2400 if tier == 'quick' else 14400)
    rn = Runner(res, have_driver)
    if rn.missing:
        res.corr_mismatch.append({'case': {'file': 'DT_String.py'}, 'impl': rn.missing, 'model': 'test / writeBlocks / writeFlag / readBlocks',
                                  'diff': 'the shared accesses of String.__call__ / cook the model is tied to were not found in the '
                                          'source: ' + '; '.join(rn.missing)})
    writes = {}
    for o in outs:
        res.evaluations += o['evaluations']
        for k, v in o['dist'].items():
            res.count(k, v)
        res.oracle_fail += o['oracle_fail']
        res.corr_mismatch += o['corr_mismatch']
        res.harness_errors += o['harness_errors']
        for x in o['nt']:
            res.nontrivial.add(x)
        rn.reqs += o['reqs']
        rn.req_meta += o['metas']
        writes.update(o['extra'].get('per_render_writes', {}))
    for name, w in sorted(writes.items()):
        res.corr_mismatch.append({'case': {'template': name, 'source': source_of(name), 'rendered_before_with': [0, 1, 2, 3]},
                                  'impl': sorted(w), 'model': [],
                                  'diff': 'a line of a rendering of an already rendered template changed shared state (the model has no '
                                          'per-render shared write; found by comparing all shared state before every line, so a value '
                                          'that is put back later counts): ' + ' | '.join(sorted(w)[:6])})
    res.extra['per_render_shared_writes_line_by_line'] = {k: sorted(v) for k, v in sorted(writes.items())}
    rn.flush_model()

# --------------------------------------------------------------------------- (e) a process that has been up for a while

def in_child(fn, *args):
    """fn(*args) in a forked child (whatever it does to the state of the process is gone afterwards); returns its (JSON) value"""
    rd, wr = os.pipe()
    pid = os.fork()
    if pid == 0:
        code = 0
        try:
            os.close(rd)
            try:
                data = json.dumps({'ok': fn(*args)})
            except BaseException as e:  # noqa
                import traceback
                data = json.dumps({'error': '%s: %s\n%s' % (type(e).__name__, e, traceback.format_exc()[-1500:])})
            with os.fdopen(wr, 'w') as f:
                f.write(data)
        except BaseException:  # noqa
            code = 3
        finally:
            os._exit(code)
    os.close(wr)
    with os.fdopen(rd) as f:
        data = f.read()
    os.waitpid(pid, 0)
    try:
        return json.loads(data)
    except ValueError:
        return {'error': 'child ended without a result'}


def age(first, n):
    """n more templates of the guarded class, each with one expression text of its own, cooked and rendered once: what a process
    has done that has been serving other templates for a while"""
    G = guarded_class()
    for j in range(first, first + n):
        G('<dtml-var expr="num + %d">' % j)(num=1)
    return n


def containers_of_package():
    """[(container, file of the module that owns it)]: the containers that hang directly off the package's modules and classes
    (not off any template), and the name tables of those modules and classes themselves"""
    root = trace_root()
    out, seen = [], set()

    def add(c, f):
        if isinstance(c, (dict, list, set)) and id(c) not in seen:
            seen.add(id(c))
            out.append((c, f))
    for mname, mod in sorted(sys.modules.items()):
        f = getattr(mod, '__file__', None) or ''
        if not f.startswith(root) or '/tests' in f[len(root):]:
            continue
        add(vars(mod), f)
        for v in list(vars(mod).values()):
            add(v, f)
            if isinstance(v, type) and getattr(v, '__module__', None) == mname:
                for w in list(vars(v).values()):
                    add(w, f)
    return out


def detect_drops(limit):
    """age the process template by template; -> [[number of templates rendered when some container of the package became SMALLER
    (something the process had was dropped: a bounded cache, a table that is reset), what became smaller, file of the owning module]]"""
    cs = containers_of_package()
    sizes = [len(c) for c, _ in cs]
    drops = []
    for j in range(limit):
        age(j, 1)
        now = [len(c) for c, _ in cs]
        for n, (a, b) in enumerate(zip(sizes, now)):
            if b < a:
                drops.append([j + 1, '%s of %d entries went down to %d' % (type(cs[n][0]).__name__, a, b), cs[n][1]])
        sizes = now
        if len(drops) >= 2:
            break
    return drops


def aged_profile(name, i, owner):
    """yield points of namespace i's FIRST rendering (template compiled, never rendered) in this process: those of frames holding a
    compiled object — or, given the file of the module owning a container, the lines of that module (the code that sees the container)"""
    pr = profile(name, source_of(name), i, ())
    ks = set()
    for k, (fn, _, held) in enumerate(pr.steps, 1):
        if (fn == owner) if owner else (held - pr.generic):
            ks.update((k - 1, k))
    return [sorted(ks), len(pr.steps)]


def aged_one(name, fill, a, b, k):
    res = common.Result('C18')
    rn = Runner(res, False)
    rn.run(name, source_of(name), True, 2, [(0, k), (1, sched.INF), (0, sched.INF)], 'aged-process-first-renderings-1-preemption', idx=(a, b), warm=())
    for f in res.oracle_fail:
        f['case']['process_before'] = ('%d templates of the same class, each with an expression text of its own, cooked and rendered '
                                       'once (c18.age(0, %d)); each schedule in a process of its own' % (fill, fill))
    return res.oracle_fail


def aged_runs(name, fill, a, b, stride, shard, nshards, owner):
    """first renderings of two threads, one pre-emption, in a process aged by `fill` templates; each schedule starts from the same state of
    the process (a child of the aged process)"""
    age(0, fill)
    out = in_child(aged_profile, name, a, owner)
    if 'ok' not in out:
        return [], ['aged profile %s fill=%d: %s' % (name, fill, out.get('error'))], 0
    ks, n0 = out['ok']
    # a strided sample (shard: where it starts) or the share of one of nshards workers
    ks = ks[shard % stride::stride] if stride > 1 else ks[shard::nshards]
    fails, errors, n = [], [], 0
    for k in ks:
        out = in_child(aged_one, name, fill, a, b, k)
        n += 1
        if 'ok' in out:
            fails += out['ok']
        else:
            errors.append('aged run %s fill=%d k=%d: %s' % (name, fill, k, out.get('error')))
        if len(fails) >= 3 or len(errors) >= 3:
            break
    return fails, errors, n


def aged_task(args):
    out = in_child(aged_runs, *args)         # the worker itself stays as it is
    if 'ok' not in out:
        return [], ['aged process %r: %s' % (args[:4], out.get('error'))], 0
    return out['ok']


def aged(res, tier, r):
    """(e) The state of the PROCESS is shared by all renderings too.  A process that has compiled and rendered many other templates
    before: the number of them is swept (template by template, in a child) while the sizes of all containers of the package are
    watched; wherever something the process had is dropped (a bounded cache being emptied, a table being reset) the first renderings
    of two threads are scheduled (single pre-emptions at every line of the module that owns the container, both orders) in processes
    aged to 0..4 templates short of that point — plus, always, a strided sample of the same schedules in processes aged by a few sizes."""
    import multiprocessing
    quick = tier != 'thorough'
    limit = 1500 if quick else 6000
    out = in_child(detect_drops, limit)
    if 'ok' not in out:
        res.harness_errors.append('C18 aged process: %s' % out.get('error'))
        return
    drops = out['ok']
    res.extra['aged_process'] = {'templates_rendered_while_watching': limit, 'containers_that_became_smaller': drops}
    name = 'a-guarded-repeat'
    tasks = []
    nsh = 4
    for fill in ((3, 260) if quick else (0, 3, 100, 260, 520, 1030, 2100)):
        for a, b in ((1, 0), (0, 1)):
            tasks.append((name, fill, a, b, 12 if quick else 2, r.randrange(12), 1, None))
    for at, _, owner in drops[:1]:
        for short in range(0, 5):
            if at - 1 - short >= 0:
                for a, b in ((1, 0), (0, 1)):
                    tasks += [(name, at - 1 - short, a, b, 1, sh, nsh, owner) for sh in range(nsh)]
    with multiprocessing.get_context('fork').Pool(min(len(tasks), max(8, min(16, os.cpu_count() or 8)))) as pool:
        outs = pool.map_async(aged_task, tasks, chunksize=1).get(timeout=1800)
    for (fails, errors, n), task in zip(outs, tasks):
        res.evaluations += n
        res.count('schedule=aged-process-first-renderings-1-preemption', n)
        res.count('aged-process fill=%d' % task[1], n)
        res.oracle_fail += fails
        res.harness_errors += errors


def run(res, tier, have_driver):
    r = common.rng('C18')
    res.rule = ('%d templates: the 9 earlier ones (sort_expr, reverse_expr, batches, if/let/with, try/raise, var formats, sub-template, '
                'with only, try classes) + sort="key/FUNC" with per-thread comparison functions (single, multi-key, mapping, batched), '
                'batch parameters by name (size/start/end/orphan/overlap, previous/next), in options (prefix, no_push_item, reverse, '
                'else branch; expr, mapping, sequence-var-), var options (fmt=method of per-thread classes, missing, null, special '
                'format, size/etc, callables, if/elif/unless on names only some threads have), try else/finally + raise expr= + '
                'return + comment + callables raising per-thread exception classes, client object + mapping + template defaults, a '
                'template class with guards (restricted expressions, guarded attributes, items refused per thread under skip_unauthorized), '
                'dtml-tree (yield points in TreeDisplay too; per-thread tree, state cookie handed back); every name a template looks '
                'up differs between the threads, threads 1 and 3 alike in kind.  2 threads with different inputs: all single-'
                'pre-emption schedules on the compiled template (both orders; a sweep of about 75 positions for the templates '
                'added for their inputs) + random 2-pre-emption; after an earlier rendering with other data: all single '
                'pre-emptions; 3 threads on the compiled template (random, 2 of them stopped); on the uncompiled template: strided '
                'single pre-emptions, pre-emptions 0..3 lines after each shared access, the 3-pre-emption family around a second '
                'cook, 3 threads racing the cook, random.  Systematic 2-pre-emption schedules from line-by-line profiles: for %d '
                'one-tag templates (one per tag / expression site) every pair (A stopped, B stopped) with both inside frames holding '
                'the same shared object (tag, expression, section list, option dict: up to 300 pairs per object, all of them for '
                'objects of <= 16 lines, fewer per object when the one-tag template is long (loops, tree); template object and package tables: 12), on a template rendered before with other data '
                '(threads 1,3 after 0; 3,1), with every kind of data (threads 0,1) and only compiled; first renderings: single '
                'pre-emptions at every line of a frame holding a compiled object; 3 threads with two stopped in the same object; a '
                'sample of the same-object pairs for the long templates; around every line that changes shared state in a '
                'rendering of an already rendered template (all shared state — template, compiled objects, their classes, the '
                'package\'s modules, function defaults — compared before every line; none on the unchanged library) A stopped 0..4 '
                'lines before / after it, B around its own writes, in frames holding what A writes and at every 9th line.  The '
                'schedule without pre-emption (threads one after the other) == new template each.  non-trivial = every scheduled '
                'run (distinct schedule)' % (len(TEMPLATES), len(UNITS)))
    monitor(res)
    aged(res, tier, common.rng('C18-aged'))
    explore(res, tier, have_driver, r)
    res.nontrivial.add(('runs', res.evaluations))
    res.partial.append('the model\'s atomic steps are the shared accesses of String.__call__/cook at source-line granularity; '
                       'bytecode-level switch points inside one line and C-level atomicity are runtime behaviour the model cannot '
                       'exhibit; the scheduler explores schedules, it does not prove; the theorem covers every schedule of the model')
    res.assumptions += ['the model has no per-render shared write: checked by the shared-write monitor (renders of a compiled template '
                        'change nothing reachable from the template, its blocks, the command table) and line by line (no line of a '
                        'rendering of an already rendered template changes the template, its compiled objects, their classes, the '
                        'package\'s module globals or function defaults, not even for the duration of a few lines)',
                        'the events test/acquire/writeBlocks/writeFlag/release/readBlocks are located in DT_String.py by pattern; a '
                        'pattern that no longer matches is reported as a broken correspondence']


def search_more(res, tier):
    res2 = common.Result('C18')
    r = common.rng('C18-more')
    explore(res2, 'thorough' if tier == 'thorough' else 'quick', False, r)
    return res2.oracle_fail


def replay(path):
    with open(path) as f:
        d = json.load(f)
    print(json.dumps(d.get('first', d), indent=1, ensure_ascii=False)[:3000])
    return 1
