"""C18 — concurrent renders of one shared template give sequential results.

(a) Shared-write monitor: after a template is compiled, rendering it (several namespaces) must not change anything reachable
    from the template object, its compiled blocks, the tag classes' tables — the model (Conc.lean) has no per-render shared
    write; what the first render (the cook) writes is listed in the evidence.
(b) Deterministic scheduler (harness/sched.py: sys.settrace hand-off at line granularity inside DocumentTemplate/):
    2 threads with different inputs on one shared template — every single-pre-emption schedule on the compiled template;
    on the uncompiled template single pre-emptions (strided + around the shared accesses), the targeted 3-pre-emption family
    around the cook (T0 passes the _v_cooked test | T1 cooks and is stopped before reading _v_blocks | T0 cooks again and is
    stopped inside the cook | T1 finishes | T0 finishes), 3 threads racing the cook, and random schedules.
Oracle: each thread's result == the result of rendering alone.
Correspondence: the shared-access events of every scheduled run (test / acquire / writeBlocks / writeFlag / release /
readBlocks / finish, in the order they took effect) replayed on the Lean model (op "conc"): every event must be the model
thread's next step and the model's results must be the solo results.
"""
import json
import os
import re
import types

import common
import sched

TEMPLATES = {
    'sort_expr': '<dtml-in seq sort_expr="key"><dtml-var name></dtml-in>|<dtml-var tag>',
    'reverse_expr': '<dtml-in seq reverse_expr="rev"><dtml-var name></dtml-in>|<dtml-var tag>',
    'batch': '<dtml-in seq size=2 start=st orphan=0 sort=name><dtml-var name><dtml-if sequence-end>.</dtml-if></dtml-in><dtml-var tag>',
    'if-let-with': '<dtml-if flag>T<dtml-var tag><dtml-else>F<dtml-var tag></dtml-if><dtml-let z="tag + tag" y=tag><dtml-var z>'
                   '</dtml-let><dtml-with o><dtml-var name></dtml-with>',
    'try-raise': '<dtml-try><dtml-if flag><dtml-raise KeyError><dtml-var tag></dtml-raise></dtml-if>ok<dtml-except KeyError>'
                 'E<dtml-var error_value></dtml-try><dtml-unless flag>u</dtml-unless>',
    'var-formats': '<dtml-var tag fmt="x%sx" upper><dtml-var expr="tag * 2" html_quote>&dtml-tag;<dtml-var num fmt=%05d>'
                   '<dtml-var missing_ missing="M"><dtml-call "tag">',
    'sub': '<dtml-var sub><dtml-in seq sort_expr="key" size=3 orphan=0><dtml-var sequence-index><dtml-var name></dtml-in>',
    'with-only': '<dtml-with o only>[<dtml-var name>/<dtml-var name>]</dtml-with><dtml-with o mapping_ only><dtml-var name></dtml-with>'.replace(' mapping_', ''),
    'try-classes': '<dtml-try><dtml-if flag><dtml-raise KeyError><dtml-var tag></dtml-raise><dtml-else><dtml-raise ValueError>v<dtml-var tag>'
                   '</dtml-raise></dtml-if><dtml-except ValueError>V:<dtml-var error_value><dtml-except KeyError>K:<dtml-var error_value></dtml-try>',
}


class O:
    def __init__(self, **kw):
        self.__dict__.update(kw)


def namespace(i, sub):
    return dict(seq=[O(name='b', rank=1 + i), O(name='a', rank=3), O(name='c', rank=2 - i)], key=['name', 'rank', 'name/cmp/desc'][i % 3],
                rev=i % 2, st=1 + (i % 2), flag=i % 2, tag='T%d' % i, o=O(name='o%d' % i), num=7 + i, sub=sub)


def pkg_dir():
    import DocumentTemplate
    return os.path.dirname(DocumentTemplate.__file__) + os.sep


def find_marks():
    """line numbers of the shared accesses of String.__call__ / cook; missing ones are returned separately"""
    fn = os.path.join(pkg_dir(), 'DT_String.py')
    with open(fn) as f:
        lines = f.read().split('\n')
    pats = {'test': r"^\s*if not hasattr\(self, '_v_cooked'\):", 'writeBlocks': r"^\s*self\._v_blocks = self\.parse\(self\.read\(\)\)\s*$",
            'writeFlag': r"^\s*self\._v_cooked = None\s*$", 'readBlocks': r"^\s*result = render_blocks\(self\._v_blocks, md,"}
    marks, missing = {}, []
    for kind, pat in pats.items():
        hits = [i + 1 for i, l in enumerate(lines) if re.match(pat, l)]
        if len(hits) != 1:
            missing.append('%s (%d matches of %r in DT_String.py)' % (kind, len(hits), pat))
        for h in hits:
            marks[(fn, h)] = kind
    return marks, missing


# --------------------------------------------------------------------------- (a) shared-write monitor

def reach(roots):
    seen = {}
    stack = list(roots)
    while stack:
        o = stack.pop()
        if id(o) in seen or isinstance(o, (str, bytes, int, float, bool, type(None))):
            continue
        seen[id(o)] = o
        if isinstance(o, (list, tuple, set, frozenset)):
            stack.extend(o)
        elif isinstance(o, dict):
            stack.extend(o.values())
        elif isinstance(o, types.MethodType):
            stack.append(o.__self__)
        elif isinstance(o, (types.FunctionType, types.BuiltinFunctionType, types.ModuleType, type)):
            continue
        else:
            d = getattr(o, '__dict__', None)
            if isinstance(d, dict):
                stack.append(d)
    return seen


def snapshot(roots):
    out = {}
    for i, o in reach(roots).items():
        d = getattr(o, '__dict__', None)
        if isinstance(d, dict) and not isinstance(o, (type, types.ModuleType)):
            out[i] = (type(o).__name__, {k: (v if isinstance(v, (str, int, bool, type(None))) else id(v)) for k, v in d.items()})
        elif isinstance(o, list):
            out[i] = ('list', {'#items': [id(x) for x in o]})
        elif isinstance(o, dict):
            out[i] = ('dict', {repr(k)[:40]: id(v) for k, v in o.items()})
    return out


def snap_diff(a, b):
    res = []
    for i, (tn, d) in b.items():
        if i not in a:
            continue
        if a[i][1] != d:
            ch = sorted({k for k in d if a[i][1].get(k, '<absent>') != d[k]} | {k for k in a[i][1] if k not in d})
            res.append('%s: %s' % (tn, ', '.join(ch)))
    return sorted(res)


def monitor(res):
    from DocumentTemplate import HTML
    import DocumentTemplate.DT_String as DTS
    sub = HTML('[sub <dtml-var tag>]')
    cook_writes = set()
    for name, src in TEMPLATES.items():
        t = HTML(src)
        roots = [t, DTS.String.commands, sub]
        s0 = snapshot(roots)
        t(**namespace(0, sub))
        s1 = snapshot(roots)
        for w in snap_diff(s0, s1):
            cook_writes.add(w)
        for i in (1, 2, 3, 0, 2):
            t(**namespace(i, sub))
        s2 = snapshot(roots)
        res.evaluations += 1
        d = snap_diff(s1, s2)
        if d:
            res.corr_mismatch.append({'case': {'template': name, 'source': src}, 'impl': d, 'model': [],
                                      'diff': 'rendering a compiled template wrote shared state (the model has no per-render shared '
                                              'write): ' + '; '.join(d)})
    res.extra['writes_of_first_render'] = sorted(cook_writes)


# --------------------------------------------------------------------------- (b) scheduled runs

class Runner:
    def __init__(self, res, have_driver):
        self.res = res
        self.have_driver = have_driver
        self.pkg = pkg_dir()
        self.marks, self.missing = find_marks()
        self.reqs = []
        self.req_meta = []

    def solo(self, src, i):
        from DocumentTemplate import HTML
        sub = HTML('[sub <dtml-var tag>]')
        try:
            return ('ok', HTML(src)(**namespace(i, sub)))
        except Exception as e:  # noqa
            return ('raise', '%s: %s' % (type(e).__name__, str(e)[:200]))

    def run(self, name, src, cooked, nthreads, script, label, idx=None, warm=None):
        """idx: which namespace each thread uses (default 0, 1, …); warm: namespaces rendered (alone) before the threads
        start, so that anything an earlier rendering left on the compiled tags is there"""
        from DocumentTemplate import HTML
        sub = HTML('[sub <dtml-var tag>]')
        sub.cook()
        t = HTML(src)
        if cooked:
            t.cook()
        for w in (warm or ()):
            try:
                t(**namespace(w, sub))
            except Exception:  # noqa
                pass
        idx = list(idx) if idx is not None else list(range(nthreads))
        bodies = [(lambda i=i: t(**namespace(i, sub))) for i in idx]
        results, s = sched.run_threads(bodies, script, self.marks, self.pkg, mark_self=t)
        self.res.evaluations += 1
        self.res.count('schedule=' + label)
        bad = []
        for ti, (i, r) in enumerate(zip(idx, results)):
            want = self.solo(src, i)
            if r != want:
                bad.append('thread %d obtained %r, alone it obtains %r' % (ti, r, want))
        if bad:
            self.res.oracle_fail.append({'case': {'template': name, 'source': src, 'compiled_before': cooked, 'threads': nthreads,
                                                  'namespaces': idx, 'rendered_before_with': list(warm or ()),
                                                  'schedule': [list(x) if not isinstance(x[1], tuple) else [x[0], list(x[1])] for x in script],
                                                  'family': label},
                                         'what': '; '.join(bad)})
        # model replay of the shared-access events
        self.reqs.append({'op': 'conc', 'threads': nthreads, 'raw': 1, 'cooked': bool(cooked), 'events': [[tid, kind] for tid, kind in s.events]})
        self.req_meta.append((name, src, cooked, script, label, results))
        return results, s

    def steps_of(self, name, src, cooked):
        """number of yield points of thread 0 running alone on this template"""
        results, s = self.run(name, src, cooked, 1, [(0, sched.INF)], 'solo')
        return s.steps.get(0, 0)

    def flush_model(self):
        if not self.have_driver or not self.reqs:
            return
        resp = common.run_driver(self.reqs)
        for rq, meta, rp in zip(self.reqs, self.req_meta, resp):
            m = rp.get('ok')
            if m is None:
                self.res.harness_errors.append('driver: %r' % (rp,))
                return
            self.res.corr_checked += 1
            name, src, cooked, script, label, results = meta
            n = rq['threads']
            want = [[1, 100 + i] for i in range(n)]
            if m['unexpected'] or m['results'] != want:
                if any(r[0] != 'ok' for r in results):
                    continue      # the run itself failed: reported by the oracle
                self.res.corr_mismatch.append({'case': {'template': name, 'family': label, 'compiled_before': cooked},
                                               'impl': rq['events'][:40], 'model': m,
                                               'diff': 'shared-access events of the real run are not a run of the model: %s' % (
                                                   m['unexpected'][:3] or m['results'])})


def explore_one(args):
    """everything for one template, in a worker process; returns plain data"""
    name, tier, seed, do_race = args
    import random
    r = random.Random(seed)
    res = common.Result('C18')
    rn = Runner(res, False)
    src = TEMPLATES[name]
    # compiled template: every single pre-emption, both orders
    n0 = rn.steps_of(name, src, True)
    res.nt(('steps', name, n0))
    stride = 1 if tier == 'thorough' or n0 <= 150 else 2
    for k in range(0, n0 + 1, stride):
        rn.run(name, src, True, 2, [(0, k), (1, sched.INF), (0, sched.INF)], 'compiled-1-preemption')
        rn.run(name, src, True, 2, [(1, k), (0, sched.INF), (1, sched.INF)], 'compiled-1-preemption')
    for _ in range(40 if tier == 'quick' else 600):
        k1, k2 = r.randint(0, n0), r.randint(0, n0)
        rn.run(name, src, True, 2, [(0, k1), (1, k2), (0, sched.INF), (1, sched.INF)], 'compiled-2-preemptions')
    # state an EARLIER rendering left on the compiled tags: threads with like inputs (1, 3) after a rendering with unlike ones
    for k in range(0, n0 + 1):
        rn.run(name, src, True, 2, [(0, k), (1, sched.INF), (0, sched.INF)], 'after-earlier-render-1-preemption', idx=(1, 3), warm=(0,))
        if k % stride == 0:
            rn.run(name, src, True, 2, [(1, k), (0, sched.INF), (1, sched.INF)], 'after-earlier-render-1-preemption', idx=(3, 1), warm=(2,))
    if do_race:
        n0 = rn.steps_of(name, src, False)
        res.nt(('steps-uncompiled', name, n0))
        stride = 7 if tier == 'quick' else 1
        for k in range(0, n0 + 1, stride):
            rn.run(name, src, False, 2, [(0, k), (1, sched.INF), (0, sched.INF)], 'cook-1-preemption')
        # around the shared accesses of thread 0
        for kind in ('test', 'acquire', 'writeBlocks', 'writeFlag', 'release', 'readBlocks'):
            for extra in range(0, 4):
                rn.run(name, src, False, 2, [(0, ('after', kind, extra)), (1, sched.INF), (0, sched.INF)], 'cook-at-shared-access')
        # the targeted family: T0 tests | T1 cooks, stopped before it reads | T0 cooks again, stopped inside | T1 ends | T0 ends
        inside = list(range(0, 30)) + list(range(30, 400, 13 if tier == 'quick' else 2))
        for j1 in (0, 1, 2) if tier != 'quick' else (0, 1):
            for j2 in inside:
                rn.run(name, src, False, 2, [(0, ('after', 'test', 1)), (1, ('after', 'release', j1)), (0, ('after', 'acquire', j2)),
                                             (1, sched.INF), (0, sched.INF)], 'cook-again-while-other-reads')
        # three threads
        for j2 in inside[::3]:
            rn.run(name, src, False, 3, [(0, ('after', 'test', 1)), (1, ('after', 'test', 1)), (0, ('after', 'release', 0)),
                                         (1, ('after', 'acquire', j2)), (2, sched.INF), (0, sched.INF), (1, sched.INF)], 'three-threads-cook')
        for _ in range(30 if tier == 'quick' else 600):
            ks = [r.randint(0, n0) for _ in range(3)]
            rn.run(name, src, False, 2, [(0, ks[0]), (1, ks[1]), (0, ks[2]), (1, sched.INF), (0, sched.INF)], 'cook-random')
    metas = [(m[0], m[1], m[2], None, m[4], m[5]) for m in rn.req_meta]
    return {'evaluations': res.evaluations, 'dist': res.dist, 'oracle_fail': res.oracle_fail, 'nt': list(res.nontrivial),
            'reqs': rn.reqs, 'metas': metas, 'missing': rn.missing}


def explore(res, tier, have_driver, r):
    import multiprocessing
    names = list(TEMPLATES)
    race = set(['sort_expr', 'if-let-with', 'var-formats'] if tier == 'quick' else names)
    jobs = [(n, tier, r.randrange(10 ** 9), n in race) for n in names]
    with multiprocessing.get_context('fork').Pool(min(len(jobs), 8)) as pool:
        outs = pool.map(explore_one, jobs)
    rn = Runner(res, have_driver)
    if rn.missing:
        res.corr_mismatch.append({'case': {'file': 'DT_String.py'}, 'impl': rn.missing, 'model': 'test / writeBlocks / writeFlag / readBlocks',
                                  'diff': 'the shared accesses of String.__call__ / cook the model is tied to were not found in the '
                                          'source: ' + '; '.join(rn.missing)})
    for o in outs:
        res.evaluations += o['evaluations']
        for k, v in o['dist'].items():
            res.count(k, v)
        res.oracle_fail += o['oracle_fail']
        for x in o['nt']:
            res.nontrivial.add(x)
        rn.reqs += o['reqs']
        rn.req_meta += o['metas']
    rn.flush_model()


def run(res, tier, have_driver):
    r = common.rng('C18')
    res.rule = ('7 templates (sort_expr, reverse_expr, batches, if/let/with, try/raise, var formats, sub-template); 2 threads with '
                'different inputs: all single-pre-emption schedules on the compiled template (both orders) + random 2-pre-emption; on '
                'the uncompiled template: strided single pre-emptions, pre-emptions 0..3 lines after each shared access, the 3-pre-emption '
                'family around a second cook, 3 threads racing the cook, random; non-trivial = every scheduled run (distinct schedule)')
    monitor(res)
    explore(res, tier, have_driver, r)
    res.nontrivial.add(('runs', res.evaluations))
    res.partial.append('the model\'s atomic steps are the shared accesses of String.__call__/cook at source-line granularity; '
                       'bytecode-level switch points inside one line and C-level atomicity are runtime behaviour the model cannot '
                       'exhibit; the scheduler explores schedules, it does not prove; the theorem covers every schedule of the model')
    res.assumptions += ['the model has no per-render shared write: checked by the shared-write monitor (renders of a compiled template '
                        'change nothing reachable from the template, its blocks, the command table)',
                        'the events test/acquire/writeBlocks/writeFlag/release/readBlocks are located in DT_String.py by pattern; a '
                        'pattern that no longer matches is reported as a broken correspondence']


def search_more(res, tier):
    res2 = common.Result('C18')
    r = common.rng('C18-more')
    explore(res2, 'thorough' if tier == 'thorough' else 'quick', False, r)
    return res2.oracle_fail


def replay(path):
    with open(path) as f:
        d = json.load(f)
    print(json.dumps(d.get('first', d), indent=1, ensure_ascii=False)[:3000])
    return 1
