"""C03 — html_quote / &dtml-name; output is exactly the HTML-escaped value.

Correspondence: Lean `Quote.escape` / `renderSimpleH` / `renderFullH` / `renderSimple` /
`unescape5` vs the real insertion forms.  Oracle: html.escape / html.unescape from the
standard library on the implementation's output.
"""
import html
import json

import common

SIMPLE_FORMS = [           # compile to the ('v', name, 'h') simple form
    ('html', '&dtml-x;'),
    ('html', '<dtml-var x html_quote>'),
    ('html', '<!--#var x html_quote-->'),
    ('html', '<dtml-var name=x html_quote>'),
    ('html', '<dtml-var expr="x" html_quote>'),
    ('html', '<dtml-var "x" html_quote>'),
    ('epfs', '%(x html_quote)s'),
    ('epfs', '%(var x html_quote)s'),
]
FULL_FORMS = [             # go through Var.render
    ('html', '<dtml-var x fmt=html-quote>'),
    ('html', '<dtml-var x html_quote missing="M">'),
    ('html', '<dtml-var x html_quote size=100000>'),
    ('html', '<dtml-var x html_quote etc="..." size=100000 null="">'),
    ('html', '&dtml.html_quote-x;'),
    ('html', '<dtml-var expr="x" fmt="html-quote">'),
    ('epfs', '%(x fmt=html-quote)s'),
    ('epfs', '%(x html_quote missing=M)s'),
    # fmt=html-quote together with options that are identities for these values
    ('html', '<dtml-var x fmt=html-quote null="">'),
    ('html', '<dtml-var x fmt=html-quote missing="M">'),
    ('html', '<dtml-var x fmt=html-quote size=100000>'),
    ('html', '<dtml-var x fmt="html-quote" etc="..." size=100000>'),
    ('html', '<!--#var x fmt=html-quote missing=""-->'),
    ('epfs', '%(x fmt=html-quote missing=M)s'),
    ('html', '<dtml-var name=x missing=M html_quote>'),
]
# the same insertion nested in blocks (the tag objects of nested blocks are built by a sub-template)
NESTED_FORMS = [
    ('html', '<dtml-if one><dtml-in seq>&dtml-x;</dtml-in></dtml-if>'),
    ('html', '<dtml-in seq><dtml-in seq><dtml-var x html_quote></dtml-in></dtml-in>'),
    ('html', '<dtml-with o><dtml-let z=one>&dtml-x;</dtml-let></dtml-with>'),
    ('html', '<dtml-if zero>no<dtml-else><dtml-try><dtml-var x html_quote><dtml-except>E</dtml-try></dtml-if>'),
    ('html', '<dtml-unless zero><dtml-in seq><dtml-in seq><dtml-if one>&dtml-x;</dtml-if></dtml-in></dtml-in></dtml-unless>'),
    ('epfs', '%(if one)[%(in seq)[%(x html_quote)s%(in)]%(if)]'),
]
PLAIN_FORMS = [
    ('html', '<dtml-var x>'),
    ('html', '<!--#var x-->'),
    ('html', '<dtml-var expr="x">'),
    ('html', '<dtml-var x missing="M">'),
    ('epfs', '%(x)s'),
]
SPECIALS = '&<>"\''
_cache = {}


def template(syntax, src, encoding=None):
    key = (syntax, src, encoding)
    t = _cache.get(key)
    if t is None:
        from DocumentTemplate import HTML, String
        cls = HTML if syntax == 'html' else String
        t = cls(src, encoding=encoding) if encoding else cls(src)
        t.cook()
        _cache[key] = t
    return t


class _O:
    pass


def render(syntax, src, value, encoding=None):
    try:
        return template(syntax, src, encoding)(x=value, one=1, zero=0, seq=[1], o=_O())
    except Exception as e:  # noqa
        return ('EXC', type(e).__name__, str(e)[:80])


class Obj:
    def __init__(self, s):
        self.s = s

    def __str__(self):
        return self.s


def gen_values(tier, r):
    vals = []
    # every single code point (quick: a dense prefix + specials + random rest)
    if tier == 'thorough':
        cps = [c for c in range(0x110000) if not 0xD800 <= c <= 0xDFFF]
    else:
        cps = list(range(0, 0x3000)) + [r.choice([r.randrange(0x3000, 0xD800), r.randrange(0xE000, 0x110000)])
                                        for _ in range(6000)]
    for c in cps:
        vals.append(chr(c))
    alpha = list(SPECIALS) * 3 + ['a', 'Z', ' ', '\n', ';', '#', 'x', '2', '7', 'amp', 'lt', 'é', 'ſ', '€',
                                  ' ', '\U0001F600', '&amp;', '&#x27;', '&lt', '\x00', '0']
    n = 6000 if tier == 'quick' else 120000
    for _ in range(n):
        k = r.choice([0, 1, 2, 3, 5, 8, 13, 30])
        vals.append(''.join(r.choice(alpha) for _ in range(k)))
    return vals


def run(res, tier, have_driver):
    r = common.rng('C03')
    res.rule = ('every single code point (quick: U+0000-2FFF + 6000 random; thorough: all 1,112,064) and random '
                'strings over an alphabet dense in & < > " \' and multi-byte characters, through every insertion '
                'form (8 simple-form spellings, 15 full-path spellings incl. fmt=html-quote with identity options, 6 nested-block spellings, 5 plain spellings; HTML/SSI/EPFS, name and '
                'expr); non-str values; bytes in 4 encodings; non-trivial = distinct value containing a special')
    res.exhaustive = tier == 'thorough'
    vals = gen_values(tier, r)
    reqs = []
    impl = []
    forms_n = max(1, 2 if tier == 'quick' else 4)
    for v in vals:
        want = html.escape(v, True)
        sf = [SIMPLE_FORMS[0]] + r.sample(SIMPLE_FORMS[1:], forms_n)
        ff = r.sample(FULL_FORMS, forms_n + 1) + r.sample(NESTED_FORMS, 1)
        pf = r.sample(PLAIN_FORMS, 1)
        obs = {}
        for kind, forms in (('simpleH', sf), ('fullH', ff), ('plain', pf)):
            for syn, src in forms:
                out = render(syn, src, v)
                res.evaluations += 1
                obs.setdefault(kind, []).append((src, out))
                exp = v if kind == 'plain' else want
                if out != exp:
                    res.oracle_fail.append({'case': {'value': v, 'form': src, 'syntax': syn},
                                            'what': 'output %r, expected %r (html.escape of the value)' % (out, exp)
                                            if kind != 'plain' else
                                            'plain insertion changed the value: %r' % (out,)})
                elif kind != 'plain':
                    if isinstance(out, str) and html.unescape(out) != v:
                        res.oracle_fail.append({'case': {'value': v, 'form': src},
                                                'what': 'html.unescape(output) != value'})
        if any(c in v for c in SPECIALS):
            res.nt(v)
            res.count('has_special')
        res.count('len=%s' % (len(v) if len(v) < 4 else '4+'))
        impl.append(obs)
        reqs.append({'op': 'quote', 's': v})
    res.sample({'value': vals[60], 'observation': impl[60]})
    res.sample({'value': vals[-1], 'observation': impl[-1]})
    res.sample({'value': vals[-7], 'observation': impl[-7]})
    if have_driver:
        resp = common.run_driver(reqs)
        for v, obs, rp in zip(vals, impl, resp):
            if 'ok' not in rp:
                res.harness_errors.append('driver: %r' % (rp,))
                break
            m = rp['ok']
            res.corr_checked += 1
            for kind in ('simpleH', 'fullH', 'plain'):
                for src, out in obs[kind]:
                    if out != m[kind]:
                        res.corr_mismatch.append({'case': {'value': v, 'form': src}, 'impl': out,
                                                  'model': m[kind], 'diff': kind})
            if m['unesc'] != v or m['escape'] != html.escape(v, True):
                res.corr_mismatch.append({'case': {'value': v}, 'impl': html.escape(v, True),
                                          'model': m, 'diff': 'model escape/unescape5 vs html module'})

    # non-string values: inserted as the escaped str() form
    others = [0, 7, -3, 2.5, None, True, (1, '<'), ['&'], {'a': '"'}, Obj("<o'bj>"), Obj('plain'),
              ValueError("<bad 'value'>"), KeyError('k<'), Exception(), Exception('a', '<b>')]
    from DocumentTemplate.ustr import ustr
    for v in others:
        s = ustr(v)
        for syn, src in SIMPLE_FORMS + FULL_FORMS:
            out = render(syn, src, v)
            res.evaluations += 1
            if 'null=""' in src and (not v and v != 0):
                continue
            if out != html.escape(s, True):
                res.oracle_fail.append({'case': {'value': repr(v), 'form': src},
                                        'what': 'output %r, expected %r' % (out, html.escape(s, True))})
        res.count('nonstring_values')

    # bytes values in the template's encoding
    texts = ['plain', 'a<b', "it's", 'é<', 'ſ&', '€"', 'x\U0001F600>', 'Ω', '\xff<\xe9']
    for _ in range(200 if tier == 'quick' else 4000):
        texts.append(''.join(r.choice(['<', '&', "'", '"', '>', 'a', 'é', 'ÿ', '€', 'Ω', '\U0001F600'])
                             for _ in range(r.randint(1, 6))))
    for enc in ('utf-8', 'latin-1', 'cp1252', 'utf-16'):
        for t in texts:
            try:
                b = t.encode(enc)
            except UnicodeEncodeError:
                continue
            want = html.escape(t, True)
            for syn, src in SIMPLE_FORMS + FULL_FORMS + NESTED_FORMS:
                if syn == 'epfs' and enc == 'utf-16':
                    pass
                out = render(syn, src, b, encoding=enc)
                res.evaluations += 1
                res.count('bytes_' + enc)
                if out != want:
                    full = (syn, src) in FULL_FORMS
                    try:
                        same_latin1 = b.decode('latin-1') == t
                    except Exception:
                        same_latin1 = False
                    if full and not same_latin1:
                        # full-path html_quote decodes bytes as Latin-1 whatever the template encoding
                        res.known_hits.setdefault('C03-bytes-fullpath', {'text': t, 'encoding': enc, 'form': src,
                                                                         'output': repr(out)})
                    else:
                        res.oracle_fail.append({'case': {'bytes_of': t, 'encoding': enc, 'form': src},
                                                'what': 'output %r, expected %r' % (out, want)})
            if any(c in t for c in SPECIALS):
                res.nt(('bytes', enc, t))
    res.partial.append('bytes through the full Var.render path (html_quote + another option, fmt=html-quote) are '
                       'decoded as Latin-1: known finding C03-bytes-fullpath; theorems cover str values and the '
                       'simple-form bytes path is tied by correspondence/oracle only')
    res.assumptions += ['html.escape / html.unescape (standard library) are the reference for "standard HTML '
                        'escaping"; the model\'s escape table is checked against the running Python by '
                        'gen_escape_table']


def search_more(res, tier):
    found = []
    for c in SPECIALS + 'a':
        for v in (c, 'x' + c, c + c):
            for syn, src in SIMPLE_FORMS + FULL_FORMS:
                out = render(syn, src, v)
                if out != html.escape(v, True):
                    found.append({'case': {'value': v, 'form': src, 'syntax': syn},
                                  'what': 'output %r, expected %r' % (out, html.escape(v, True))})
    return found


def replay(path):
    with open(path) as f:
        d = json.load(f)
    c = d['first']['case']
    v = c.get('value')
    syn = c.get('syntax', 'html')
    out = render(syn, c['form'], v)
    print(repr(out), 'expected', repr(html.escape(v, True)))
    return 0 if out == html.escape(v, True) else 1
