"""C03 — html_quote / &dtml-name; output is exactly the HTML-escaped value.

Correspondence: Lean `Quote.escape` / `renderSimpleH` / `renderFullH` / `renderSimple` /
`unescape5` vs the real insertion forms.  Oracle: html.escape / html.unescape from the
standard library on the implementation's output.
"""
import html
import itertools
import json
import re
import urllib.parse

import common

SIMPLE_FORMS = [           # compile to the ('v', name, 'h') simple form
    ('html', '&dtml-x;'),
    ('html', '<dtml-var x html_quote>'),
    ('html', '<!--#var x html_quote-->'),
    ('html', '<dtml-var name=x html_quote>'),
    ('html', '<dtml-var expr="x" html_quote>'),
    ('html', '<dtml-var "x" html_quote>'),
    ('epfs', '%(x html_quote)s'),
    ('epfs', '%(var x html_quote)s'),
]
FULL_FORMS = [             # go through Var.render
    ('html', '<dtml-var x fmt=html-quote>'),
    ('html', '<dtml-var x html_quote missing="M">'),
    ('html', '<dtml-var x html_quote size=100000>'),
    ('html', '<dtml-var x html_quote etc="..." size=100000 null="">'),
    ('html', '&dtml.html_quote-x;'),
    ('html', '<dtml-var expr="x" fmt="html-quote">'),
    ('epfs', '%(x fmt=html-quote)s'),
    ('epfs', '%(x html_quote missing=M)s'),
    # fmt=html-quote together with options that are identities for these values
    ('html', '<dtml-var x fmt=html-quote null="">'),
    ('html', '<dtml-var x fmt=html-quote missing="M">'),
    ('html', '<dtml-var x fmt=html-quote size=100000>'),
    ('html', '<dtml-var x fmt="html-quote" etc="..." size=100000>'),
    ('html', '<!--#var x fmt=html-quote missing=""-->'),
    ('epfs', '%(x fmt=html-quote missing=M)s'),
    ('html', '<dtml-var name=x missing=M html_quote>'),
]
# the same insertion nested in blocks (the tag objects of nested blocks are built by a sub-template)
NESTED_FORMS = [
    ('html', '<dtml-if one><dtml-in seq>&dtml-x;</dtml-in></dtml-if>'),
    ('html', '<dtml-in seq><dtml-in seq><dtml-var x html_quote></dtml-in></dtml-in>'),
    ('html', '<dtml-with o><dtml-let z=one>&dtml-x;</dtml-let></dtml-with>'),
    ('html', '<dtml-if zero>no<dtml-else><dtml-try><dtml-var x html_quote><dtml-except>E</dtml-try></dtml-if>'),
    ('html', '<dtml-unless zero><dtml-in seq><dtml-in seq><dtml-if one>&dtml-x;</dtml-if></dtml-in></dtml-in></dtml-unless>'),
    ('epfs', '%(if one)[%(in seq)[%(x html_quote)s%(in)]%(if)]'),
]
PLAIN_FORMS = [
    ('html', '<dtml-var x>'),
    ('html', '<!--#var x-->'),
    ('html', '<dtml-var expr="x">'),
    ('html', '<dtml-var x missing="M">'),
    ('epfs', '%(x)s'),
]
SPECIALS = '&<>"\''
_cache = {}


def template(syntax, src, encoding=None):
    key = (syntax, src, encoding)
    t = _cache.get(key)
    if t is None:
        from DocumentTemplate import HTML, String
        cls = HTML if syntax == 'html' else String
        t = cls(src, encoding=encoding) if encoding else cls(src)
        t.cook()
        _cache[key] = t
    return t


class _O:
    pass


def render(syntax, src, value, encoding=None):
    try:
        return template(syntax, src, encoding)(x=value, one=1, zero=0, seq=[1], o=_O())
    except Exception as e:  # noqa
        return ('EXC', type(e).__name__, str(e)[:80])


class Obj:
    def __init__(self, s):
        self.s = s

    def __str__(self):
        return self.s


def gen_values(tier, r):
    vals = []
    # every single code point (quick: a dense prefix + specials + random rest)
    if tier == 'thorough':
        cps = [c for c in range(0x110000) if not 0xD800 <= c <= 0xDFFF]
    else:
        cps = list(range(0, 0x3000)) + [r.choice([r.randrange(0x3000, 0xD800), r.randrange(0xE000, 0x110000)])
                                        for _ in range(6000)]
    for c in cps:
        vals.append(chr(c))
    alpha = list(SPECIALS) * 3 + ['a', 'Z', ' ', '\n', ';', '#', 'x', '2', '7', 'amp', 'lt', 'é', 'ſ', '€',
                                  ' ', '\U0001F600', '&amp;', '&#x27;', '&lt', '\x00', '0']
    n = 6000 if tier == 'quick' else 120000
    for _ in range(n):
        k = r.choice([0, 1, 2, 3, 5, 8, 13, 30])
        vals.append(''.join(r.choice(alpha) for _ in range(k)))
    return vals


# ----------------------------------------------------------------------------------------------
# (A) html_quote together with EVERY other option of the var tag
#
# The expected text is computed by a reference pipeline written from the tag's documentation
# (DT_Var doc string): the custom / special format (fmt=) is applied first, the valueless
# "string manipulation" attributes transform the value "after formatting has been applied"
# (their mutual order is not documented: every order is accepted), truncation (size/etc) comes
# last, null= only replaces null values and missing= only missing names.  Nothing below looks at
# the implementation's tables.

def _esc(s):
    return html.escape(s, True)


def _sql(s):
    for ch in '\x00\x1a\r':
        s = s.replace(ch, '')
    return s.replace("'", "''")


def _br(s):
    return s.replace('\r', '').replace('\n', '<br />\n')


def _ident(s):
    return s


REF_FLAGS = {
    'html_quote': _esc,
    'lower': str.lower, 'upper': str.upper, 'capitalize': str.capitalize,
    'spacify': lambda s: s.replace('_', ' '),
    'sql_quote': _sql,
    'url_quote': urllib.parse.quote, 'url_quote_plus': urllib.parse.quote_plus,
    'url_unquote': urllib.parse.unquote, 'url_unquote_plus': urllib.parse.unquote_plus,
    'newline_to_br': _br,
    'thousands_commas': _ident,       # only used on texts without a run of four digits (guarded below)
}
OTHER_FLAGS = sorted(k for k in REF_FLAGS if k != 'html_quote')
REF_FMTS = {
    # special formats
    'sql-quote': _sql, 'html-quote': _esc,
    'url-quote': urllib.parse.quote, 'url-quote-plus': urllib.parse.quote_plus,
    'url-unquote': urllib.parse.unquote, 'url-unquote-plus': urllib.parse.unquote_plus,
    'multi-line': _br, 'comma-numeric': _ident, 'collection-length': lambda s: str(len(s)),
    # custom formats = a method of the value
    'strip': str.strip, 'lower': str.lower, 'upper': str.upper, 'title': str.title, 'swapcase': str.swapcase,
    # C-style formats
    '%s': _ident, '[%s]': lambda s: '[%s]' % s, '%-3s': lambda s: '%-3s' % s,
}
FMT_NAMES = sorted(REF_FMTS)
UNQUOTERS = {'url_unquote', 'url_unquote_plus'}
URLQUOTERS = {'url_quote', 'url_quote_plus', 'url-quote', 'url-quote-plus'}
FOUR_DIGITS = re.compile(r'[0-9]{4}')
BIG = 100000


def gen_spec(r):
    """one var tag that asks for html quoting (html_quote attribute, fmt=html-quote, or both) together with
    0-3 other options; returned as a dict that `spec_source` spells and `spec_accept` predicts"""
    spec = {'flags': [], 'fmt': None, 'size': None, 'etc': None, 'null': None, 'missing': None}
    how = r.choice(['attr', 'attr', 'attr', 'attr', 'fmt', 'both'])
    if how in ('attr', 'both'):
        spec['flags'].append('html_quote')
    if how in ('fmt', 'both'):
        spec['fmt'] = 'html-quote'
    k = r.choice([1, 1, 1, 2, 2, 3])
    for opt in r.sample(['flag', 'flag2', 'fmt', 'size', 'null', 'missing'], k):
        if opt in ('flag', 'flag2'):
            f = r.choice(OTHER_FLAGS)
            if f not in spec['flags']:
                spec['flags'].append(f)
        elif opt == 'fmt' and spec['fmt'] is None:
            spec['fmt'] = r.choice(FMT_NAMES)
        elif opt == 'size':
            spec['size'] = r.choice([BIG, BIG, 'tight', 'tight+1'])
            if r.random() < 0.5:
                spec['etc'] = r.choice(['...', '', '<etc>'])
        elif opt == 'null':
            spec['null'] = r.choice(['', 'N', '<null>'])
        elif opt == 'missing':
            spec['missing'] = r.choice(['M', '', '<m>'])
    spec['subject'] = r.choice(['x', 'x', 'name=x', 'name="x"', 'expr="x"', '"x"'])
    spec['syntax'] = r.choice(['dtml', 'dtml', 'dtml', 'ssi', 'epfs', 'entity'])
    spec['order'] = r.random()
    return spec


def spec_accept(spec, text):
    """the set of outputs the documentation allows for the string `text`, or None when the case lies in the
    territory of a known finding of another property / outside the reference pipeline"""
    flags = spec['flags']
    fmt = spec['fmt']
    if spec['null'] is not None and not text:
        return None                                        # a null value is replaced by the null text
    used = set(flags) | ({fmt} if fmt else set())
    if used & UNQUOTERS and ('%' in text or used & URLQUOTERS):
        return None                                        # C15-double-unquote: the attribute unquotes twice
    s = text
    stages = [s]
    if fmt:
        s = REF_FMTS[fmt](s)
        stages.append(s)
    outs = set()
    flag_sets = [flags]
    if fmt == 'html-quote' and 'html_quote' in flags:
        # asked for twice: the documented pipeline escapes twice; escaping once is what the property says
        # about either option -- both are accepted, a raw special never is
        flag_sets.append([f for f in flags if f != 'html_quote'])
    for fl in flag_sets:
        for perm in itertools.permutations(fl):
            t = s
            for f in perm:
                t = REF_FLAGS[f](t)
                stages.append(t)
            outs.add(t)
    if ('thousands_commas' in used or 'comma-numeric' in used) and any(FOUR_DIGITS.search(t) for t in stages):
        return None                                        # comma insertion itself is C15's subject
    return outs


def spec_source(spec, accept):
    """(syntax, source) of the tag; `accept` is needed for the tight sizes (truncation must stay an identity)"""
    attrs = list(spec['flags'])
    named = []
    fmt = spec['fmt']
    syntax = spec['syntax']
    if fmt is not None:
        if '%' in fmt or '[' in fmt:
            if syntax == 'epfs':
                syntax = 'dtml'
            named.append('fmt="%s"' % fmt)
        else:
            named.append(('fmt=%s' if spec['order'] < 0.5 else 'fmt="%s"') % fmt)
    if spec['size'] is not None:
        longest = max(len(a) for a in accept)
        size = {BIG: BIG, 'tight': longest, 'tight+1': longest + 1}[spec['size']]
        named.append('size=%d' % size)
        if spec['etc'] is not None:
            named.append('etc="%s"' % spec['etc'])
    if spec['null'] is not None:
        named.append('null="%s"' % spec['null'])
    if spec['missing'] is not None:
        named.append('missing="%s"' % spec['missing'])
    if syntax == 'entity':
        if named or not spec['flags'] or spec['subject'] != 'x':
            syntax = 'dtml'
        elif spec['flags'] == ['html_quote'] and spec['order'] < 0.5:
            return 'html', '&dtml-x;'
        else:
            fl = list(spec['flags'])
            common.rng('C03-ent-%r' % (spec['order'],)).shuffle(fl)
            return 'html', '&dtml.%s-x;' % '.'.join(fl)
    rr = common.rng('C03-order-%r' % (spec['order'],))
    rest = attrs + named
    rr.shuffle(rest)
    subject = spec['subject']
    if subject in ('x', '"x"') or rr.random() < 0.5 or not named:
        parts = [subject] + rest
    else:
        # name= / expr= may stand anywhere, but a valueless attribute cannot come first
        rest.insert(rr.randint(0, len(rest)), subject)
        if '=' not in rest[0]:
            first = next(i for i, a in enumerate(rest) if '=' in a)
            rest.insert(0, rest.pop(first))
        parts = rest
    body = ' '.join(parts)
    if syntax == 'ssi':
        return 'html', '<!--#var %s-->' % body
    if syntax == 'epfs':
        if '"x"' == subject:
            body = body.replace('"x"', 'expr="x"', 1)
        # the EPFS tag grammar wants a bare word first: the variable itself or the tag name
        return 'epfs', '%%(%s%s)s' % ('var ' if spec['order'] < 0.3 or not body.startswith('x ') else '', body)
    return 'html', '<dtml-var %s>' % body


OPTION_ALPHA = list(SPECIALS) * 3 + ['a', 'Z', 'Ab', '_', ' ', '\n', '\r', '\x1a', ';', '+', '%3C', '%26', '%',
                                     '7', '123', '.', 'é', 'ſ', 'ǆ', '€', '\U0001F600', '&amp;', '&#x27;', "''"]


def gen_option_values(tier, r):
    vals = ['<b>', 'a & b', '"x"', "Moe's <Bar>", '<script>alert("x")</script>', '>€<\U0001f600&', 'plain',
            "it's", '%3Cb%3E', 'A_B<c>', '1234567<', "'", 'x\r\n<y>']
    for _ in range(3000 if tier == 'quick' else 40000):
        k = r.choice([1, 2, 3, 5, 8, 13])
        vals.append(''.join(r.choice(OPTION_ALPHA) for _ in range(k)))
    return vals


class UrlObj:
    def __init__(self, u):
        self.u = u

    def absolute_url(self):
        return self.u

    def __str__(self):
        return 'not the url'


def check_options(res, tier, r):
    """html_quote with every other option of the tag, every attribute order and spelling"""
    vals = gen_option_values(tier, r)
    per_value = 4 if tier == 'quick' else 8
    first = True
    for v in vals:
        for _ in range(per_value):
            spec = gen_spec(r)
            accept = spec_accept(spec, v)
            if accept is None:
                res.count('opt_outside_reference')
                continue
            syn, src = spec_source(spec, accept)
            out = render(syn, src, v)
            res.evaluations += 1
            res.count('opt_cases')
            res.count('opt_other_options=%d' % (len(spec['flags']) - ('html_quote' in spec['flags']) +
                                                sum(spec[k] is not None for k in ('size', 'null', 'missing')) +
                                                (spec['fmt'] not in (None, 'html-quote'))))
            if spec['fmt']:
                res.count('opt_fmt=' + spec['fmt'])
            for f in spec['flags']:
                res.count('opt_attr=' + f)
            if len(accept) > 1:
                res.count('opt_order_dependent')
            if out not in accept:
                res.oracle_fail.append({'case': {'value': v, 'form': src, 'syntax': syn, 'accept': sorted(accept)},
                                        'what': 'output %r; the documented pipeline (fmt, then the attributes in '
                                                'any order, then size) gives %r' % (out, sorted(accept))})
            elif accept == {_esc(v)} and html.unescape(out) != v:
                res.oracle_fail.append({'case': {'value': v, 'form': src, 'syntax': syn, 'accept': sorted(accept)},
                                        'what': 'html.unescape(output) != value'})
            if any(c in v for c in SPECIALS):
                res.nt(('opt', src, v))
            if first and len(spec['flags']) > 1:
                res.sample({'value': v, 'form': src, 'output': out, 'accepted': sorted(accept)})
                first = False
    # non-string values: the attributes work on the str() form
    for v in [7, -3.5, (1, '<'), ['&', "'"], Obj("<o'bj>"), Obj('A_b"'), ValueError("<bad 'value'>")]:
        for _ in range(30 if tier == 'quick' else 300):
            spec = gen_spec(r)
            if spec['fmt'] not in (None, 'html-quote'):
                spec['fmt'] = None
                if 'html_quote' not in spec['flags']:
                    spec['flags'].append('html_quote')
            accept = spec_accept(spec, str(v))
            if accept is None:
                continue
            syn, src = spec_source(spec, accept)
            out = render(syn, src, v)
            res.evaluations += 1
            res.count('opt_nonstring_cases')
            if out not in accept:
                res.oracle_fail.append({'case': {'value': describe(v), 'form': src, 'syntax': syn,
                                                 'accept': sorted(accept)},
                                        'what': 'output %r, expected one of %r' % (out, sorted(accept))})
    # the url attribute: the text inserted is the object's absolute_url()
    for u in ['http://h/?a=1&b=<2>', "http://h/it's", 'http://h/plain', 'http://h/"q"?x=>']:
        for syn, src in [('html', '<dtml-var x url html_quote>'), ('html', '<dtml-var x html_quote url>'),
                         ('html', '<dtml-var name=x url html_quote missing=M>'),
                         ('html', '<dtml-var expr="x" url html_quote>'),
                         ('html', '<dtml-var x url fmt=html-quote>'), ('html', '&dtml.url.html_quote-x;'),
                         ('html', '<!--#var x url html_quote size=100000-->'),
                         ('epfs', '%(x url html_quote)s')]:
            out = render(syn, src, UrlObj(u))
            res.evaluations += 1
            res.count('opt_url_cases')
            if out != _esc(u):
                res.oracle_fail.append({'case': {'value': {'t': 'urlobj', 'v': u}, 'form': src, 'syntax': syn,
                                                 'accept': [_esc(u)]},
                                        'what': 'output %r, expected %r' % (out, _esc(u))})


# ----------------------------------------------------------------------------------------------
# (B) the quoted insertion inside a larger template body: what is inserted before / after it in the SAME
# rendering (tainted values, values that need no quoting, numbers, bytes, None, other tags, blocks, loop
# iterations) and what the same compiled template inserted in EARLIER renderings must not matter.
# A scene is a tree of pieces; the expected text of every piece is known from the property (quoted: html.escape
# of the string form), from C04 (tainted values are always escaped), from Python (str of a number) or is literal.

Q_FORMS = [            # § = the variable
    '&dtml-§;', '<dtml-var § html_quote>', '<!--#var § html_quote-->', '<dtml-var name=§ html_quote>',
    '<dtml-var expr="§" html_quote>', '<dtml-var "§" html_quote>',
    '<dtml-var § fmt=html-quote>', '<dtml-var § html_quote missing="M">', '<dtml-var § html_quote size=100000>',
    '&dtml.html_quote-§;', '<dtml-var expr="§" fmt="html-quote">', '<dtml-var name=§ missing=M html_quote>',
]
P_FORMS = ['<dtml-var §>', '<!--#var §-->', '<dtml-var expr="§">', '<dtml-var § missing="M">', '<dtml-var name=§>',
           '<dtml-var § null="N">']
Q_FORMS_E = ['%(§ html_quote)s', '%(var § html_quote)s', '%(§ fmt=html-quote)s', '%(§ html_quote missing=M)s']
P_FORMS_E = ['%(§)s', '%(var §)s', '%(§ missing=M)s']
BLOCKS = [('<dtml-if one>', '</dtml-if>', 1), ('<dtml-in seq>', '</dtml-in>', 1), ('<dtml-in seq2>', '</dtml-in>', 2),
          ('<dtml-with o>', '</dtml-with>', 1), ('<dtml-let z=one>', '</dtml-let>', 1),
          ('<dtml-unless zero>', '</dtml-unless>', 1), ('<dtml-try>', '<dtml-except>E</dtml-try>', 1),
          ('<dtml-if zero>no<dtml-else>', '</dtml-if>', 1), ('<dtml-if zero>no<dtml-elif one>', '<dtml-else>no</dtml-if>', 1),
          ('<dtml-in seq2 reverse>', '</dtml-in>', 2), ('<dtml-if zero>', '</dtml-if>', 0),
          ('<dtml-try>', '<dtml-finally></dtml-try>', 1)]
BLOCKS_E = [('%(if one)[', '%(if)]', 1), ('%(in seq)[', '%(in)]', 1), ('%(in seq2)[', '%(in)]', 2),
            ('%(with o)[', '%(with)]', 1), ('%(unless zero)[', '%(unless)]', 1)]
LITERALS = ['|', ';', 'lit', '<b>', '&amp;', '"', "'", '/']
EMPTY_TAGS = ['<dtml-call "1">', '<dtml-comment>x</dtml-comment>', '<dtml-var nothing missing="">']
# the variables a scene may insert: subjects (dense in specials) and by-standers
SUBJECTS = ['x', 'y']
BYSTANDERS = ['t', 't2', 'p', 'n', 'b', 'none', 'x', 'y']


def gen_scene(r, epfs, depth=0):
    """list of pieces: ('lit', text) | ('ins', source, var, quoted) | ('blk', open, close, times, [pieces])"""
    qf, pf, blocks = (Q_FORMS_E, P_FORMS_E, BLOCKS_E) if epfs else (Q_FORMS, P_FORMS, BLOCKS)
    pieces = []
    n = r.randint(2, 6) if depth == 0 else r.randint(1, 4)
    for _ in range(n):
        c = r.random()
        if c < 0.40:
            var = r.choice(SUBJECTS)
            pieces.append(('ins', r.choice(qf).replace('§', var), var, True))
        elif c < 0.70:
            var = r.choice(BYSTANDERS)
            quoted = r.random() < 0.4
            pieces.append(('ins', r.choice(qf if quoted else pf).replace('§', var), var, quoted))
        elif c < 0.75 and not epfs:
            # a sub-template inserted by name: rendered in this namespace, its text inserted as is
            pieces.append(('ins', r.choice(['<dtml-var sub>', '<!--#var sub-->', '<dtml-var name=sub>']), 'sub', False))
        elif c < 0.87 and depth < 2:
            o, cl, times = r.choice(blocks)
            pieces.append(('blk', o, cl, times, gen_scene(r, epfs, depth + 1)))
        elif c < 0.92 and not epfs:
            pieces.append(('lit0', r.choice(EMPTY_TAGS)))
        else:
            pieces.append(('lit', r.choice(LITERALS[:3] if epfs else LITERALS)))
        if r.random() < 0.5:
            pieces.append(('lit', '|'))
    if depth == 0 and not any(p[0] == 'ins' and p[3] for p in pieces):
        pieces.append(('ins', qf[0].replace('§', 'x'), 'x', True))
    return pieces


def scene_source(pieces):
    out = []
    for p in pieces:
        if p[0] in ('lit', 'lit0', 'ins'):
            out.append(p[1])
        else:
            out.append(p[1] + scene_source(p[4]) + p[2])
    return ''.join(out)


_sub = []


def sub_template():
    """a compiled template handed in as a value: inserting it renders it in the caller's namespace"""
    if not _sub:
        from DocumentTemplate import HTML
        _sub.append(HTML('[&dtml-x;<dtml-var t>]'))
    return _sub[0]


def text_of(d, data=None):
    """the string form of a described value"""
    k = d['t']
    if k == 'sub':
        return '[' + _esc(text_of(data['x'])) + (_esc if data['t']['t'] == 'tainted' else _ident)(text_of(data['t'])) + ']'
    if k in ('str', 'tainted', 'obj'):
        return d['v']
    if k == 'bytes':
        return d['v']                  # ASCII only
    if k == 'int':
        return str(d['v'])
    if k == 'none':
        return 'None'
    raise ValueError(k)


def describe(v):
    if isinstance(v, str):
        return v
    if isinstance(v, Obj):
        return {'t': 'obj', 'v': v.s}
    if isinstance(v, UrlObj):
        return {'t': 'urlobj', 'v': v.u}
    return {'t': 'py', 'v': repr(v)}


def make_value(d):
    if not isinstance(d, dict):
        return d
    k = d['t']
    if k == 'py':
        return eval(d['v'], {'__builtins__': {}, 'ValueError': ValueError, 'KeyError': KeyError,
                             'Exception': Exception})
    if k == 'sub':
        return sub_template()
    if k == 'str':
        return d['v']
    if k == 'tainted':
        from AccessControl.tainted import TaintedString
        return TaintedString(d['v'])
    if k == 'obj':
        return Obj(d['v'])
    if k == 'bytes':
        return d['v'].encode('ascii')
    if k == 'int':
        return d['v']
    if k == 'none':
        return None
    if k == 'urlobj':
        return UrlObj(d['v'])
    raise ValueError(k)


def scene_expected(pieces, data):
    out = []
    for p in pieces:
        if p[0] == 'lit':
            out.append(p[1])
        elif p[0] == 'lit0':
            pass
        elif p[0] == 'ins':
            d = data[p[2]]
            s = text_of(d, data)
            if 'null="N"' in p[1] and (d['t'] == 'none' or (d['t'] in ('str', 'bytes') and d['v'] == '')):
                s = 'N'                 # None and '' are null values (false, not zero)
            elif p[3] or d['t'] == 'tainted':
                s = _esc(s)
            out.append(s)
        else:
            out.append(scene_expected(p[4], data) * p[3])     # a loop body once per element, in order
    return ''.join(out)


SCENE_ALPHA = list(SPECIALS) * 3 + ['a', 'Z', ' ', ';', 'é', '€', '\U0001F600', '&amp;', '&#x27;', 'b>', '<i']


def gen_data(r, prev=None):
    def special_text():
        while True:
            s = ''.join(r.choice(SCENE_ALPHA) for _ in range(r.choice([1, 2, 3, 5, 8])))
            if any(c in s for c in SPECIALS):
                return s

    def subject():
        c = r.random()
        s = special_text()
        if c < 0.70:
            return {'t': 'str', 'v': s}
        if c < 0.80:
            return {'t': 'tainted', 'v': s if '<' in s else '<' + s}
        if c < 0.88:
            return {'t': 'obj', 'v': s}
        if c < 0.94:
            return {'t': 'bytes', 'v': ''.join(ch for ch in s if ord(ch) < 128) or '<'}
        return {'t': 'str', 'v': r.choice(['plain', '', '0'])}

    def maybe_tainted(p):
        s = special_text()
        if r.random() < p:
            return {'t': 'tainted', 'v': s if '<' in s else '<' + s}
        return {'t': 'str', 'v': r.choice(['plain', 'ok', s])}

    d = {'x': subject(), 'y': subject(),
         't': maybe_tainted(0.8), 't2': maybe_tainted(0.5),
         'p': {'t': 'str', 'v': r.choice(['plain', 'p', 'no specials', 'é€'])},
         'n': {'t': 'int', 'v': r.choice([0, 7, -3, 10 ** 6])},
         'b': {'t': 'bytes', 'v': r.choice(['by', '<by>', "b'&", 'plain'])},
         'none': {'t': 'none'}, 'sub': {'t': 'sub'}}
    if prev is not None and r.random() < 0.3:
        # the same subject again after other data went through the template
        d['x'] = prev['x']
    return d


def render_scene(t, data):
    kw = {k: make_value(d) for k, d in data.items()}
    try:
        return t(one=1, zero=0, seq=[1], seq2=[1, 2], o=_O(), **kw)
    except Exception as e:  # noqa
        return ('EXC', type(e).__name__, str(e)[:80])


def fresh_template(syntax, src):
    from DocumentTemplate import HTML, String
    return (HTML if syntax == 'html' else String)(src)


def check_scenes(res, tier, r):
    n_scenes = 1500 if tier == 'quick' else 12000
    sampled = False
    for i in range(n_scenes):
        epfs = i % 5 == 4
        syntax = 'epfs' if epfs else 'html'
        pieces = gen_scene(r, epfs)
        src = scene_source(pieces)
        t = fresh_template(syntax, src)
        history = []
        data = None
        for k in range(r.choice([2, 4, 6])):
            data = gen_data(r, data)
            want = scene_expected(pieces, data)
            out = render_scene(t, data)
            if isinstance(out, bytes):
                # a rendering that consists of ONE piece returns that piece as it is (C19: only a rendering of more than
                # one piece is text): an inserted bytes value next to nothing but empty pieces comes back as bytes
                res.count('scene_single_bytes_piece')
                out = out.decode('ascii', 'replace')
            res.evaluations += 1
            res.count('scene_renders')
            if data['t']['t'] == 'tainted' or data['t2']['t'] == 'tainted' or data['x']['t'] == 'tainted':
                res.count('scene_renders_with_tainted_value')
            if k:
                res.count('scene_rerenders_of_a_compiled_template')
            if out != want:
                res.oracle_fail.append({'case': {'scene': src, 'syntax': syntax, 'data': data,
                                                 'history': list(history), 'expected': want},
                                        'what': 'output %r, expected %r (every piece: literal text verbatim, quoted '
                                                'and tainted insertions html.escape of the string form, others '
                                                'str())' % (out, want)})
                break
            history.append(data)
            res.nt(('scene', src, json.dumps(data, sort_keys=True)))
        res.count('scenes')
        res.count('scene_syntax=' + syntax)
        if not sampled and '<dtml-in' in src and '<dtml-var t' in src:
            res.sample({'scene': src, 'data': data, 'output': out})
            sampled = True



def run(res, tier, have_driver):
    r = common.rng('C03')
    res.rule = ('every single code point (quick: U+0000-2FFF + 6000 random; thorough: all 1,112,064) and random '
                'strings over an alphabet dense in & < > " \' and multi-byte characters, through every insertion '
                'form (8 simple-form spellings, 15 full-path spellings incl. fmt=html-quote with identity options, 6 nested-block spellings, 5 plain spellings; HTML/SSI/EPFS, name and '
                'expr); non-str values; bytes in 4 encodings; non-trivial = distinct value containing a special.  '
                'OPTIONS: html quoting (html_quote attribute, fmt=html-quote, both) together with 0-3 of ALL other '
                'options of the tag (11 valueless attributes, 9 special formats, 5 method formats, 3 C-style '
                'formats, size/etc incl. size == length, null, missing, url) in every attribute order and '
                'spelling (dtml / SSI / EPFS / &dtml.a.b-x; entities, name, name=, expr=), str and non-str values; '
                'expected = reference pipeline from the tag documentation (fmt first, attributes in any order, '
                'size last).  SCENES: random template bodies (1500 quick / 12000 thorough, HTML and EPFS) where '
                'quoted insertions of x / y stand before and after insertions of tainted strings, strings that '
                'need no quoting, numbers, None, ASCII bytes, objects, a sub-template that inserts the same variables, empty tags and literal text, on the same '
                'level and inside if / elif / else / unless / in (1 and 2 iterations, reverse) / with / let / try '
                'blocks (depth <= 2); each compiled scene is rendered 2-6 times with changing data (tainted <-> '
                'plain, same subject again); expected = concatenation of the per-piece expectations')
    res.exhaustive = tier == 'thorough'
    vals = gen_values(tier, r)
    reqs = []
    impl = []
    forms_n = max(1, 2 if tier == 'quick' else 4)
    for v in vals:
        want = html.escape(v, True)
        sf = [SIMPLE_FORMS[0]] + r.sample(SIMPLE_FORMS[1:], forms_n)
        ff = r.sample(FULL_FORMS, forms_n + 1) + r.sample(NESTED_FORMS, 1)
        pf = r.sample(PLAIN_FORMS, 1)
        obs = {}
        for kind, forms in (('simpleH', sf), ('fullH', ff), ('plain', pf)):
            for syn, src in forms:
                out = render(syn, src, v)
                res.evaluations += 1
                obs.setdefault(kind, []).append((src, out))
                exp = v if kind == 'plain' else want
                if out != exp:
                    res.oracle_fail.append({'case': {'value': v, 'form': src, 'syntax': syn},
                                            'what': 'output %r, expected %r (html.escape of the value)' % (out, exp)
                                            if kind != 'plain' else
                                            'plain insertion changed the value: %r' % (out,)})
                elif kind != 'plain':
                    if isinstance(out, str) and html.unescape(out) != v:
                        res.oracle_fail.append({'case': {'value': v, 'form': src},
                                                'what': 'html.unescape(output) != value'})
        if any(c in v for c in SPECIALS):
            res.nt(v)
            res.count('has_special')
        res.count('len=%s' % (len(v) if len(v) < 4 else '4+'))
        impl.append(obs)
        reqs.append({'op': 'quote', 's': v})
    res.sample({'value': vals[60], 'observation': impl[60]})
    res.sample({'value': vals[-1], 'observation': impl[-1]})
    res.sample({'value': vals[-7], 'observation': impl[-7]})
    if have_driver:
        resp = common.run_driver(reqs)
        for v, obs, rp in zip(vals, impl, resp):
            if 'ok' not in rp:
                res.harness_errors.append('driver: %r' % (rp,))
                break
            m = rp['ok']
            res.corr_checked += 1
            for kind in ('simpleH', 'fullH', 'plain'):
                for src, out in obs[kind]:
                    if out != m[kind]:
                        res.corr_mismatch.append({'case': {'value': v, 'form': src}, 'impl': out,
                                                  'model': m[kind], 'diff': kind})
            if m['unesc'] != v or m['escape'] != html.escape(v, True):
                res.corr_mismatch.append({'case': {'value': v}, 'impl': html.escape(v, True),
                                          'model': m, 'diff': 'model escape/unescape5 vs html module'})

    # non-string values: inserted as the escaped str() form
    others = [0, 7, -3, 2.5, None, True, (1, '<'), ['&'], {'a': '"'}, Obj("<o'bj>"), Obj('plain'),
              ValueError("<bad 'value'>"), KeyError('k<'), Exception(), Exception('a', '<b>')]
    from DocumentTemplate.ustr import ustr
    for v in others:
        s = ustr(v)
        for syn, src in SIMPLE_FORMS + FULL_FORMS:
            out = render(syn, src, v)
            res.evaluations += 1
            if 'null=""' in src and (not v and v != 0):
                continue
            if out != html.escape(s, True):
                res.oracle_fail.append({'case': {'value': repr(v), 'form': src},
                                        'what': 'output %r, expected %r' % (out, html.escape(s, True))})
        res.count('nonstring_values')

    # bytes values in the template's encoding
    texts = ['plain', 'a<b', "it's", 'é<', 'ſ&', '€"', 'x\U0001F600>', 'Ω', '\xff<\xe9']
    for _ in range(200 if tier == 'quick' else 4000):
        texts.append(''.join(r.choice(['<', '&', "'", '"', '>', 'a', 'é', 'ÿ', '€', 'Ω', '\U0001F600'])
                             for _ in range(r.randint(1, 6))))
    for enc in ('utf-8', 'latin-1', 'cp1252', 'utf-16'):
        for t in texts:
            try:
                b = t.encode(enc)
            except UnicodeEncodeError:
                continue
            want = html.escape(t, True)
            for syn, src in SIMPLE_FORMS + FULL_FORMS + NESTED_FORMS:
                if syn == 'epfs' and enc == 'utf-16':
                    pass
                out = render(syn, src, b, encoding=enc)
                res.evaluations += 1
                res.count('bytes_' + enc)
                if out != want:
                    full = (syn, src) in FULL_FORMS
                    try:
                        same_latin1 = b.decode('latin-1') == t
                    except Exception:
                        same_latin1 = False
                    if full and not same_latin1:
                        # full-path html_quote decodes bytes as Latin-1 whatever the template encoding
                        res.known_hits.setdefault('C03-bytes-fullpath', {'text': t, 'encoding': enc, 'form': src,
                                                                         'output': repr(out)})
                    else:
                        res.oracle_fail.append({'case': {'bytes_of': t, 'encoding': enc, 'form': src},
                                                'what': 'output %r, expected %r' % (out, want)})
            if any(c in t for c in SPECIALS):
                res.nt(('bytes', enc, t))
    check_options(res, tier, common.rng('C03-options'))
    check_scenes(res, tier, common.rng('C03-scenes'))
    res.partial.append('option combinations and scenes are decided by the oracle on the real code only (no model '
                       'counterpart); html_quote + url_unquote(_plus) on values containing %, and comma insertion on '
                       'values with four digits in a row, are left to C15 (finding C15-double-unquote)')
    res.partial.append('bytes through the full Var.render path (html_quote + another option, fmt=html-quote) are '
                       'decoded as Latin-1: known finding C03-bytes-fullpath; theorems cover str values and the '
                       'simple-form bytes path is tied by correspondence/oracle only')
    res.assumptions += ['html.escape / html.unescape (standard library) are the reference for "standard HTML '
                        'escaping"; the model\'s escape table is checked against the running Python by '
                        'gen_escape_table']


def search_more(res, tier):
    found = []
    for c in SPECIALS + 'a':
        for v in (c, 'x' + c, c + c):
            for syn, src in SIMPLE_FORMS + FULL_FORMS:
                out = render(syn, src, v)
                if out != html.escape(v, True):
                    found.append({'case': {'value': v, 'form': src, 'syntax': syn},
                                  'what': 'output %r, expected %r' % (out, html.escape(v, True))})
    return found


def replay(path):
    with open(path) as f:
        d = json.load(f)
    c = d['first']['case']
    syn = c.get('syntax', 'html')
    if 'scene' in c:
        # a fresh template object, the earlier renderings in order, then the failing one
        t = fresh_template(syn, c['scene'])
        for h in c.get('history', []):
            render_scene(t, h)
        out = render_scene(t, c['data'])
        print(c['scene'])
        print(repr(out), 'expected', repr(c['expected']))
        return 0 if out == c['expected'] else 1
    v = make_value(c.get('value'))
    if 'accept' in c:
        out = render(syn, c['form'], v)
        print(repr(out), 'expected one of', c['accept'])
        return 0 if out in c['accept'] else 1
    out = render(syn, c['form'], v)
    print(repr(out), 'expected', repr(html.escape(v, True)))
    return 0 if out == html.escape(v, True) else 1
