"""C03 — html_quote / &dtml-name; output is exactly the HTML-escaped value.

Correspondence: Lean `Quote.escape` / `renderSimpleH` / `renderFullH` / `renderSimple` /
`unescape5` vs the real insertion forms.  Oracle: html.escape / html.unescape from the
standard library on the implementation's output.

Besides single values through every spelling: (A) html quoting with every other option of the tag, (B) scenes (random
template bodies rendered repeatedly with changing data; every scene has an encoding, non-ASCII bytes subjects, the else /
handler / finally sections of the block tags and a sub-template of another encoding), (C) places (the insertion in every
section of every block tag x spellings x encodings x value histories; tied to the Lean interpreter for utf-8 / latin-1),
(D) compositions (one rendering made by several template objects with encodings, classes and provenances of their own).
"""
import html
import itertools
import json
import re
import urllib.parse

import common

SIMPLE_FORMS = [           # compile to the ('v', name, 'h') simple form
    ('html', '&dtml-x;'),
    ('html', '<dtml-var x html_quote>'),
    ('html', '<!--#var x html_quote-->'),
    ('html', '<dtml-var name=x html_quote>'),
    ('html', '<dtml-var expr="x" html_quote>'),
    ('html', '<dtml-var "x" html_quote>'),
    ('epfs', '%(x html_quote)s'),
    ('epfs', '%(var x html_quote)s'),
]
FULL_FORMS = [             # go through Var.render
    ('html', '<dtml-var x fmt=html-quote>'),
    ('html', '<dtml-var x html_quote missing="M">'),
    ('html', '<dtml-var x html_quote size=100000>'),
    ('html', '<dtml-var x html_quote etc="..." size=100000 null="">'),
    ('html', '&dtml.html_quote-x;'),
    ('html', '<dtml-var expr="x" fmt="html-quote">'),
    ('epfs', '%(x fmt=html-quote)s'),
    ('epfs', '%(x html_quote missing=M)s'),
    # fmt=html-quote together with options that are identities for these values
    ('html', '<dtml-var x fmt=html-quote null="">'),
    ('html', '<dtml-var x fmt=html-quote missing="M">'),
    ('html', '<dtml-var x fmt=html-quote size=100000>'),
    ('html', '<dtml-var x fmt="html-quote" etc="..." size=100000>'),
    ('html', '<!--#var x fmt=html-quote missing=""-->'),
    ('epfs', '%(x fmt=html-quote missing=M)s'),
    ('html', '<dtml-var name=x missing=M html_quote>'),
]
# the same insertion nested in blocks (the tag objects of nested blocks are built by a sub-template)
NESTED_FORMS = [
    ('html', '<dtml-if one><dtml-in seq>&dtml-x;</dtml-in></dtml-if>'),
    ('html', '<dtml-in seq><dtml-in seq><dtml-var x html_quote></dtml-in></dtml-in>'),
    ('html', '<dtml-with o><dtml-let z=one>&dtml-x;</dtml-let></dtml-with>'),
    ('html', '<dtml-if zero>no<dtml-else><dtml-try><dtml-var x html_quote><dtml-except>E</dtml-try></dtml-if>'),
    ('html', '<dtml-unless zero><dtml-in seq><dtml-in seq><dtml-if one>&dtml-x;</dtml-if></dtml-in></dtml-in></dtml-unless>'),
    ('epfs', '%(if one)[%(in seq)[%(x html_quote)s%(in)]%(if)]'),
]
PLAIN_FORMS = [
    ('html', '<dtml-var x>'),
    ('html', '<!--#var x-->'),
    ('html', '<dtml-var expr="x">'),
    ('html', '<dtml-var x missing="M">'),
    ('epfs', '%(x)s'),
]
SPECIALS = '&<>"\''
_cache = {}


def template(syntax, src, encoding=None):
    key = (syntax, src, encoding)
    t = _cache.get(key)
    if t is None:
        from DocumentTemplate import HTML, String
        cls = HTML if syntax == 'html' else String
        t = cls(src, encoding=encoding) if encoding else cls(src)
        t.cook()
        _cache[key] = t
    return t


class _O:
    pass


def render(syntax, src, value, encoding=None):
    try:
        return template(syntax, src, encoding)(x=value, one=1, zero=0, seq=[1], o=_O())
    except Exception as e:  # noqa
        return ('EXC', type(e).__name__, str(e)[:80])


class Obj:
    def __init__(self, s):
        self.s = s

    def __str__(self):
        return self.s


def gen_values(tier, r):
    vals = []
    # every single code point (quick: a dense prefix + specials + random rest)
    if tier == 'thorough':
        cps = [c for c in range(0x110000) if not 0xD800 <= c <= 0xDFFF]
    else:
        cps = list(range(0, 0x3000)) + [r.choice([r.randrange(0x3000, 0xD800), r.randrange(0xE000, 0x110000)])
                                        for _ in range(6000)]
    for c in cps:
        vals.append(chr(c))
    # values of every order of magnitude (a whole document is a legitimate value): sizes around the powers of two
    # (at most 2^14 + 1 characters here: some spellings of this part say size=100000, which has to stay an identity for
    # the escaped text; the bigger ones are in check_sizes)
    small = [n for n in size_ladder('quick') if n <= 2 ** 14 + 1]
    for n in r.sample(small, 10 if tier == 'quick' else len(small)):
        vals.append(big_text(gen_big(r, n)))
    alpha = list(SPECIALS) * 3 + ['a', 'Z', ' ', '\n', ';', '#', 'x', '2', '7', 'amp', 'lt', 'é', 'ſ', '€',
                                  ' ', '\U0001F600', '&amp;', '&#x27;', '&lt', '\x00', '0']
    n = 6000 if tier == 'quick' else 120000
    for _ in range(n):
        k = r.choice([0, 1, 2, 3, 5, 8, 13, 30])
        vals.append(''.join(r.choice(alpha) for _ in range(k)))
    return vals


# ----------------------------------------------------------------------------------------------
# (A) html_quote together with EVERY other option of the var tag
#
# The expected text is computed by a reference pipeline written from the tag's documentation
# (DT_Var doc string): the custom / special format (fmt=) is applied first, the valueless
# "string manipulation" attributes transform the value "after formatting has been applied"
# (their mutual order is not documented: every order is accepted), truncation (size/etc) comes
# last, null= only replaces null values and missing= only missing names.  Nothing below looks at
# the implementation's tables.

def _esc(s):
    return html.escape(s, True)


def _short(x):
    s = repr(x)
    return s if len(s) <= 300 else '%s...%s (%d characters)' % (s[:150], s[-100:], len(x))


def _sql(s):
    for ch in '\x00\x1a\r':
        s = s.replace(ch, '')
    return s.replace("'", "''")


def _br(s):
    return s.replace('\r', '').replace('\n', '<br />\n')


def _ident(s):
    return s


REF_FLAGS = {
    'html_quote': _esc,
    'lower': str.lower, 'upper': str.upper, 'capitalize': str.capitalize,
    'spacify': lambda s: s.replace('_', ' '),
    'sql_quote': _sql,
    'url_quote': urllib.parse.quote, 'url_quote_plus': urllib.parse.quote_plus,
    'url_unquote': urllib.parse.unquote, 'url_unquote_plus': urllib.parse.unquote_plus,
    'newline_to_br': _br,
    'thousands_commas': _ident,       # only used on texts without a run of four digits (guarded below)
}
OTHER_FLAGS = sorted(k for k in REF_FLAGS if k != 'html_quote')
REF_FMTS = {
    # special formats
    'sql-quote': _sql, 'html-quote': _esc,
    'url-quote': urllib.parse.quote, 'url-quote-plus': urllib.parse.quote_plus,
    'url-unquote': urllib.parse.unquote, 'url-unquote-plus': urllib.parse.unquote_plus,
    'multi-line': _br, 'comma-numeric': _ident, 'collection-length': lambda s: str(len(s)),
    # custom formats = a method of the value
    'strip': str.strip, 'lower': str.lower, 'upper': str.upper, 'title': str.title, 'swapcase': str.swapcase,
    # C-style formats
    '%s': _ident, '[%s]': lambda s: '[%s]' % s, '%-3s': lambda s: '%-3s' % s,
}
FMT_NAMES = sorted(REF_FMTS)
UNQUOTERS = {'url_unquote', 'url_unquote_plus'}
URLQUOTERS = {'url_quote', 'url_quote_plus', 'url-quote', 'url-quote-plus'}
FOUR_DIGITS = re.compile(r'[0-9]{4}')
BIG = 100000


def gen_spec(r):
    """one var tag that asks for html quoting (html_quote attribute, fmt=html-quote, or both) together with
    0-3 other options; returned as a dict that `spec_source` spells and `spec_accept` predicts"""
    spec = {'flags': [], 'fmt': None, 'size': None, 'etc': None, 'null': None, 'missing': None}
    how = r.choice(['attr', 'attr', 'attr', 'attr', 'fmt', 'both'])
    if how in ('attr', 'both'):
        spec['flags'].append('html_quote')
    if how in ('fmt', 'both'):
        spec['fmt'] = 'html-quote'
    k = r.choice([1, 1, 1, 2, 2, 3])
    for opt in r.sample(['flag', 'flag2', 'fmt', 'size', 'null', 'missing'], k):
        if opt in ('flag', 'flag2'):
            f = r.choice(OTHER_FLAGS)
            if f not in spec['flags']:
                spec['flags'].append(f)
        elif opt == 'fmt' and spec['fmt'] is None:
            spec['fmt'] = r.choice(FMT_NAMES)
        elif opt == 'size':
            spec['size'] = r.choice([BIG, BIG, 'tight', 'tight+1'])
            if r.random() < 0.5:
                spec['etc'] = r.choice(['...', '', '<etc>'])
        elif opt == 'null':
            spec['null'] = r.choice(['', 'N', '<null>'])
        elif opt == 'missing':
            spec['missing'] = r.choice(['M', '', '<m>'])
    spec['subject'] = r.choice(['x', 'x', 'name=x', 'name="x"', 'expr="x"', '"x"'])
    spec['syntax'] = r.choice(['dtml', 'dtml', 'dtml', 'ssi', 'epfs', 'entity'])
    spec['order'] = r.random()
    return spec


def spec_accept(spec, text):
    """the set of outputs the documentation allows for the string `text`, or None when the case lies in the
    territory of a known finding of another property / outside the reference pipeline"""
    flags = spec['flags']
    fmt = spec['fmt']
    if spec['null'] is not None and not text:
        return None                                        # a null value is replaced by the null text
    used = set(flags) | ({fmt} if fmt else set())
    if used & UNQUOTERS and ('%' in text or used & URLQUOTERS):
        return None                                        # C15-double-unquote: the attribute unquotes twice
    s = text
    stages = [s]
    if fmt:
        s = REF_FMTS[fmt](s)
        stages.append(s)
    outs = set()
    flag_sets = [flags]
    if fmt == 'html-quote' and 'html_quote' in flags:
        # asked for twice: the documented pipeline escapes twice; escaping once is what the property says
        # about either option -- both are accepted, a raw special never is
        flag_sets.append([f for f in flags if f != 'html_quote'])
    for fl in flag_sets:
        for perm in itertools.permutations(fl):
            t = s
            for f in perm:
                t = REF_FLAGS[f](t)
                stages.append(t)
            outs.add(t)
    if ('thousands_commas' in used or 'comma-numeric' in used) and any(FOUR_DIGITS.search(t) for t in stages):
        return None                                        # comma insertion itself is C15's subject
    return outs


def spec_source(spec, accept):
    """(syntax, source) of the tag; `accept` is needed for the tight sizes (truncation must stay an identity)"""
    attrs = list(spec['flags'])
    named = []
    fmt = spec['fmt']
    syntax = spec['syntax']
    if fmt is not None:
        if '%' in fmt or '[' in fmt:
            if syntax == 'epfs':
                syntax = 'dtml'
            named.append('fmt="%s"' % fmt)
        else:
            named.append(('fmt=%s' if spec['order'] < 0.5 else 'fmt="%s"') % fmt)
    if spec['size'] is not None:
        longest = max(len(a) for a in accept)
        size = {BIG: BIG, 'tight': longest, 'tight+1': longest + 1}[spec['size']]
        named.append('size=%d' % size)
        if spec['etc'] is not None:
            named.append('etc="%s"' % spec['etc'])
    if spec['null'] is not None:
        named.append('null="%s"' % spec['null'])
    if spec['missing'] is not None:
        named.append('missing="%s"' % spec['missing'])
    if syntax == 'entity':
        if named or not spec['flags'] or spec['subject'] != 'x':
            syntax = 'dtml'
        elif spec['flags'] == ['html_quote'] and spec['order'] < 0.5:
            return 'html', '&dtml-x;'
        else:
            fl = list(spec['flags'])
            common.rng('C03-ent-%r' % (spec['order'],)).shuffle(fl)
            return 'html', '&dtml.%s-x;' % '.'.join(fl)
    rr = common.rng('C03-order-%r' % (spec['order'],))
    rest = attrs + named
    rr.shuffle(rest)
    subject = spec['subject']
    if subject in ('x', '"x"') or rr.random() < 0.5 or not named:
        parts = [subject] + rest
    else:
        # name= / expr= may stand anywhere, but a valueless attribute cannot come first
        rest.insert(rr.randint(0, len(rest)), subject)
        if '=' not in rest[0]:
            first = next(i for i, a in enumerate(rest) if '=' in a)
            rest.insert(0, rest.pop(first))
        parts = rest
    body = ' '.join(parts)
    if syntax == 'ssi':
        return 'html', '<!--#var %s-->' % body
    if syntax == 'epfs':
        if '"x"' == subject:
            body = body.replace('"x"', 'expr="x"', 1)
        # the EPFS tag grammar wants a bare word first: the variable itself or the tag name
        return 'epfs', '%%(%s%s)s' % ('var ' if spec['order'] < 0.3 or not body.startswith('x ') else '', body)
    return 'html', '<dtml-var %s>' % body


OPTION_ALPHA = list(SPECIALS) * 3 + ['a', 'Z', 'Ab', '_', ' ', '\n', '\r', '\x1a', ';', '+', '%3C', '%26', '%',
                                     '7', '123', '.', 'é', 'ſ', 'ǆ', '€', '\U0001F600', '&amp;', '&#x27;', "''"]


def gen_option_values(tier, r):
    vals = ['<b>', 'a & b', '"x"', "Moe's <Bar>", '<script>alert("x")</script>', '>€<\U0001f600&', 'plain',
            "it's", '%3Cb%3E', 'A_B<c>', '1234567<', "'", 'x\r\n<y>']
    for _ in range(3000 if tier == 'quick' else 40000):
        k = r.choice([1, 2, 3, 5, 8, 13])
        vals.append(''.join(r.choice(OPTION_ALPHA) for _ in range(k)))
    return vals


class UrlObj:
    def __init__(self, u):
        self.u = u

    def absolute_url(self):
        return self.u

    def __str__(self):
        return 'not the url'


def check_options(res, tier, r):
    """html_quote with every other option of the tag, every attribute order and spelling"""
    vals = gen_option_values(tier, r)
    per_value = 4 if tier == 'quick' else 8
    first = True
    for v in vals:
        for _ in range(per_value):
            spec = gen_spec(r)
            accept = spec_accept(spec, v)
            if accept is None:
                res.count('opt_outside_reference')
                continue
            syn, src = spec_source(spec, accept)
            out = render(syn, src, v)
            res.evaluations += 1
            res.count('opt_cases')
            res.count('opt_other_options=%d' % (len(spec['flags']) - ('html_quote' in spec['flags']) +
                                                sum(spec[k] is not None for k in ('size', 'null', 'missing')) +
                                                (spec['fmt'] not in (None, 'html-quote'))))
            if spec['fmt']:
                res.count('opt_fmt=' + spec['fmt'])
            for f in spec['flags']:
                res.count('opt_attr=' + f)
            if len(accept) > 1:
                res.count('opt_order_dependent')
            if out not in accept:
                res.oracle_fail.append({'case': {'value': v, 'form': src, 'syntax': syn, 'accept': sorted(accept)},
                                        'what': 'output %r; the documented pipeline (fmt, then the attributes in '
                                                'any order, then size) gives %r' % (out, sorted(accept))})
            elif accept == {_esc(v)} and html.unescape(out) != v:
                res.oracle_fail.append({'case': {'value': v, 'form': src, 'syntax': syn, 'accept': sorted(accept)},
                                        'what': 'html.unescape(output) != value'})
            if any(c in v for c in SPECIALS):
                res.nt(('opt', src, v))
            if first and len(spec['flags']) > 1:
                res.sample({'value': v, 'form': src, 'output': out, 'accepted': sorted(accept)})
                first = False
    # non-string values: the attributes work on the str() form
    for v in [7, -3.5, (1, '<'), ['&', "'"], Obj("<o'bj>"), Obj('A_b"'), ValueError("<bad 'value'>")]:
        for _ in range(30 if tier == 'quick' else 300):
            spec = gen_spec(r)
            if spec['fmt'] not in (None, 'html-quote'):
                spec['fmt'] = None
                if 'html_quote' not in spec['flags']:
                    spec['flags'].append('html_quote')
            accept = spec_accept(spec, str(v))
            if accept is None:
                continue
            syn, src = spec_source(spec, accept)
            out = render(syn, src, v)
            res.evaluations += 1
            res.count('opt_nonstring_cases')
            if out not in accept:
                res.oracle_fail.append({'case': {'value': describe(v), 'form': src, 'syntax': syn,
                                                 'accept': sorted(accept)},
                                        'what': 'output %r, expected one of %r' % (out, sorted(accept))})
    # the url attribute: the text inserted is the object's absolute_url()
    for u in ['http://h/?a=1&b=<2>', "http://h/it's", 'http://h/plain', 'http://h/"q"?x=>']:
        for syn, src in [('html', '<dtml-var x url html_quote>'), ('html', '<dtml-var x html_quote url>'),
                         ('html', '<dtml-var name=x url html_quote missing=M>'),
                         ('html', '<dtml-var expr="x" url html_quote>'),
                         ('html', '<dtml-var x url fmt=html-quote>'), ('html', '&dtml.url.html_quote-x;'),
                         ('html', '<!--#var x url html_quote size=100000-->'),
                         ('epfs', '%(x url html_quote)s')]:
            out = render(syn, src, UrlObj(u))
            res.evaluations += 1
            res.count('opt_url_cases')
            if out != _esc(u):
                res.oracle_fail.append({'case': {'value': {'t': 'urlobj', 'v': u}, 'form': src, 'syntax': syn,
                                                 'accept': [_esc(u)]},
                                        'what': 'output %r, expected %r' % (out, _esc(u))})


# ----------------------------------------------------------------------------------------------
# (B) the quoted insertion inside a larger template body: what is inserted before / after it in the SAME
# rendering (tainted values, values that need no quoting, numbers, bytes, None, other tags, blocks, loop
# iterations) and what the same compiled template inserted in EARLIER renderings must not matter.
# A scene is a tree of pieces; the expected text of every piece is known from the property (quoted: html.escape
# of the string form), from C04 (tainted values are always escaped), from Python (str of a number) or is literal.

Q_FORMS = [            # § = the variable
    '&dtml-§;', '<dtml-var § html_quote>', '<!--#var § html_quote-->', '<dtml-var name=§ html_quote>',
    '<dtml-var expr="§" html_quote>', '<dtml-var "§" html_quote>',
    '<dtml-var § fmt=html-quote>', '<dtml-var § html_quote missing="M">', '<dtml-var § html_quote size=100000>',
    '&dtml.html_quote-§;', '<dtml-var expr="§" fmt="html-quote">', '<dtml-var name=§ missing=M html_quote>',
]
P_FORMS = ['<dtml-var §>', '<!--#var §-->', '<dtml-var expr="§">', '<dtml-var § missing="M">', '<dtml-var name=§>',
           '<dtml-var § null="N">']
Q_FORMS_E = ['%(§ html_quote)s', '%(var § html_quote)s', '%(§ fmt=html-quote)s', '%(§ html_quote missing=M)s']
P_FORMS_E = ['%(§)s', '%(var §)s', '%(§ missing=M)s']
BLOCKS = [('<dtml-if one>', '</dtml-if>', 1), ('<dtml-in seq>', '</dtml-in>', 1), ('<dtml-in seq2>', '</dtml-in>', 2),
          ('<dtml-with o>', '</dtml-with>', 1), ('<dtml-let z=one>', '</dtml-let>', 1),
          ('<dtml-unless zero>', '</dtml-unless>', 1), ('<dtml-try>', '<dtml-except>E</dtml-try>', 1),
          ('<dtml-if zero>no<dtml-else>', '</dtml-if>', 1), ('<dtml-if zero>no<dtml-elif one>', '<dtml-else>no</dtml-if>', 1),
          ('<dtml-in seq2 reverse>', '</dtml-in>', 2), ('<dtml-if zero>', '</dtml-if>', 0),
          ('<dtml-try>', '<dtml-finally></dtml-try>', 1),
          # the OTHER sections of the block tags: the else block of a loop (empty sequence, with and without batching;
          # previous / next form without a previous / next batch), handler, else and finally sections of dtml-try
          ('<dtml-in empty>no<dtml-else>', '</dtml-in>', 1), ('<dtml-in empty size=2>no<dtml-else>', '</dtml-in>', 1),
          ('<dtml-in seq2 previous size=1 start=1>no<dtml-else>', '</dtml-in>', 1),
          ('<dtml-in seq2 next size=5>no<dtml-else>', '</dtml-in>', 1),
          ('<dtml-in seq2 next size=1>', '<dtml-else>no</dtml-in>', 1),
          ('<dtml-in empty sort=k>no<dtml-else>', '</dtml-in>', 1),
          ('<dtml-try><dtml-raise KeyError>k</dtml-raise><dtml-except>', '</dtml-try>', 1),
          ('<dtml-try><dtml-except>E<dtml-else>', '</dtml-try>', 1), ('<dtml-try><dtml-finally>', '</dtml-try>', 1)]
BLOCKS_E = [('%(if one)[', '%(if)]', 1), ('%(in seq)[', '%(in)]', 1), ('%(in seq2)[', '%(in)]', 2),
            ('%(with o)[', '%(with)]', 1), ('%(unless zero)[', '%(unless)]', 1),
            ('%(in empty)[no%(else)[', '%(in)]', 1), ('%(if zero)[no%(else)[', '%(if)]', 1),
            ('%(try)[%(except)[E%(else)[', '%(try)]', 1)]
# a bytes value with non-ASCII characters (in the scene template's encoding) is inserted by the simple quoting forms only:
# the full Var.render path decodes bytes as Latin-1 (known finding C03-bytes-fullpath)
N_SIMPLE_Q = 6
N_SIMPLE_Q_E = 2
SCENE_ENCODINGS = [None, None, 'utf-8', 'latin-1', 'cp1252']
LITERALS = ['|', ';', 'lit', '<b>', '&amp;', '"', "'", '/']
EMPTY_TAGS = ['<dtml-call "1">', '<dtml-comment>x</dtml-comment>', '<dtml-var nothing missing="">']
# the variables a scene may insert: subjects (dense in specials) and by-standers
SUBJECTS = ['x', 'y']
BYSTANDERS = ['t', 't2', 'p', 'n', 'b', 'none', 'x', 'y']


def gen_scene(r, epfs, depth=0):
    """list of pieces: ('lit', text) | ('ins', source, var, quoted) | ('blk', open, close, times, [pieces])"""
    qf, pf, blocks = (Q_FORMS_E, P_FORMS_E, BLOCKS_E) if epfs else (Q_FORMS, P_FORMS, BLOCKS)
    pieces = []
    n = r.randint(2, 6) if depth == 0 else r.randint(1, 4)
    for _ in range(n):
        c = r.random()
        if c < 0.10:
            pieces.append(('ins', r.choice(qf[:N_SIMPLE_Q_E if epfs else N_SIMPLE_Q]).replace('§', 'bz'), 'bz', True))
        elif c < 0.40:
            var = r.choice(SUBJECTS)
            pieces.append(('ins', r.choice(qf).replace('§', var), var, True))
        elif c < 0.70:
            var = r.choice(BYSTANDERS)
            quoted = r.random() < 0.4
            pieces.append(('ins', r.choice(qf if quoted else pf).replace('§', var), var, quoted))
        elif c < 0.75 and not epfs:
            # a sub-template inserted by name: rendered in this namespace, its text inserted as is
            sub = r.choice(['sub', 'sub2'])
            pieces.append(('ins', r.choice(['<dtml-var §>', '<!--#var §-->', '<dtml-var name=§>',
                                            '<dtml-var "§(None, _)">']).replace('§', sub), sub, False))
        elif c < 0.87 and depth < 2:
            o, cl, times = r.choice(blocks)
            pieces.append(('blk', o, cl, times, gen_scene(r, epfs, depth + 1)))
        elif c < 0.92 and not epfs:
            pieces.append(('lit0', r.choice(EMPTY_TAGS)))
        else:
            pieces.append(('lit', r.choice(LITERALS[:3] if epfs else LITERALS)))
        if r.random() < 0.5:
            pieces.append(('lit', '|'))
    if depth == 0 and not any(p[0] == 'ins' and p[3] for p in pieces):
        pieces.append(('ins', qf[0].replace('§', 'x'), 'x', True))
    return pieces


def scene_source(pieces):
    out = []
    for p in pieces:
        if p[0] in ('lit', 'lit0', 'ins'):
            out.append(p[1])
        else:
            out.append(p[1] + scene_source(p[4]) + p[2])
    return ''.join(out)


_sub = []


def sub_template():
    """a compiled template handed in as a value: inserting it renders it in the caller's namespace"""
    if not _sub:
        from DocumentTemplate import HTML
        _sub.append(HTML('[&dtml-x;<dtml-var t>]'))
    return _sub[0]


_sub2 = {}


def sub2_template(enc):
    """a second template object with an encoding of its OWN (never the scene's): it inserts bz2, a bytes value in that
    encoding, so one rendering is put together by template objects of different encodings"""
    if enc not in _sub2:
        from DocumentTemplate import HTML
        _sub2[enc] = HTML('(&dtml-bz2;<dtml-var bz2 html_quote>)', encoding=enc)
    return _sub2[enc]


def text_of(d, data=None):
    """the string form of a described value"""
    k = d['t']
    if k == 'sub':
        return '[' + _esc(text_of(data['x'])) + (_esc if data['t']['t'] == 'tainted' else _ident)(text_of(data['t'])) + ']'
    if k == 'sub2':
        return '(' + _esc(text_of(data['bz2'])) * 2 + ')'
    if k in ('str', 'tainted', 'obj'):
        return d['v']
    if k == 'bytes':
        return d['v']                  # ASCII only
    if k == 'bytes8':
        return d['v']                  # the text the bytes stand for in the encoding d['enc']
    if k == 'int':
        return str(d['v'])
    if k == 'none':
        return 'None'
    raise ValueError(k)


def describe(v):
    if isinstance(v, str):
        return v
    if isinstance(v, Obj):
        return {'t': 'obj', 'v': v.s}
    if isinstance(v, UrlObj):
        return {'t': 'urlobj', 'v': v.u}
    return {'t': 'py', 'v': repr(v)}


def make_value(d):
    if not isinstance(d, dict):
        return d
    k = d['t']
    if k == 'py':
        return eval(d['v'], {'__builtins__': {}, 'ValueError': ValueError, 'KeyError': KeyError,
                             'Exception': Exception})
    if k == 'sub':
        return sub_template()
    if k == 'sub2':
        return sub2_template(d['enc'])
    if k == 'bytes8':
        return d['v'].encode(d['enc'])
    if k == 'big':
        v = big_text(d)
        return v.encode(d['enc']) if d.get('enc') else Obj(v) if d.get('obj') else v
    if k == 'str':
        return d['v']
    if k == 'tainted':
        from AccessControl.tainted import TaintedString
        return TaintedString(d['v'])
    if k == 'obj':
        return Obj(d['v'])
    if k == 'bytes':
        return d['v'].encode('ascii')
    if k == 'int':
        return d['v']
    if k == 'none':
        return None
    if k == 'urlobj':
        return UrlObj(d['v'])
    raise ValueError(k)


def scene_expected(pieces, data):
    out = []
    for p in pieces:
        if p[0] == 'lit':
            out.append(p[1])
        elif p[0] == 'lit0':
            pass
        elif p[0] == 'ins':
            d = data[p[2]]
            s = text_of(d, data)
            if 'null="N"' in p[1] and (d['t'] == 'none' or (d['t'] in ('str', 'bytes') and d['v'] == '')):
                s = 'N'                 # None and '' are null values (false, not zero)
            elif p[3] or d['t'] == 'tainted':
                s = _esc(s)
            out.append(s)
        else:
            out.append(scene_expected(p[4], data) * p[3])     # a loop body once per element, in order
    return ''.join(out)


SCENE_ALPHA = list(SPECIALS) * 3 + ['a', 'Z', ' ', ';', 'é', '€', '\U0001F600', '&amp;', '&#x27;', 'b>', '<i']


BYTES8_ALPHA = list(SPECIALS) * 2 + ['a', ' ', ';', 'é', 'ü', 'ß', 'ÿ', 'Ä', '&amp;']     # encodable everywhere


def gen_data(r, prev=None, enc=None):
    def bytes8(e):
        while True:
            s = ''.join(r.choice(BYTES8_ALPHA) for _ in range(r.choice([1, 2, 3, 5, 8])))
            if any(ord(ch) > 127 for ch in s) or r.random() < 0.15:
                return {'t': 'bytes8', 'v': s, 'enc': e}

    def special_text():
        while True:
            s = ''.join(r.choice(SCENE_ALPHA) for _ in range(r.choice([1, 2, 3, 5, 8])))
            if any(c in s for c in SPECIALS):
                return s

    def subject():
        c = r.random()
        s = special_text()
        if c < 0.70:
            return {'t': 'str', 'v': s}
        if c < 0.80:
            return {'t': 'tainted', 'v': s if '<' in s else '<' + s}
        if c < 0.88:
            return {'t': 'obj', 'v': s}
        if c < 0.94:
            return {'t': 'bytes', 'v': ''.join(ch for ch in s if ord(ch) < 128) or '<'}
        return {'t': 'str', 'v': r.choice(['plain', '', '0'])}

    def maybe_tainted(p):
        s = special_text()
        if r.random() < p:
            return {'t': 'tainted', 'v': s if '<' in s else '<' + s}
        return {'t': 'str', 'v': r.choice(['plain', 'ok', s])}

    d = {'x': subject(), 'y': subject(),
         't': maybe_tainted(0.8), 't2': maybe_tainted(0.5),
         'p': {'t': 'str', 'v': r.choice(['plain', 'p', 'no specials', 'é€'])},
         'n': {'t': 'int', 'v': r.choice([0, 7, -3, 10 ** 6])},
         'b': {'t': 'bytes', 'v': r.choice(['by', '<by>', "b'&", 'plain'])},
         'none': {'t': 'none'}, 'sub': {'t': 'sub'}}
    own = enc or 'utf-8'                  # a template created without an encoding is a UTF-8 template
    other = r.choice([e for e in ('utf-8', 'latin-1', 'cp1252', 'utf-16') if e != own])
    d['bz'] = bytes8(own)
    d['bz2'] = bytes8(other)
    d['sub2'] = {'t': 'sub2', 'enc': other}
    if prev is not None and r.random() < 0.3:
        # the same subject again after other data went through the template
        d['x'] = prev['x']
    return d


def render_scene(t, data):
    kw = {k: make_value(d) for k, d in data.items()}
    try:
        return t(one=1, zero=0, seq=[1], seq2=[1, 2], empty=[], o=_O(), **kw)
    except Exception as e:  # noqa
        return ('EXC', type(e).__name__, str(e)[:80])


def fresh_template(syntax, src, encoding=None):
    from DocumentTemplate import HTML, String
    cls = HTML if syntax == 'html' else String
    return cls(src, encoding=encoding) if encoding else cls(src)


def check_scenes(res, tier, r):
    n_scenes = 1500 if tier == 'quick' else 12000
    sampled = False
    for i in range(n_scenes):
        epfs = i % 5 == 4
        syntax = 'epfs' if epfs else 'html'
        pieces = gen_scene(r, epfs)
        src = scene_source(pieces)
        enc = r.choice(SCENE_ENCODINGS)
        t = fresh_template(syntax, src, enc)
        res.count('scene_encoding=%s' % enc)
        history = []
        data = None
        for k in range(r.choice([2, 4, 6])):
            data = gen_data(r, data, enc)
            want = scene_expected(pieces, data)
            out = render_scene(t, data)
            if isinstance(out, bytes):
                # a rendering that consists of ONE piece returns that piece as it is (C19: only a rendering of more than
                # one piece is text): an inserted bytes value next to nothing but empty pieces comes back as bytes
                res.count('scene_single_bytes_piece')
                out = out.decode('ascii', 'replace')
            res.evaluations += 1
            res.count('scene_renders')
            if data['t']['t'] == 'tainted' or data['t2']['t'] == 'tainted' or data['x']['t'] == 'tainted':
                res.count('scene_renders_with_tainted_value')
            if k:
                res.count('scene_rerenders_of_a_compiled_template')
            if out != want:
                res.oracle_fail.append({'case': {'scene': src, 'syntax': syntax, 'data': data, 'encoding': enc,
                                                 'history': list(history), 'expected': want},
                                        'what': 'output %r, expected %r (every piece: literal text verbatim, quoted '
                                                'and tainted insertions html.escape of the string form, others '
                                                'str())' % (out, want)})
                break
            history.append(data)
            res.nt(('scene', src, json.dumps(data, sort_keys=True)))
        res.count('scenes')
        res.count('scene_syntax=' + syntax)
        if not sampled and '<dtml-in' in src and '<dtml-var t' in src:
            res.sample({'scene': src, 'data': data, 'output': out})
            sampled = True



# ----------------------------------------------------------------------------------------------
# (C) PLACES: the quoted insertion in EVERY section of EVERY block tag (body / else of dtml-in in all its modes: plain,
# mapping, prefix, sorted, reversed, batched, previous / next with and without a neighbouring batch, empty sequence; the
# branches of if / elif / else / unless; with (plain, only, mapping); let; body / handler / else / finally of try; the
# message of raise; a sub-template; a comment; the body of dtml-tree), alone in its section (a one-piece section is handed
# on as it is) and between two literal pieces (a section of several pieces is joined), x every spelling of the
# insertion x every template encoding x every kind of value (text, bytes in the template's encoding, tainted text, an
# object), one compiled template rendered with all the values one after the other.
# The places are written once, as block trees of the interpreter model (proggen's JSON): `print_blocks` spells them, the
# Lean interpreter renders them (correspondence, utf-8 and latin-1 templates) and the table PLACE_EXPECT -- written by
# hand from the documentation of the tags -- says what surrounds the insertion and how often it is rendered.

HOLE = '@@HOLE@@'


def _var(n, hq=False, expr=False):
    return ['var', (['e', ['name', n]] if expr else ['n', n]), hq, None, None]


def _lit(t):
    return ['lit', t]


def place_blocks(H):
    """name -> blocks with the hole blocks H in the place"""
    n = [_lit('n')]
    kraise = [['raise', 'KeyError', None, [_lit('k')]]]
    return {
        'top': H,
        'if': [['cond', [[['n', 'one'], H]], None]],
        'if-expr': [['cond', [[['e', ['name', 'one']], H]], None]],
        'if-else': [['cond', [[['n', 'zero'], n]], H]],
        'elif': [['cond', [[['n', 'zero'], n], [['n', 'one'], H]], n]],
        'elif-else': [['cond', [[['n', 'zero'], n], [['e', ['name', 'zero']], n]], H]],
        'unless': [['unless', ['n', 'zero'], H]],
        'in': [['in', ['n', 'seq2'], {}, H, None]],
        'in-expr': [['in', ['e', ['name', 'seq2']], {}, H, n]],
        'in-else': [['in', ['n', 'empty'], {}, n, H]],
        'in-else-expr': [['in', ['e', ['name', 'empty']], {}, n, H]],
        'in-mapping': [['in', ['n', 'maps'], {'mapping': True}, H, None]],
        'in-mapping-else': [['in', ['n', 'empty'], {'mapping': True}, n, H]],
        'in-prefix': [['in', ['n', 'seq2'], {'prefix': 'pf'}, H, None]],
        'in-nopush': [['in', ['n', 'seq2'], {'noPush': True}, H, None]],
        'in-sort': [['inx', ['n', 'objs'], {}, {'sort': 'k'}, H, None]],
        'in-sort-else': [['inx', ['n', 'empty'], {}, {'sort': 'k'}, n, H]],
        'in-reverse': [['inx', ['n', 'seq2'], {}, {'reverse': True}, H, None]],
        'in-reverse-else': [['inx', ['n', 'empty'], {}, {'reverse': True}, n, H]],
        'in-size': [['inx', ['n', 'seq3'], {}, {'batch': {'size': 2}}, H, None]],
        'in-start': [['inx', ['n', 'seq3'], {}, {'batch': {'start': 2, 'size': 5}}, H, None]],
        'in-size-else': [['inx', ['n', 'empty'], {}, {'batch': {'size': 3}}, n, H]],
        'in-previous': [['inx', ['n', 'seq3'], {}, {'batch': {'size': 1, 'start': 2, 'previous': True}}, H, n]],
        'in-previous-else': [['inx', ['n', 'seq3'], {}, {'batch': {'size': 2, 'start': 1, 'previous': True}}, n, H]],
        'in-previous-else-empty': [['inx', ['n', 'empty'], {}, {'batch': {'size': 2, 'previous': True}}, n, H]],
        'in-next': [['inx', ['n', 'seq3'], {}, {'batch': {'size': 1, 'start': 1, 'next': True}}, H, n]],
        'in-next-else': [['inx', ['n', 'seq3'], {}, {'batch': {'size': 5, 'start': 1, 'next': True}}, n, H]],
        'in-next-else-empty': [['inx', ['n', 'empty'], {}, {'batch': {'size': 2, 'next': True}}, n, H]],
        'with': [['with', ['n', 'wobj'], False, False, H]],
        'with-only': [['with', ['n', 'wobj'], False, True, H]],
        'with-mapping': [['with', ['n', 'm0'], True, False, H]],
        'let': [['let', [['q', ['n', 'one']]], H]],
        'let-expr': [['let', [['q', ['e', ['name', 'one']]]], H]],
        'try': [['try', H, [['', [_lit('h')]]], None]],
        'try-else': [['try', [_lit('B')], [['', [_lit('h')]]], H]],
        'try-body-before-else': [['try', H, [['', [_lit('h')]]], [_lit('E')]]],
        'handler': [['try', kraise, [['', H]], None]],
        'handler-named': [['try', kraise, [['ValueError', [_lit('v')]], ['KeyError', H]], None]],
        'try-before-finally': [['tryfin', H, [_lit('F')]]],
        'finally': [['tryfin', [_lit('B')], H]],
        'raise-message': [['try', [['raise', 'ValueError', None, H]], [['', [_var('error_value')]]], None]],
    }


# name -> (text before, how often the place is rendered, text after); from the documentation of the tags: a branch /
# section is rendered once when it is the chosen one, a loop body once per element of the window (seq2 has two
# elements, seq3 three, objs two, maps two), the previous / next form once when there is such a batch and the else block
# otherwise, an empty sequence renders the else block, finally and else sections follow the body's output
PLACE_EXPECT = {
    'top': ('', 1, ''), 'if': ('', 1, ''), 'if-expr': ('', 1, ''), 'if-else': ('', 1, ''), 'elif': ('', 1, ''),
    'elif-else': ('', 1, ''), 'unless': ('', 1, ''),
    'in': ('', 2, ''), 'in-expr': ('', 2, ''), 'in-else': ('', 1, ''), 'in-else-expr': ('', 1, ''),
    'in-mapping': ('', 2, ''), 'in-mapping-else': ('', 1, ''), 'in-prefix': ('', 2, ''), 'in-nopush': ('', 2, ''),
    'in-sort': ('', 2, ''), 'in-sort-else': ('', 1, ''), 'in-reverse': ('', 2, ''), 'in-reverse-else': ('', 1, ''),
    'in-size': ('', 2, ''), 'in-start': ('', 2, ''), 'in-size-else': ('', 1, ''),
    'in-previous': ('', 1, ''), 'in-previous-else': ('', 1, ''), 'in-previous-else-empty': ('', 1, ''),
    'in-next': ('', 1, ''), 'in-next-else': ('', 1, ''), 'in-next-else-empty': ('', 1, ''),
    'with': ('', 1, ''), 'with-only': ('', 1, ''), 'with-mapping': ('', 1, ''), 'let': ('', 1, ''), 'let-expr': ('', 1, ''),
    'try': ('', 1, ''), 'try-else': ('B', 1, ''), 'try-body-before-else': ('', 1, 'E'), 'handler': ('', 1, ''),
    'handler-named': ('', 1, ''), 'try-before-finally': ('', 1, 'F'), 'finally': ('B', 1, ''), 'raise-message': ('', 1, ''),
}
# places the interpreter model / its printer does not spell: source text with the hole, (before, times, after) and how
# the result is observed: 'out' = the rendering, 'exc' = the value of the exception that leaves the rendering,
# 'frame' = the rendering of the same source with a literal in the hole, the literal replaced (dtml-tree: the table
# around the body is not this property's subject, the body is)
TEXT_PLACES = {
    'comment': ('<dtml-comment>' + HOLE + '</dtml-comment>', ('', 0, ''), 'out'),
    'raise-uncaught': ('<dtml-raise ValueError>' + HOLE + '</dtml-raise>', ('', 1, ''), 'exc'),
    'raise-uncaught-expr': ('<dtml-raise expr="cls">' + HOLE + '</dtml-raise>', ('', 1, ''), 'exc'),
    'in-sort_expr': ('<dtml-in objs sort_expr="\'k\'">' + HOLE + '</dtml-in>', ('', 2, ''), 'out'),
    'in-reverse_expr-else': ('<dtml-in empty reverse_expr="one">n<dtml-else>' + HOLE + '</dtml-in>', ('', 1, ''), 'out'),
    'in-size-by-name': ('<dtml-in seq3 size=two>' + HOLE + '</dtml-in>', ('', 2, ''), 'out'),
    'in-size-by-name-else': ('<dtml-in empty size=two start=one>n<dtml-else>' + HOLE + '</dtml-in>', ('', 1, ''), 'out'),
    'in-end': ('<dtml-in seq3 end=2>' + HOLE + '</dtml-in>', ('', 2, ''), 'out'),
    'in-orphan': ('<dtml-in seq3 size=2 orphan=0>' + HOLE + '<dtml-else>n</dtml-in>', ('', 2, ''), 'out'),
    'in-skip_unauthorized-else': ('<dtml-in empty skip_unauthorized>n<dtml-else>' + HOLE + '</dtml-in>', ('', 1, ''), 'out'),
    'in-previous-by-name-else': ('<dtml-in seq3 previous size=two start=one>n<dtml-else>' + HOLE + '</dtml-in>',
                                 ('', 1, ''), 'out'),
    'in-next-orphan-else': ('<dtml-in seq3 next size=2 orphan=2>n<dtml-else>' + HOLE + '</dtml-in>', ('', 1, ''), 'out'),
    'with-expr': ('<dtml-with expr="wobj">' + HOLE + '</dtml-with>', ('', 1, ''), 'out'),
    'let-two': ('<dtml-let q=one r="q + 1">' + HOLE + '</dtml-let>', ('', 1, ''), 'out'),
    'except-else-finally-less': ('<dtml-try><dtml-raise expr="cls">k</dtml-raise><dtml-except ValueError>' + HOLE +
                                 '<dtml-except>h</dtml-try>', ('', 1, ''), 'out'),
    'tree': ('<dtml-tree root>' + HOLE + '</dtml-tree>', None, 'frame'),
    'tree-sorted': ('<dtml-tree root sort=nid reverse>' + HOLE + '</dtml-tree>', None, 'frame'),
}
TEXT_PLACES_E = {
    'top': (HOLE, ('', 1, ''), 'out'),
    'if': ('%(if one)[' + HOLE + '%(if)]', ('', 1, ''), 'out'),
    'if-else': ('%(if zero)[n%(else)[' + HOLE + '%(if)]', ('', 1, ''), 'out'),
    'unless': ('%(unless zero)[' + HOLE + '%(unless)]', ('', 1, ''), 'out'),
    'in': ('%(in seq2)[' + HOLE + '%(in)]', ('', 2, ''), 'out'),
    'in-else': ('%(in empty)[n%(else)[' + HOLE + '%(in)]', ('', 1, ''), 'out'),
    'in-size-else': ('%(in empty size=2)[n%(else)[' + HOLE + '%(in)]', ('', 1, ''), 'out'),
    'in-previous-else': ('%(in seq3 previous size=2 start=1)[n%(else)[' + HOLE + '%(in)]', ('', 1, ''), 'out'),
    'in-next-else': ('%(in seq3 next size=5)[n%(else)[' + HOLE + '%(in)]', ('', 1, ''), 'out'),
    'with': ('%(with wobj)[' + HOLE + '%(with)]', ('', 1, ''), 'out'),
    'let': ('%(let q=one)[' + HOLE + '%(let)]', ('', 1, ''), 'out'),
    'try': ('%(try)[' + HOLE + '%(except)[h%(try)]', ('', 1, ''), 'out'),
    'handler': ('%(try)[%(raise KeyError)[k%(raise)]%(except)[' + HOLE + '%(try)]', ('', 1, ''), 'out'),
    'finally': ('%(try)[B%(finally)[' + HOLE + '%(try)]', ('B', 1, ''), 'out'),
}
PLACE_SIMPLE = ['&dtml-x;', '<dtml-var x html_quote>', '<dtml-var name=x html_quote>', '<dtml-var name="x" html_quote>',
                '<dtml-var expr="x" html_quote>', '<dtml-var "x" html_quote>', '<!--#var x html_quote-->']
PLACE_FULL = ['<dtml-var x fmt=html-quote>', '<dtml-var x html_quote missing="M">', '<dtml-var x html_quote size=100000>',
              '&dtml.html_quote-x;', '<dtml-var expr="x" fmt="html-quote">', '<dtml-var name=x missing=M html_quote>',
              '<dtml-var x html_quote null="">']
PLACE_SIMPLE_E = ['%(x html_quote)s', '%(var x html_quote)s', '%(name=x html_quote)s'][:2]
PLACE_FULL_E = ['%(x fmt=html-quote)s', '%(x html_quote missing=M)s']
PLACE_ENCODINGS = [None, 'utf-8', 'latin-1', 'cp1252', 'utf-16']
PLACE_MORE_ENCODINGS = ['utf-16-le', 'utf-16-be', 'utf-32', 'utf-32-le', 'utf-7', 'cp500', 'cp037', 'iso-2022-jp', 'hz',
                        'shift_jis', 'utf-8-sig', 'gb18030']
PLACE_TEXTS = ['Gr\xfc\xdfe <b>"M\xfcller" & \'S\xf6hne\'</b>', '\xe9<', '€"', "\xff&'", 'plain', '<', 'x\U0001F600>',
               '\xc4\xa4', '&amp;\xdf']
SENT_A, SENT_B = '{|', '|}'


class PNode:
    def __init__(self, nid, kids=()):
        self.nid = nid
        self.kids = list(kids)

    def tpValues(self):
        return self.kids

    def tpId(self):
        return self.nid

    def tpURL(self):
        return 'u' + self.nid


class PResp:
    def setCookie(self, k, v, **kw):
        pass


class KObj:
    def __init__(self, k, **kw):
        self.k = k
        self.__dict__.update(kw)


def place_namespace(x):
    import TreeDisplay  # noqa: F401  registers the dtml-tree tag
    ns = dict(x=x, one=1, two=2, zero=0, seq2=[1, 2], seq3=[KObj(2), KObj(1), KObj(3)], objs=[KObj(2), KObj(1)],
              empty=[], maps=[{'m': 1}, {'m': 2}], m0={'m': 1}, cls=ValueError,
              root=PNode('r', [PNode('a'), PNode('b')]), URL='http://h/t', REQUEST={}, RESPONSE=PResp())
    # the object of the with places has every name as an attribute: `with wobj only` hides the rest of the namespace
    ns['wobj'] = w = KObj(0, **ns)
    w.wobj = w
    return ns


def to_ssi(src):
    """the same template in the server-side-include spelling of every tag"""
    src = re.sub(r'</dtml-([a-z]+)>', r'<!--#/\1-->', src)
    return re.sub(r'<dtml-([a-z]+)((?:"[^"]*"|[^>"])*)>', r'<!--#\1\2-->', src)


def described(kind, text, enc):
    if kind == 'bytes':
        return {'t': 'bytes8', 'v': text, 'enc': enc or 'utf-8'}
    return {'t': {'text': 'str', 'tainted': 'tainted', 'obj': 'obj'}[kind], 'v': text}


def place_observe(t, d, mode):
    try:
        out = t(**place_namespace(make_value(d)))
        if mode == 'exc':
            out = ('NO-EXCEPTION', out)
    except Exception as e:  # noqa
        if mode == 'exc' and type(e) is ValueError and len(e.args) == 1:
            out = e.args[0]
        else:
            out = ('EXC', type(e).__name__, str(e)[:80])
    return out


def place_expected(syntax, frame, encoding, expect, mode, inner):
    """frame: the source with HOLE where the insertion stands"""
    if mode == 'frame':
        mark = 'QFRAMEQ'
        out = fresh_template(syntax, frame.replace(HOLE, mark), encoding)(**place_namespace('unused'))
        return out.replace(mark, inner)
    pre, times, post = expect
    return pre + inner * times + post


def place_inner(d, between, expect, mode):
    inner = _esc(d['v'])
    if between:
        inner = SENT_A + inner + SENT_B
    return inner


def place_case(syntax, frame, ins, encoding, history, expect, mode, upto=None):
    """a NEW template object renders the described values of `history` one after the other; returns the first
    (index, output, expected) that differs, or None"""
    t = fresh_template(syntax, frame.replace(HOLE, ins), encoding)
    between = ins.startswith(SENT_A)
    for k, d in enumerate(history):
        out = place_observe(t, d, mode)
        want = place_expected(syntax, frame, encoding, expect, mode, place_inner(d, between, expect, mode))
        if out != want:
            return k, out, want
    return None


def all_places(tier, r):
    """(name, syntax, source with the hole, expectation, mode)"""
    out = []
    hole = [_lit(HOLE)]
    single = place_blocks(hole)
    for name, blocks in single.items():
        out.append((name, 'html', proggen_print(blocks), PLACE_EXPECT[name], 'out'))
    for name, (src, expect, mode) in TEXT_PLACES.items():
        out.append((name, 'html', src, expect, mode))
    for name, (src, expect, mode) in TEXT_PLACES_E.items():
        out.append((name, 'epfs', src, expect, mode))
    # one place inside another: the inner section's text is what the outer section renders
    names = sorted(single)
    pairs = [(a, b) for a in names for b in names if a != 'top' and b != 'top']
    if tier == 'quick':
        pairs = r.sample(pairs, 120)
    for a, b in pairs:
        inner = place_blocks(hole)[b]
        blocks = place_blocks(inner)[a]
        (pa, ta, qa), (pb, tb, qb) = PLACE_EXPECT[a], PLACE_EXPECT[b]
        # outer renders `inner output` ta times: inner output = pb + H*tb + qb; only frames that keep the shape
        # before + H*times + after are used (the others would need a general shape; they are covered singly)
        if ta != 1 and (pb or qb):
            continue
        out.append((a + '/' + b, 'html', proggen_print(blocks), (pa + pb, ta * tb, qb + qa), 'out'))
    return out


def proggen_print(blocks):
    import proggen
    return proggen.print_blocks(blocks)


def place_history(r, tier, enc, is_full):
    """the values one compiled template sees, one after the other: bytes, text, bytes, tainted, object, ..., and the first
    one again at the end"""
    own = enc or 'utf-8'                  # a template created without an encoding is a UTF-8 template
    texts = r.sample(PLACE_TEXTS, 4 if tier == 'quick' else len(PLACE_TEXTS))
    kinds = ['bytes', 'text', 'bytes', 'tainted', 'obj', 'bytes', 'bytes', 'text', 'bytes']
    history = []
    for t, kind in zip(texts, kinds):
        if kind == 'bytes':
            try:
                b = t.encode(own)
            except UnicodeEncodeError:
                kind = 'text'
            else:
                if is_full and b.decode('latin-1', 'replace') != t:
                    kind = 'text'       # left out: known finding C03-bytes-fullpath (the full path decodes as Latin-1)
        history.append(described(kind, t, enc))
    history.append(history[0])
    return history


def check_places(res, tier, r, have_driver):
    places = all_places(tier, r)
    sampled = False
    for name, syntax, frame, expect, mode in places:
        res.count('places')
        simple, full = (PLACE_SIMPLE_E, PLACE_FULL_E) if syntax == 'epfs' else (PLACE_SIMPLE, PLACE_FULL)
        nested = '/' in name
        quick = tier == 'quick'
        if nested:
            chosen = r.sample(simple, 2 if quick else 3)
        elif quick:
            chosen = simple[:2] + r.sample(simple[2:], min(2, len(simple) - 2))      # entity, var html_quote + 2 others
        else:
            chosen = simple
        forms = [(f, False) for f in chosen]
        forms += [(f, True) for f in (r.sample(full, 1 if nested else 2) if quick or nested else full)]
        frames = [(syntax, frame)]
        if syntax == 'html' and '<dtml-' in frame and not nested:
            frames.append(('html', to_ssi(frame)))
        for form, is_full in forms:
            encs = PLACE_ENCODINGS + (r.sample(PLACE_MORE_ENCODINGS, 1) if quick else PLACE_MORE_ENCODINGS)
            if nested:
                encs = [None] + r.sample(PLACE_ENCODINGS[1:] + PLACE_MORE_ENCODINGS, 1 if quick else 2)
            for enc in encs:
                history = place_history(r, tier, enc, is_full)
                for ins in (form, SENT_A + form + SENT_B):
                    for fi, (syn, fr) in enumerate(frames):
                        if quick and fi and (ins != form or enc not in (None, 'latin-1')):
                            continue          # quick: the SSI spelling of the frame for two encodings only
                        bad = place_case(syn, fr, ins, enc, history, expect, mode)
                        res.evaluations += len(history)
                        res.count('place_renders', len(history))
                        res.count('place_templates')
                        for d in history:
                            res.count('place_value=' + d['t'])
                            if any(c in d['v'] for c in SPECIALS):
                                res.nt(('place', name, syn, form, enc, d['t'], d['v']))
                        if bad:
                            k, out, want = bad
                            res.oracle_fail.append({
                                'case': {'kind': 'place', 'place': name, 'syntax': syn, 'frame': fr, 'insertion': ins,
                                         'source': fr.replace(HOLE, ins), 'encoding': enc, 'history': history[:k + 1],
                                         'expect': expect, 'mode': mode, 'expected': want},
                                'what': 'place %s, rendering %d of a new template: output %r, expected %r (html.escape of '
                                        'the value, bytes decoded with the encoding of the template)' % (name, k + 1, out, want)})
                        if not sampled and name == 'in-else' and history[0]['t'] == 'bytes8' and not bad:
                            res.sample({'place': name, 'source': fr.replace(HOLE, ins), 'encoding': enc,
                                        'history': history[:2], 'each output': 'html.escape(text the bytes stand for)'})
                            sampled = True


def model_case(blocks, xval, enc, sub):
    """a case of the interpreter correspondence: the same namespace as place_namespace, in the driver's JSON form"""
    import proggen

    def o(i, k, **kw):
        return {'o': i, 'a': [['k', k]] + [[a, b] for a, b in kw.items()]}
    ns = {'x': xval, 'one': 1, 'two': 2, 'zero': 0, 'seq2': {'l': [1, 2]}, 'seq3': {'l': [o(1, 2), o(2, 1), o(3, 3)]},
          'objs': {'l': [o(4, 2), o(5, 1)]}, 'empty': {'l': []}, 'maps': {'l': [{'d': [['m', 1]]}, {'d': [['m', 2]]}]},
          'wobj': {'o': 6, 'a': [['k', 0], ['x', xval]]}, 'm0': {'d': [['m', 1]]}, 'sub0': {'T': 1}}
    return {'templates': [{'blocks': blocks, 'globals': [], 'vars': [], 'source': proggen.print_blocks(blocks)},
                          {'blocks': sub, 'globals': [], 'vars': [], 'source': proggen.print_blocks(sub)}],
            'main': 0, 'clients': [], 'mapping': [], 'kw': [[k, v] for k, v in ns.items()],
            'classes': proggen.class_table(), 'denied': [], 'guard': False, 'utf8': enc == 'utf-8', 'encoding': enc}


def corr_places(res, tier, r):
    """the places on the Lean interpreter (utf-8 and latin-1 templates, bytes and text values, the insertion alone in
    its section and between literals, by name and by expression, directly and in a sub-template called by name): model
    == real classes, and the real classes' result == the expectation table"""
    import interp
    names = sorted(PLACE_EXPECT)
    pairs = [(a, b) for a in names for b in names if a != 'top' and b != 'top' and a != 'with-only'
             and not (PLACE_EXPECT[a][1] != 1 and (PLACE_EXPECT[b][0] or PLACE_EXPECT[b][2]))]
    cases, meta = [], []
    texts = PLACE_TEXTS if tier == 'thorough' else PLACE_TEXTS[:3] + r.sample(PLACE_TEXTS[3:], 1)
    for enc in ('utf-8', 'latin-1'):
        for t in texts:
            try:
                bval = {'b': list(t.encode(enc))}
            except UnicodeEncodeError:
                continue
            for xval in (bval, {'s': t}):
                for between in (False, True):
                    for expr in (False, True):
                        H = [_var('x', True, expr)]
                        if between:
                            H = [_lit(SENT_A)] + H + [_lit(SENT_B)]
                        inner = (SENT_A if between else '') + _esc(t) + (SENT_B if between else '')
                        single = place_blocks(H)
                        todo = [(n, single[n], PLACE_EXPECT[n]) for n in names]
                        if tier == 'thorough' or (between != expr):
                            for a, b in r.sample(pairs, 60 if tier == 'thorough' else 12):
                                (pa, ta, qa), (pb, tb, qb) = PLACE_EXPECT[a], PLACE_EXPECT[b]
                                todo.append((a + '/' + b, place_blocks(single[b])[a], (pa + pb, ta * tb, qb + qa)))
                        for n, blocks, (pre, times, post) in todo:
                            cases.append(model_case(blocks, xval, enc, [_lit('s')]))
                            meta.append((n, enc, t, pre + inner * times + post))
                            # the same place in a sub-template that the main template calls by name
                            if '/' not in n:
                                cases.append(model_case([_lit('('), _var('sub0'), _lit(')')], xval, enc, blocks))
                                meta.append(('sub:' + n, enc, t, '(' + pre + inner * times + post + ')'))
    runs = interp.run_cases(res, cases)
    if len(runs) != len(cases):
        res.harness_errors.append('places: the driver answered %d of %d cases' % (len(runs), len(cases)))
        return
    for (c, plan, impl, m), (n, enc, t, want) in zip(runs, meta):
        res.evaluations += 1
        res.count('place_model_cases')
        if impl['result'] != {'ok': {'s': want}}:
            res.oracle_fail.append({'case': {'kind': 'place-model', 'place': n, 'encoding': enc, 'text': t,
                                             'source': c['templates'][0]['source'], 'sub': c['templates'][1]['source'],
                                             'x': c['kw'][0][1], 'expected': want},
                                    'what': 'place %s: result %r, expected %r' % (n, impl['result'], want)})
        if m is None:
            continue
        d = interp.compare(impl, m)
        if d == 'oom':
            res.count('place_outside_model')
            continue
        res.corr_checked += 1
        if d:
            res.corr_mismatch.append({'case': dict(interp.brief(c), encoding=enc, place=n), 'impl': impl['result'],
                                      'model': m['result'], 'diff': d})


# ----------------------------------------------------------------------------------------------
# (D) COMPOSITIONS: ONE rendering put together by SEVERAL template objects, each with an encoding (and a class, and a way
# it came into being) of its own.  Template i inserts its own variable v<i> -- bytes in ITS encoding, text, tainted text or
# an object -- with the simple quoting forms, a shared text s, and calls templates of higher number in every way a
# template can be called from a template (by name in the three spellings, through an expression with the namespace
# handed on, through _[...] / _.render, quoted -- the called template's text is then escaped once more --, as an
# attribute of the object of a with block) from every kind of section (top level, loop body, else block of a loop,
# if, with, let, try, previous/next else).  Every composition is rendered several times: from the top, from an inner
# template directly, from the top again, with new data each time.
# Expected: the reference below -- concatenation of the pieces; an insertion is html.escape of the text the value
# stands for, where bytes stand for their decoding in the encoding of the template the insertion is WRITTEN in.

COMPOSE_ENCODINGS = [None, 'utf-8', 'latin-1', 'cp1252', 'utf-16', 'utf-16-le', 'utf-32-be', 'utf-7', 'cp500', 'utf-8-sig']
PROVENANCES = ['new', 'new', 'cooked', 'pickled', 'pickled-cooked', 'munged', 'copied', 'subclass']
CALLS = [('<dtml-var §>', False), ('<!--#var §-->', False), ('<dtml-var name=§>', False), ('<dtml-var name="§">', False),
         ('<dtml-var "§(None, _)">', False), ('<dtml-var expr="§(None, _)">', False), ('<dtml-var "_[\'§\']">', False),
         ('<dtml-var "_.render(§)">', False), ('<dtml-var "_.getitem(\'§\', 1)">', False),
         ('<dtml-with wobj><dtml-var §></dtml-with>', False), ('<dtml-var "wobj.§(None, _)">', False),
         ('&dtml-§;', True), ('<dtml-var § html_quote>', True), ('<dtml-var expr="§(None, _)" html_quote>', True)]
CALLS_E = [('%(§)s', False), ('%(var §)s', False), ('%(§ html_quote)s', True)]
CALL_WRAPS = [('', '', 1), ('', '', 1), ('<dtml-in seq2>', '</dtml-in>', 2), ('<dtml-in empty>n<dtml-else>', '</dtml-in>', 1),
              ('<dtml-if one>', '</dtml-if>', 1), ('<dtml-if zero>n<dtml-else>', '</dtml-if>', 1),
              ('<dtml-with wobj>', '</dtml-with>', 1), ('<dtml-let q=one>', '</dtml-let>', 1),
              ('<dtml-try>', '<dtml-except>h</dtml-try>', 1),
              ('<dtml-try><dtml-raise KeyError>k</dtml-raise><dtml-except>', '</dtml-try>', 1),
              ('<dtml-in seq3 previous size=2 start=1>n<dtml-else>', '</dtml-in>', 1),
              ('<dtml-in seq3 next size=1>', '<dtml-else>n</dtml-in>', 1), ('<dtml-in seq3 size=2>', '</dtml-in>', 2)]
CALL_WRAPS_E = [('', '', 1), ('%(in seq2)[', '%(in)]', 2), ('%(in empty)[n%(else)[', '%(in)]', 1), ('%(if one)[', '%(if)]', 1)]
COMPOSE_ALPHA = list(SPECIALS) * 2 + ['a', ' ', ';', 'é', 'ü', 'ß', 'ÿ', 'Ä', '&amp;', 'b>']      # encodable everywhere


def gen_composition(r):
    n = r.choice([2, 2, 2, 3, 3, 4])
    ts = []
    for i in range(n):
        ts.append({'syntax': 'html' if r.random() < 0.8 else 'epfs', 'encoding': r.choice(COMPOSE_ENCODINGS),
                   'prov': r.choice(PROVENANCES)})
    if len({t['encoding'] or 'utf-8' for t in ts}) == 1 and r.random() < 0.9:
        ts[-1]['encoding'] = r.choice([e for e in COMPOSE_ENCODINGS[1:] if e != (ts[0]['encoding'] or 'utf-8')])
    for i, t in enumerate(ts):
        epfs = t['syntax'] == 'epfs'
        simple = PLACE_SIMPLE_E if epfs else PLACE_SIMPLE
        pieces = []
        must = [i + 1] if i + 1 < n else []             # every template is called by the one before it, at least
        for _ in range(r.randint(1, 4)):
            c = r.random()
            if c < 0.45:
                pieces.append(['own', r.choice(simple).replace(' x', ' v%d' % i).replace('-x;', '-v%d;' % i)
                               .replace('=x', '=v%d' % i).replace('"x"', '"v%d"' % i).replace('(x', '(v%d' % i)])
            elif c < 0.55:
                pieces.append(['shared', r.choice(simple[:2]).replace(' x', ' s').replace('-x;', '-s;').replace('(x', '(s')])
            elif c < 0.85 and i + 1 < n:
                must.append(r.randrange(i + 1, n))
            else:
                pieces.append(['lit', r.choice(['|', 'lit', '<b>', ';', "'"] if not epfs else ['|', 'lit', ';'])])
        if not any(p[0] == 'own' for p in pieces):
            pieces.append(['own', simple[0].replace('-x;', '-v%d;' % i).replace('(x', '(v%d' % i)])
        for j in must:
            how, quoted = r.choice(CALLS_E if epfs else CALLS)
            o, c, times = r.choice(CALL_WRAPS_E if epfs else CALL_WRAPS)
            pieces.insert(r.randint(0, len(pieces)), ['call', j, o + how.replace('§', 't%d' % j) + c, quoted, times])
        t['pieces'] = pieces
        t['source'] = ''.join(p[1] if p[0] != 'call' else p[2] for p in pieces)
    return ts


def gen_composition_data(r, ts):
    def text():
        while True:
            s = ''.join(r.choice(COMPOSE_ALPHA) for _ in range(r.choice([1, 2, 3, 5, 8])))
            if any(c in s for c in SPECIALS) or any(ord(c) > 127 for c in s):
                return s
    data = {'s': {'t': 'str', 'v': text()}}
    for i, t in enumerate(ts):
        kind = r.choice(['bytes', 'bytes', 'bytes', 'text', 'tainted', 'obj'])
        data['v%d' % i] = described(kind, text(), t['encoding'])
    return data


def composition_expected(ts, i, data):
    out = []
    for p in ts[i]['pieces']:
        if p[0] == 'lit':
            out.append(p[1])
        elif p[0] == 'own':
            out.append(_esc(data['v%d' % i]['v']))
        elif p[0] == 'shared':
            out.append(_esc(data['s']['v']))
        else:
            _, j, _src, quoted, times = p
            inner = composition_expected(ts, j, data)
            out.append((_esc(inner) if quoted else inner) * times)
    return ''.join(out)


def build_template(t):
    import copy
    import pickle
    from DocumentTemplate import HTML, String
    cls = HTML if t['syntax'] == 'html' else String
    prov = t['prov']
    if prov == 'subclass':
        cls = type('App' + cls.__name__, (cls,), {})
    kw = {'encoding': t['encoding']} if t['encoding'] else {}
    if prov == 'munged':
        ob = cls('something <dtml-var else missing> entirely' if t['syntax'] == 'html' else 'something else', **kw)
        if t.get('munge_after_use'):
            ob()
        ob.munge(t['source'])
        return ob
    ob = cls(t['source'], **kw)
    if prov in ('cooked', 'pickled-cooked', 'copied'):
        ob.cook()
    if prov in ('pickled', 'pickled-cooked'):
        ob = pickle.loads(pickle.dumps(ob))
    if prov == 'copied':
        ob = copy.copy(ob)
    return ob


def run_composition(ts, history):
    """new template objects; the renderings of `history` in order; returns the list of outputs"""
    obs = [build_template(t) for t in ts]
    outs = []
    for target, data in history:
        ns = place_namespace(None)
        del ns['x']
        ns['wobj'].__dict__.pop('x', None)
        for k, d in data.items():
            ns[k] = make_value(d)
        for j, ob in enumerate(obs):
            ns['t%d' % j] = ob
        w = ns['wobj']
        for k, v in ns.items():
            if k != 'wobj':
                setattr(w, k, v)
        try:
            outs.append(obs[target](**ns))
        except Exception as e:  # noqa
            outs.append(('EXC', type(e).__name__, str(e)[:80]))
    return outs


def check_compositions(res, tier, r):
    n = 500 if tier == 'quick' else 8000
    sampled = False
    for _ in range(n):
        ts = gen_composition(r)
        if any(t['prov'] == 'munged' for t in ts) and r.random() < 0.5:
            for t in ts:
                t['munge_after_use'] = True
        history = []
        for k in range(r.choice([2, 3, 4])):
            target = 0 if k == 0 or r.random() < 0.6 else r.randrange(len(ts))
            history.append([target, gen_composition_data(r, ts)])
        outs = run_composition(ts, history)
        res.count('compositions')
        res.count('composition_templates=%d' % len(ts))
        res.count('composition_encodings=%d' % len({t['encoding'] or 'utf-8' for t in ts}))
        for t in ts:
            res.count('composition_prov=' + t['prov'])
        for k, ((target, data), out) in enumerate(zip(history, outs)):
            want = composition_expected(ts, target, data)
            res.evaluations += 1
            res.count('composition_renders')
            res.nt(('compose', tuple(t['source'] for t in ts), tuple(t['encoding'] for t in ts), target,
                    json.dumps(data, sort_keys=True)))
            if out != want:
                res.oracle_fail.append({
                    'case': {'kind': 'compose', 'templates': [{k2: t[k2] for k2 in ('syntax', 'encoding', 'prov', 'source',
                                                                                     'munge_after_use') if k2 in t}
                                                              for t in ts],
                             'history': history[:k + 1], 'expected': want},
                    'what': 'rendering %d (template t%d of %s): output %r, expected %r (every insertion: html.escape of the '
                            'value, bytes decoded with the encoding of the template the insertion is written in)'
                            % (k + 1, target, [(t['syntax'], t['encoding']) for t in ts], out, want)})
                break
        if not sampled and len(ts) > 2 and not res.oracle_fail:
            res.sample({'templates': [(t['encoding'], t['prov'], t['source']) for t in ts], 'data': history[0][1],
                        'output': outs[0]})
            sampled = True


# ----------------------------------------------------------------------------------------------
# (E) SIZES: "the same value gives the same escaped text ... whatever other characters it contains" -- values of every
# order of magnitude (whole documents are quoted for an edit form): lengths around every power of two and of ten, random
# lengths in between; a head, a tail and a middle dense in the five specials, the rest padding of every kind (harmless
# ASCII, specials only, 2-, 3- and 4-byte characters, entity look-alikes); as text, as an object with that string form
# and as bytes in the template's encoding; through EVERY spelling of the quoting insertion.
# Expected: REF_TABLE applied character by character (the five references of the HTML standard escaping, written out
# here), which must also be what html.escape gives; the escaped head / tail must stand unchanged at the start / end of
# the output whatever lies in between; html.unescape returns the text.

REF_TABLE = {'&': '&amp;', '<': '&lt;', '>': '&gt;', '"': '&quot;', "'": '&#x27;'}


def ref_escape(s):
    return ''.join([REF_TABLE.get(c, c) for c in s])


def size_ladder(tier):
    top = 17 if tier == 'quick' else 20
    sizes = set()
    for k in range(3, top + 1):
        sizes.update((2 ** k - 1, 2 ** k, 2 ** k + 1))
    for k in range(2, 6 if tier == 'quick' else 7):
        sizes.update((10 ** k - 1, 10 ** k, 10 ** k + 1))
    return sorted(sizes)


BIG_HEADS = ["it's", '<a href="x?a=1&b=2">O\'Neil</a>', "'", '&', '"', '<', '>', 'caf\xe9 \'日本\' & <\U0001f600>',
             '&amp;\'', '', 'plain', "'" * 4, '&#39;\'&#x27;']
BIG_PADS = [' padding', 'a', 'x;', '\n', '\xe9', '€', '\U0001f600', '日本語 ', "'", '&<', '>"\'', '&amp;',
            'lorem ipsum dolor sit amet, ', '0123456789']


def gen_big(r, n):
    """description of a text of exactly n characters"""
    return {'t': 'big', 'n': n, 'head': r.choice(BIG_HEADS), 'tail': r.choice(BIG_HEADS), 'mid': r.choice(BIG_HEADS),
            'pad': r.choice(BIG_PADS[:4] * 3 + BIG_PADS)}


def big_text(d):
    n = d['n']
    head, mid, tail = d['head'][:n], d['mid'], d['tail']
    tail = tail[:max(0, n - len(head))]
    room = n - len(head) - len(tail)
    mid = mid[:room]
    room -= len(mid)
    pad = d['pad']
    fill = (pad * (room // len(pad) + 1))[:room]
    a = room // 2
    return head + fill[:a] + mid + fill[a:] + tail


def big_parts(d):
    n = d['n']
    head = d['head'][:n]
    return head, d['tail'][:max(0, n - len(head))]


SIZE_ENCODINGS = ['utf-8', 'utf-8', 'latin-1', 'cp1252', 'utf-16', 'utf-16-le', 'utf-32', 'utf-7', 'cp500', 'gb18030']


def size_form(src):
    # the identity truncation of the spellings with size=: far beyond every value of this section
    return src.replace('size=100000', 'size=1000000000')


def check_sizes(res, tier, r):
    ladder = size_ladder(tier)
    sizes = ladder + [r.randrange(1, ladder[-1]) for _ in range(12 if tier == 'quick' else 40)] + [0, 1, 2, 3, 5]
    all_forms = ([(f, 'simple') for f in SIMPLE_FORMS] + [(f, 'full') for f in FULL_FORMS] +
                 [(f, 'nested') for f in NESTED_FORMS])
    sampled = False
    for n in sizes:
        d = gen_big(r, n)
        text = big_text(d)
        want = ref_escape(text)
        head, tail = big_parts(d)
        if len(text) != n or want != _esc(text):
            res.harness_errors.append('sizes: the reference table and html.escape disagree on %r' % (d,))
            continue
        forms = all_forms if n < 40000 else r.sample(all_forms, 10 if tier == 'quick' else 14)
        kinds = [dict(d), dict(d, obj=True)]
        enc = r.choice(SIZE_ENCODINGS)
        if survives(text, enc):
            kinds.append(dict(d, enc=enc))
        for dv in kinds:
            v = make_value(dv)
            for (syn, src), path in forms:
                if dv.get('enc') and path == 'full':
                    continue        # bytes through the full path: known finding C03-bytes-fullpath
                form = size_form(src)
                out = render(syn, form, v, encoding=dv.get('enc'))
                res.evaluations += 1
                res.count('size_cases')
                res.count('size_kind=' + ('bytes' if dv.get('enc') else 'obj' if dv.get('obj') else 'str'))
                what = None
                if out != want:
                    if isinstance(out, str):
                        k = next((i for i, (a, b) in enumerate(zip(out, want)) if a != b), min(len(out), len(want)))
                        what = ('output differs from the standard escaping of the %d characters at offset %d: %r, '
                                'expected %r' % (n, k, out[max(0, k - 10):k + 20], want[max(0, k - 10):k + 20]))
                    else:
                        what = 'output %r' % (out,)
                elif not (out.startswith(ref_escape(head)) and out.endswith(ref_escape(tail))):
                    what = 'the escaped text of the head / tail changed with the characters in between'
                elif html.unescape(out) != text:
                    what = 'html.unescape(output) != value'
                if what:
                    res.oracle_fail.append({'case': {'kind': 'size', 'value': dv, 'form': form, 'syntax': syn,
                                                     'encoding': dv.get('enc')},
                                            'what': what})
            if any(c in text for c in SPECIALS):
                res.nt(('size', json.dumps(dv, sort_keys=True)))
        res.count('size_magnitude=2^%d' % n.bit_length())
        if not sampled and n > 4000:
            res.sample({'value': d, 'characters': n, 'forms': len(forms),
                        'each output': 'reference table applied per character'})
            sampled = True


# ----------------------------------------------------------------------------------------------
# (F) ENCODINGS: "bytes values in the template's encoding" for EVERY text encoding this Python has (ASCII supersets,
# UTF-16 / UTF-32 with and without byte order, the stateful 7-bit encodings iso-2022-*, hz, utf-7, EBCDIC code pages, the
# double-byte East Asian ones, utf-8-sig, punycode ...) x texts of the scripts the encoding can express (those that
# survive encode / decode), incl. texts whose encoded form is 7-bit only, texts without any special, single specials,
# random strings over the encodable alphabet x every simple quoting spelling, alone and between literal text, HTML and
# EPFS; one compiled template per (spelling, encoding) renders all the texts one after the other.
# Expected: html.escape(text) -- the bytes stand for their decoding in the template's encoding.

SCRIPT_TEXTS = ['plain', 'a<b', 'x & y', '"q" \'s\' <t> &amp;', "'", '&', '<', '>', '"', ' ', '@', '0', '~\\^|{}[]`$#',
                'こんにちは', 'ΑΒΓ <α&β>', '日本語 "テスト"',
                '\xe9t\xe9 <\xfc> & \xdf', 'caf\xe9', 'Привет <мир> & \'я\'',
                'שלום "<&>"', 'مرحبا \'&\'', 'สวัสดี<>',
                '你好，世界 <&>', '한국어 "\'"', '€<', '\U0001f600&\'', 'Ł\xf3dź <ą>',
                'İstanbul\'da', 'T\xfcrk\xe7e & ğ', 'Āā<Ē>', 'Việt "Nam"', '＜＆＞<&>',
                'A', 'it\'s <b>&amp;</b>', '\x00<', '\x7f&', '\x80\x9f<', '\xa0\xff\'', ' >']
SCRIPT_CHARS = sorted(set(''.join(SCRIPT_TEXTS)) | set(SPECIALS))
ENC_FORMS = [('html', f) for f in PLACE_SIMPLE] + [('epfs', f) for f in PLACE_SIMPLE_E]
_encs = []


def text_encodings():
    """every text encoding of this Python (normalised names, aliases dropped)"""
    if not _encs:
        import codecs
        import encodings
        import pkgutil
        seen = set()
        names = sorted(x.name for x in pkgutil.iter_modules(encodings.__path__))
        for m in names + ['utf-16-le', 'utf-16-be', 'utf-32-le', 'utf-32-be']:
            if m in ('aliases', 'mbcs', 'oem'):
                continue
            try:
                ci = codecs.lookup(m)
                if not getattr(ci, '_is_text_encoding', True) or ci.name in seen:
                    continue
                if 'a'.encode(m).decode(m) != 'a':
                    continue
            except Exception:  # noqa
                continue
            seen.add(ci.name)
            _encs.append(m)
    return _encs


def survives(text, enc):
    try:
        return text.encode(enc).decode(enc) == text
    except Exception:  # noqa   (UnicodeError, and the errors of the codecs that are not total)
        return False


def check_encodings(res, tier, r):
    encs = text_encodings()
    res.count('encodings_known', len(encs))
    sampled = False
    for enc in encs:
        texts = [t for t in SCRIPT_TEXTS if survives(t, enc)]
        chars = [c for c in SCRIPT_CHARS if survives(c, enc)]
        if chars:
            for _ in range(6 if tier == 'quick' else 60):
                t = ''.join(r.choice(chars) for _ in range(r.choice([1, 2, 3, 5, 8, 13])))
                if survives(t, enc):
                    texts.append(t)
        if not texts:
            res.count('encodings_without_text')
            continue
        if tier == 'quick' and len(texts) > 21:
            texts = texts[:9] + r.sample(texts[9:], 12)
        res.count('encodings_used')
        forms = ENC_FORMS if tier != 'quick' else ENC_FORMS[:2] + r.sample(ENC_FORMS[2:], 3)
        for syn, form in forms:
            for src in (form, '[' + form + ']'):
                for t in texts:
                    raw = t.encode(enc)
                    want = _esc(t)
                    if src != form:
                        want = '[' + want + ']'
                    out = render(syn, src, raw, encoding=enc)
                    res.evaluations += 1
                    res.count('encoding_cases')
                    if raw.isascii():
                        res.count('encoding_cases_7bit_bytes')
                    case = {'kind': 'enc', 'value': {'t': 'bytes8', 'v': t, 'enc': enc}, 'form': src, 'syntax': syn,
                            'encoding': enc, 'expected': want}
                    if out != want:
                        res.oracle_fail.append({'case': case,
                                                'what': 'template encoding %s, bytes %r (= %r): output %r, expected %r '
                                                        '(html.escape of the text the bytes stand for)'
                                                        % (enc, raw, t, out, want)})
                    elif html.unescape(out[1:-1] if src != form else out) != t:
                        res.oracle_fail.append({'case': case, 'what': 'html.unescape(output) != the text'})
                    if any(c in t for c in SPECIALS):
                        res.nt(('enc', enc, src, t))
        if not sampled and enc.startswith('iso2022'):
            res.sample({'encoding': enc, 'texts': texts[:12], 'forms': [f for _, f in forms]})
            sampled = True


def run(res, tier, have_driver):
    r = common.rng('C03')
    res.rule = ('every single code point (quick: U+0000-2FFF + 6000 random; thorough: all 1,112,064) and random '
                'strings over an alphabet dense in & < > " \' and multi-byte characters, through every insertion '
                'form (8 simple-form spellings, 15 full-path spellings incl. fmt=html-quote with identity options, 6 nested-block spellings, 5 plain spellings; HTML/SSI/EPFS, name and '
                'expr); non-str values; bytes in 4 encodings; non-trivial = distinct value containing a special.  '
                'OPTIONS: html quoting (html_quote attribute, fmt=html-quote, both) together with 0-3 of ALL other '
                'options of the tag (11 valueless attributes, 9 special formats, 5 method formats, 3 C-style '
                'formats, size/etc incl. size == length, null, missing, url) in every attribute order and '
                'spelling (dtml / SSI / EPFS / &dtml.a.b-x; entities, name, name=, expr=), str and non-str values; '
                'expected = reference pipeline from the tag documentation (fmt first, attributes in any order, '
                'size last).  SCENES: random template bodies (1500 quick / 12000 thorough, HTML and EPFS) where '
                'quoted insertions of x / y stand before and after insertions of tainted strings, strings that '
                'need no quoting, numbers, None, ASCII bytes, objects, a sub-template that inserts the same variables, empty tags and literal text, on the same '
                'level and inside if / elif / else / unless / in (1 and 2 iterations, reverse) / with / let / try '
                'blocks (depth <= 2); each compiled scene is rendered 2-6 times with changing data (tainted <-> '
                'plain, same subject again); expected = concatenation of the per-piece expectations; every scene template has '
                'an encoding (default, utf-8, latin-1, cp1252), bz = non-ASCII bytes in that encoding inserted by the simple '
                'quoting forms, sub2 = a second template object of ANOTHER encoding inserting its own bytes; the blocks '
                'include the else block of dtml-in (empty sequence, batched, previous / next without such a batch) and the '
                'handler / else / finally sections of dtml-try.  PLACES: the quoted insertion in every section of every '
                'block tag (%d single places incl. all modes of dtml-in and their else blocks, raise message, sub-template, '
                'comment, dtml-tree body, EPFS blocks; one place nested in another: 120 random pairs quick / all thorough), '
                'alone in its section and between literals, dtml and SSI spelling of the frame, x insertion spellings (7 '
                'simple, 7 full path) x template encodings (default, utf-8, latin-1, cp1252, utf-16) x a history of values '
                'per compiled template (bytes in the template encoding, text, tainted, object, first value again); '
                'expected from a hand-written table (text before, times rendered, text after) and html.escape.  '
                'COMPOSITIONS: 2-4 template objects (HTML / String / application subclass; new, cooked, pickled, munged, '
                'copied), each with its own encoding and its own bytes variable, calling each other in 14 ways (by name in '
                'every spelling, expr with the namespace, _[..], _.render, _.getitem, attribute of a with object, quoted) '
                'from 13 kinds of section, rendered 2-4 times from the top and from inner templates directly; expected = '
                'reference evaluator (bytes stand for their decoding in the encoding of the template the insertion is '
                'written in).  SIZES: texts of 0 .. 2^17 (thorough 2^20) characters around every power of two / ten '
                '(head, middle, tail dense in specials; 14 kinds of padding) as str, object and bytes in 9 encodings through all '
                '29 spellings; expected = the five references applied per character; escaped head / tail unchanged.  '
                'ENCODINGS: bytes values in EVERY text encoding of this Python (about 100: UTF-16/32 with and without byte '
                'order, stateful 7-bit, EBCDIC, double-byte, signatures) x texts of the scripts the encoding expresses x the '
                'simple quoting spellings alone and between literals; places and compositions also use encodings that are '
                'not ASCII supersets' % (len(PLACE_EXPECT) + len(TEXT_PLACES) + len(TEXT_PLACES_E)))
    res.exhaustive = tier == 'thorough'
    vals = gen_values(tier, r)
    reqs = []
    impl = []
    forms_n = max(1, 2 if tier == 'quick' else 4)
    for v in vals:
        want = html.escape(v, True)
        sf = [SIMPLE_FORMS[0]] + r.sample(SIMPLE_FORMS[1:], forms_n)
        ff = r.sample(FULL_FORMS, forms_n + 1) + r.sample(NESTED_FORMS, 1)
        pf = r.sample(PLAIN_FORMS, 1)
        obs = {}
        for kind, forms in (('simpleH', sf), ('fullH', ff), ('plain', pf)):
            for syn, src in forms:
                out = render(syn, src, v)
                res.evaluations += 1
                obs.setdefault(kind, []).append((src, out))
                exp = v if kind == 'plain' else want
                if out != exp:
                    res.oracle_fail.append({'case': {'value': v, 'form': src, 'syntax': syn},
                                            'what': 'output %s, expected %s (html.escape of the value)'
                                                    % (_short(out), _short(exp))
                                            if kind != 'plain' else
                                            'plain insertion changed the value: %r' % (out,)})
                elif kind != 'plain':
                    if isinstance(out, str) and html.unescape(out) != v:
                        res.oracle_fail.append({'case': {'value': v, 'form': src},
                                                'what': 'html.unescape(output) != value'})
        if any(c in v for c in SPECIALS):
            res.nt(v)
            res.count('has_special')
        res.count('len=%s' % (len(v) if len(v) < 4 else '4+'))
        impl.append(obs)
        reqs.append({'op': 'quote', 's': v})
    res.sample({'value': vals[60], 'observation': impl[60]})
    res.sample({'value': vals[-1], 'observation': impl[-1]})
    res.sample({'value': vals[-7], 'observation': impl[-7]})
    if have_driver:
        resp = common.run_driver(reqs)
        for v, obs, rp in zip(vals, impl, resp):
            if 'ok' not in rp:
                res.harness_errors.append('driver: %r' % (rp,))
                break
            m = rp['ok']
            res.corr_checked += 1
            for kind in ('simpleH', 'fullH', 'plain'):
                for src, out in obs[kind]:
                    if out != m[kind]:
                        res.corr_mismatch.append({'case': {'value': v, 'form': src}, 'impl': out,
                                                  'model': m[kind], 'diff': kind})
            if m['unesc'] != v or m['escape'] != html.escape(v, True):
                res.corr_mismatch.append({'case': {'value': v}, 'impl': html.escape(v, True),
                                          'model': m, 'diff': 'model escape/unescape5 vs html module'})

    # non-string values: inserted as the escaped str() form
    others = [0, 7, -3, 2.5, None, True, (1, '<'), ['&'], {'a': '"'}, Obj("<o'bj>"), Obj('plain'),
              ValueError("<bad 'value'>"), KeyError('k<'), Exception(), Exception('a', '<b>')]
    from DocumentTemplate.ustr import ustr
    for v in others:
        s = ustr(v)
        for syn, src in SIMPLE_FORMS + FULL_FORMS:
            out = render(syn, src, v)
            res.evaluations += 1
            if 'null=""' in src and (not v and v != 0):
                continue
            if out != html.escape(s, True):
                res.oracle_fail.append({'case': {'value': repr(v), 'form': src},
                                        'what': 'output %r, expected %r' % (out, html.escape(s, True))})
        res.count('nonstring_values')

    # bytes values in the template's encoding
    texts = ['plain', 'a<b', "it's", 'é<', 'ſ&', '€"', 'x\U0001F600>', 'Ω', '\xff<\xe9']
    for _ in range(200 if tier == 'quick' else 4000):
        texts.append(''.join(r.choice(['<', '&', "'", '"', '>', 'a', 'é', 'ÿ', '€', 'Ω', '\U0001F600'])
                             for _ in range(r.randint(1, 6))))
    for enc in ('utf-8', 'latin-1', 'cp1252', 'utf-16'):
        for t in texts:
            try:
                b = t.encode(enc)
            except UnicodeEncodeError:
                continue
            want = html.escape(t, True)
            for syn, src in SIMPLE_FORMS + FULL_FORMS + NESTED_FORMS:
                if syn == 'epfs' and enc == 'utf-16':
                    pass
                out = render(syn, src, b, encoding=enc)
                res.evaluations += 1
                res.count('bytes_' + enc)
                if out != want:
                    full = (syn, src) in FULL_FORMS
                    try:
                        same_latin1 = b.decode('latin-1') == t
                    except Exception:
                        same_latin1 = False
                    if full and not same_latin1:
                        # full-path html_quote decodes bytes as Latin-1 whatever the template encoding
                        res.known_hits.setdefault('C03-bytes-fullpath', {'text': t, 'encoding': enc, 'form': src,
                                                                         'output': repr(out)})
                    else:
                        res.oracle_fail.append({'case': {'bytes_of': t, 'encoding': enc, 'form': src},
                                                'what': 'output %r, expected %r' % (out, want)})
            if any(c in t for c in SPECIALS):
                res.nt(('bytes', enc, t))
    check_options(res, tier, common.rng('C03-options'))
    check_scenes(res, tier, common.rng('C03-scenes'))
    check_places(res, tier, common.rng('C03-places'), have_driver)
    res.have_driver = have_driver
    corr_places(res, tier, common.rng('C03-place-model'))
    check_compositions(res, tier, common.rng('C03-compose'))
    check_sizes(res, tier, common.rng('C03-sizes'))
    check_encodings(res, tier, common.rng('C03-encodings'))
    res.partial.append('option combinations and scenes are decided by the oracle on the real code only (no model '
                       'counterpart); html_quote + url_unquote(_plus) on values containing %, and comma insertion on '
                       'values with four digits in a row, are left to C15 (finding C15-double-unquote)')
    res.partial.append('places: tied to the Lean interpreter by correspondence for utf-8 and latin-1 templates (the model has one '
                       'encoding flag per rendering); cp1252 / utf-16 / default-encoding templates, the SSI / EPFS / entity '
                       'spellings, tainted values, dtml-tree bodies and compositions of templates with DIFFERENT encodings '
                       'are decided by the oracle on the real code only')
    res.partial.append('bytes through the full Var.render path (html_quote + another option, fmt=html-quote) are '
                       'decoded as Latin-1: known finding C03-bytes-fullpath; theorems cover str values and the '
                       'simple-form bytes path is tied by correspondence/oracle only')
    res.assumptions += ['html.escape / html.unescape (standard library) are the reference for "standard HTML '
                        'escaping"; the model\'s escape table is checked against the running Python by '
                        'gen_escape_table']


def search_more(res, tier):
    found = []
    for c in SPECIALS + 'a':
        for v in (c, 'x' + c, c + c):
            for syn, src in SIMPLE_FORMS + FULL_FORMS:
                out = render(syn, src, v)
                if out != html.escape(v, True):
                    found.append({'case': {'value': v, 'form': src, 'syntax': syn},
                                  'what': 'output %r, expected %r' % (out, html.escape(v, True))})
    return found


def replay(path):
    with open(path) as f:
        d = json.load(f)
    c = d['first']['case']
    syn = c.get('syntax', 'html')
    if c.get('kind') == 'place':
        # a new template object, the values of the history one after the other; the last rendering is the failing one
        bad = place_case(syn, c['frame'], c['insertion'], c['encoding'], c['history'], tuple(c['expect']) if c['expect'] else None,
                         c['mode'])
        print(c['source'], 'encoding', c['encoding'])
        if bad:
            print('rendering %d: %r expected %r' % (bad[0] + 1, bad[1], bad[2]))
        return 1 if bad else 0
    if c.get('kind') == 'place-model':
        from DocumentTemplate import HTML
        sub = HTML(c['sub'], encoding=c['encoding'])
        x = bytes(c['x']['b']) if 'b' in c['x'] else c['x']['s']
        ns = place_namespace(x)
        ns['sub0'] = ns['wobj'].sub0 = sub
        ns['seq2'] = ns['wobj'].seq2 = [1, 2]
        try:
            out = HTML(c['source'], encoding=c['encoding'])(**ns)
        except Exception as e:  # noqa
            out = ('EXC', type(e).__name__, str(e)[:80])
        print(c['source'], 'encoding', c['encoding'])
        print(repr(out), 'expected', repr(c['expected']))
        return 0 if out == c['expected'] else 1
    if c.get('kind') == 'compose':
        outs = run_composition(c['templates'], c['history'])
        for t in c['templates']:
            print(t)
        print(repr(outs[-1]), 'expected', repr(c['expected']))
        return 0 if outs[-1] == c['expected'] else 1
    if 'scene' in c:
        # a fresh template object, the earlier renderings in order, then the failing one
        t = fresh_template(syn, c['scene'], c.get('encoding'))
        for h in c.get('history', []):
            render_scene(t, h)
        out = render_scene(t, c['data'])
        print(c['scene'])
        print(repr(out), 'expected', repr(c['expected']))
        return 0 if out == c['expected'] else 1
    v = make_value(c.get('value'))
    if c.get('kind') in ('size', 'enc'):
        # sizes: the value is described (head, padding, middle, tail, length); encodings: bytes of a text in the encoding
        d = c['value']
        text = big_text(d) if d['t'] == 'big' else d['v']
        want = c.get('expected', ref_escape(text))
        out = render(syn, c['form'], v, encoding=c.get('encoding'))
        k = next((i for i, (a, b) in enumerate(zip(out, want)) if a != b), min(len(out), len(want)))
        print(c['form'], 'encoding', c.get('encoding'), '%d characters; first difference at %d' % (len(text), k))
        print(repr(out[max(0, k - 20):k + 40]), 'expected', repr(want[max(0, k - 20):k + 40]))
        return 0 if out == want else 1
    if 'accept' in c:
        out = render(syn, c['form'], v)
        print(repr(out), 'expected one of', c['accept'])
        return 0 if out in c['accept'] else 1
    out = render(syn, c['form'], v)
    print(repr(out), 'expected', repr(html.escape(v, True)))
    return 0 if out == html.escape(v, True) else 1
