"""C14 — try/except/else/finally, raise and return follow Python-like control flow.

Generator: programs over dtml-try (handler lists over a 3-deep class hierarchy with multiple inheritance and built-ins,
multi-name handlers, bare handlers, else), try/finally, dtml-raise (by name / by expression, body = message), dtml-return
(values of any type), nested <= 3 and wrapped in if / in / with / let blocks, sub-templates invoked by name; callables
with a logged side effect mark what was rendered; a fault plan makes the k-th call raise.
Oracle: a reference evaluator written with plain Python try statements (independent of the model and of the engine):
the result (text / returned value / exception class + message) and the ordered call log must be equal.
Correspondence: the same programs on the Lean interpreter model.
"""
import json

import common
import interp
import proggen

HANDLER_NAMES = ['ValueError', 'KeyError', 'LookupError', 'E1', 'E2', 'E3', 'EM', 'Exception', 'TypeError',
                 'ZeroDivisionError', 'ArithmeticError', 'RuntimeError']
RAISE_BY_NAME = ['KeyError', 'ValueError', 'LookupError', 'ZeroDivisionError', 'NoSuchClass', 'TypeError', 'RuntimeError']
RAISE_BY_EXPR = ['E1', 'E2', 'E3', 'EM', 'KeyError', 'ValueError']
RET_VALUES = {'r_int': 5, 'r_str': {'s': 'txt'}, 'r_none': None, 'r_true': True,
              'r_list': {'l': [1, {'s': 'a'}]}, 'r_dict': {'d': [['k', 1]]}, 'r_obj': {'o': 77, 'a': [['p', 1]]}}
FAULT_CLASSES = ['ValueError', 'KeyError', 'E2', 'E3', 'EM', 'TypeError']


class Ret(Exception):
    def __init__(self, v):
        self.v = v


def norm_json(v):
    if isinstance(v, dict):
        if 'o' in v:
            return {'o': v['o']}
        if 'f' in v:
            return {'f': v['f']}
        if 'l' in v:
            return {'l': [norm_json(x) for x in v['l']]}
        if 't' in v:
            return {'t': [norm_json(x) for x in v['t']]}
        if 'd' in v:
            return {'d': [[k, norm_json(x)] for k, x in v['d']]}
    return v


def plain(v):
    """JSON-form value -> plain Python value with the same str()"""
    if isinstance(v, dict):
        if 's' in v:
            return v['s']
        if 'l' in v:
            return [plain(x) for x in v['l']]
        if 't' in v:
            return tuple(plain(x) for x in v['t'])
        if 'd' in v:
            return {k: plain(x) for k, x in v['d']}
        if 'o' in v:
            return proggen.Obj(v['o'], {})
    return v


def jstr(v):
    """str() of a JSON-form value that dtml-var inserts"""
    if isinstance(v, dict) and ('l' in v or 't' in v or 'd' in v):
        inner = json.dumps(v)
        if '"o"' in inner or '"f"' in inner:
            return interp.MARK       # repr of objects inside containers: not compared
    return str(plain(v))


class Ref:
    """reference evaluator: Python semantics written with Python's own try statements"""

    def __init__(self, ns, subs, faults, fault_cls):
        self.ns, self.subs = ns, subs
        self.calls = 0
        self.log = []
        self.faults = set(faults)
        self.fault_cls = proggen.CLASSES[fault_cls][0]

    def call(self, f):
        n = self.calls
        self.calls += 1
        self.log.append(f['f'])
        if n in self.faults:
            raise self.fault_cls('fault')
        return f['r']

    def value(self, n, hst, call=True):
        if n in ('error_type', 'error_value'):
            if not hst:
                raise KeyError(n)
            return {'s': hst[-1][0 if n == 'error_type' else 1]}
        if n not in self.ns:
            raise KeyError(n)
        v = self.ns[n]
        if isinstance(v, dict) and 'f' in v and call:
            return self.call(v)
        if isinstance(v, dict) and 'T' in v and call:
            return self.sub(v['T'], hst)
        return v

    def sub(self, i, hst):
        try:
            return {'s': self.blocks(self.subs[i], hst)}
        except Ret as r:
            return r.v

    def src(self, s, hst):
        if s[0] == 'n':
            return self.value(s[1], hst)
        e = s[1]
        if e[0] == 'lit':
            return e[1]
        if e[0] == 'name':
            return self.value(e[1], hst, call=False)
        if e[0] == 'call':
            return self.call(self.ns[e[1][1]])
        raise ValueError(e)

    def blocks(self, bs, hst):
        return ''.join(self.blk(b, hst) for b in bs)

    def blk(self, b, hst):
        k = b[0]
        if k == 'lit':
            return b[1]
        if k == 'var':
            try:
                v = self.src(b[1], hst)
            except KeyError as e:
                if b[3] is not None and b[1][0] == 'n' and e.args[0] == b[1][1]:
                    return b[3]
                raise
            return jstr(v)
        if k == 'call':
            self.src(b[1], hst)
            return ''
        if k == 'cond':
            for s, body in b[1]:
                try:
                    v = self.src(s, hst)
                except KeyError:
                    v = None
                if v if not isinstance(v, dict) else (v.get('s', 'x') != ''):
                    return self.blocks(body, hst)
            return self.blocks(b[2], hst) if b[2] is not None else ''
        if k == 'in':
            seq = self.value(b[1][1], hst)['l']
            if not seq:
                return self.blocks(b[4], hst) if b[4] is not None else ''
            return ''.join(self.blocks(b[3], hst) for _ in seq)
        if k == 'with':
            self.value(b[1][1], hst)
            return self.blocks(b[4], hst)
        if k == 'let':
            for n, s in b[1]:
                self.src(s, hst)
            return self.blocks(b[2], hst)
        if k == 'try':
            _, body, hs, els = b
            try:
                r = self.blocks(body, hst)
            except Ret:
                raise
            except Exception as e:  # noqa
                h = self.find(hs, type(e))
                if h is None:
                    raise
                return self.blocks(h, hst + [(type(e).__name__, proggen.exc_msg(e))])
            else:
                if els is not None:
                    r = r + self.blocks(els, hst)
                return r
        if k == 'tryfin':
            r = ''
            try:
                r = self.blocks(b[1], hst)
            finally:
                f = self.blocks(b[2], hst)
            return r + f
        if k == 'raise':
            _, cls, e, body = b
            if e is None:
                c = proggen.CLASSES.get(cls, (None,))[0] if cls in RAISE_BY_NAME else None
                if c is None:
                    c = RuntimeError
            else:
                c = proggen.CLASSES[self.ns[e[1]]['x']][0]
            try:
                v = self.blocks(body, hst)
            except Ret:
                raise
            except Exception:  # noqa
                v = 'Invalid Error Value'
            raise c(v)
        if k == 'ret':
            raise Ret(self.src(b[1], hst))
        raise ValueError(k)

    @staticmethod
    def find(hs, cls):
        names = [c.__name__ for c in cls.__mro__]
        for nm, body in hs:
            if nm == '' or nm in names:
                return body
        return None


# --------------------------------------------------------------------------- generator

def mark(g):
    """a callable whose invocation shows that this point was rendered"""
    return ['call', ['n', g.r.choice(['f', 'g', 'h'])]]


def gen_blocks(g, depth, width=2):
    out = []
    for _ in range(g.r.randint(1, width)):
        if g.r.random() < 0.6:
            out.append(['lit', g.r.choice(['a', 'b', 'c', 'x ', '-'])])
        out.append(gen_block(g, depth))
    return out


def gen_handlers(g, depth):
    r = g.r
    hs = []
    n = r.randint(1, 3)
    for i in range(n):
        body = gen_blocks(g, depth - 1, 1)
        if r.random() < 0.6:
            body.append(['var', ['n', r.choice(['error_type', 'error_value'])], False, None, None])
        if i == n - 1 and r.random() < 0.25:
            hs.append([[''], body])
        else:
            hs.append([r.sample(HANDLER_NAMES, r.choice([1, 1, 1, 2])), body])
    return hs


def gen_block(g, depth):
    r = g.r
    kinds = ['mark', 'mark', 'var', 'lit', 'raise0', 'ret0', 'errprobe']
    if depth > 0:
        kinds += ['try', 'try', 'try', 'tryfin', 'tryfin', 'raise', 'ret', 'cond', 'in', 'with', 'let']
        if not getattr(g, 'in_sub', False):
            kinds.append('sub')
    k = r.choice(kinds)
    if k == 'lit':
        return ['lit', r.choice(['L', '!'])]
    if k == 'mark':
        return mark(g)
    if k == 'var':
        return ['var', ['n', r.choice(['f', 'g', 'v1', 'v2'])], False, None, None]
    if k == 'errprobe':
        # error_type / error_value must be visible inside handlers only
        return ['var', ['n', r.choice(['error_type', 'error_value'])], False, 'NOERR', None]
    if k in ('raise0', 'raise'):
        body = [['lit', r.choice(['m1', 'msg two', ''])]] if k == 'raise0' or r.random() < 0.6 else gen_blocks(g, depth - 1, 1)
        if r.random() < 0.6:
            return ['raise', r.choice(RAISE_BY_NAME), None, body]
        return ['raise', 'exc_cls', ['name', r.choice(['cls1', 'cls2', 'cls3', 'ValueError', 'LookupError'])], body]
    if k in ('ret0', 'ret'):
        if r.random() < 0.8:
            return ['ret', ['n', r.choice(list(RET_VALUES) + ['f'])]]
        return ['ret', ['e', ['lit', r.choice([0, 9])]]]
    if k == 'try':
        hs = gen_handlers(g, depth)
        els = gen_blocks(g, depth - 1, 1) if r.random() < 0.4 else None
        return ['tryX', gen_blocks(g, depth - 1, 2), hs, els]
    if k == 'tryfin':
        return ['tryfin', gen_blocks(g, depth - 1, 2), gen_blocks(g, depth - 1, 1)]
    if k == 'cond':
        return ['cond', [[['n', r.choice(['t1', 'f0', 'f0', 'nodef'])], gen_blocks(g, depth - 1, 1)],
                         [['n', 't1'], gen_blocks(g, depth - 1, 1)]], None]
    if k == 'in':
        return ['in', ['n', r.choice(['seq2', 'seq2', 'seq0'])], {}, gen_blocks(g, depth - 1, 1),
                gen_blocks(g, depth - 1, 1) if r.random() < 0.3 else None]
    if k == 'with':
        return ['with', ['n', 'wobj'], False, False, gen_blocks(g, depth - 1, 1)]
    if k == 'let':
        return ['let', [['zz', ['n', r.choice(['v1', 'f'])]]], gen_blocks(g, depth - 1, 1)]
    if k == 'sub':
        return ['var', ['n', 'sub0'], False, None, None]
    raise ValueError(k)


def expand(bs):
    """multi-name handlers `<dtml-except A B>` are one handler per name for model and reference"""
    out = []
    for b in bs:
        k = b[0]
        if k == 'tryX':
            hs = []
            for names, body in b[2]:
                for n in names:
                    hs.append([n, expand(body)])
            out.append(['try', expand(b[1]), hs, expand(b[3]) if b[3] is not None else None])
        elif k == 'tryfin':
            out.append(['tryfin', expand(b[1]), expand(b[2])])
        elif k == 'raise':
            out.append(['raise', b[1], b[2], expand(b[3])])
        elif k == 'cond':
            out.append(['cond', [[s, expand(x)] for s, x in b[1]], expand(b[2]) if b[2] is not None else None])
        elif k == 'in':
            out.append(['in', b[1], b[2], expand(b[3]), expand(b[4]) if b[4] is not None else None])
        elif k == 'with':
            out.append(['with', b[1], b[2], b[3], expand(b[4])])
        elif k == 'let':
            out.append(['let', b[1], expand(b[2])])
        else:
            out.append(b)
    return out


def print_blocks(bs):
    return ''.join(print_block(b) for b in bs)


def print_block(b):
    k = b[0]
    if k == 'tryX':
        s = '<dtml-try>' + print_blocks(b[1])
        for names, hb in b[2]:
            s += '<dtml-except %s>' % ' '.join(names) + print_blocks(hb)
        if b[3] is not None:
            s += '<dtml-else>' + print_blocks(b[3])
        return s + '</dtml-try>'
    if k == 'tryfin':
        return '<dtml-try>%s<dtml-finally>%s</dtml-try>' % (print_blocks(b[1]), print_blocks(b[2]))
    if k == 'raise':
        a = b[1] if b[2] is None else 'expr="%s"' % proggen.expr_src(b[2])
        return '<dtml-raise %s>%s</dtml-raise>' % (a, print_blocks(b[3]))
    if k == 'cond':
        conds = b[1]
        s = '<dtml-if %s>%s' % (proggen.src_attr(conds[0][0]), print_blocks(conds[0][1]))
        for c, body in conds[1:]:
            s += '<dtml-elif %s>%s' % (proggen.src_attr(c), print_blocks(body))
        if b[2] is not None:
            s += '<dtml-else>' + print_blocks(b[2])
        return s + '</dtml-if>'
    if k == 'in':
        out = '<dtml-in %s>%s' % (proggen.src_attr(b[1]), print_blocks(b[3]))
        if b[4] is not None:
            out += '<dtml-else>' + print_blocks(b[4])
        return out + '</dtml-in>'
    if k == 'with':
        return '<dtml-with %s>%s</dtml-with>' % (proggen.src_attr(b[1]), print_blocks(b[4]))
    if k == 'let':
        return '<dtml-let %s>%s</dtml-let>' % (' '.join('%s=%s' % (n, s[1]) for n, s in b[1]), print_blocks(b[2]))
    return proggen.print_block(b)


class G:
    def __init__(self, r):
        self.r = r


def gen_case(r, depth):
    g = G(r)
    ns = {'f': {'f': 1, 'r': {'s': 'F'}}, 'g': {'f': 2, 'r': 3}, 'h': {'f': 3, 'r': None},
          'v1': {'s': 'one'}, 'v2': 2, 't1': 1, 'f0': 0,
          'seq2': {'l': [{'o': 1, 'a': [['w', 1]]}, {'o': 2, 'a': [['w', 2]]}]}, 'seq0': {'l': []},
          'wobj': {'o': 3, 'a': [['w', 3]]},
          'cls1': {'x': r.choice(RAISE_BY_EXPR), 'm': ''}, 'cls2': {'x': r.choice(RAISE_BY_EXPR), 'm': ''},
          'cls3': {'x': 'E3', 'm': ''}, 'sub0': {'T': 1},
          # names of built-in exceptions bound to OTHER classes: an expression naming them must see the namespace's value
          'ValueError': {'x': r.choice(['E3', 'KeyError']), 'm': ''}, 'LookupError': {'x': r.choice(['EM', 'E1']), 'm': ''}}
    ns.update(RET_VALUES)
    main = gen_blocks(g, depth, 3)
    g.in_sub = True
    sub = gen_blocks(g, 1, 2)
    case = {
        'templates': [{'blocks': expand(main), 'globals': [], 'vars': [], 'source': print_blocks(main)},
                      {'blocks': expand(sub), 'globals': [], 'vars': [], 'source': print_blocks(sub)}],
        'main': 0, 'clients': [], 'mapping': [], 'kw': [[k, v] for k, v in ns.items()],
        'classes': proggen.class_table(), 'denied': [], 'guard': False, 'utf8': True,
    }
    return case, ns


def reference(case, ns, faults, fault_cls):
    ref = Ref(ns, [t['blocks'] for t in case['templates']], faults, fault_cls)
    try:
        out = {'ok': {'s': ref.blocks(case['templates'][0]['blocks'], [])}}
    except Ret as r:
        out = {'ok': norm_json(r.v)}
    except Exception as e:  # noqa
        out = {'raise': type(e).__name__, 'msg': proggen.exc_msg(e)}
    return out, ref.log


def features(src):
    f = []
    for t in ('dtml-except', 'dtml-finally', 'dtml-else', 'dtml-raise', 'dtml-return'):
        if t in src:
            f.append(t[5:])
    return tuple(f)


def check(res, items, have_driver):
    cases = [c for c, ns, plan in items]
    plans = [plan for c, ns, plan in items]
    res.have_driver = have_driver
    runs = interp.run_cases(res, cases, plans)
    for (c0, ns, plan0), (c, plan, impl, m) in zip(items, runs):
        res.evaluations += 1
        exp, exp_log = reference(c, ns, plan[0], plan[1])
        got = impl['result']
        got_log = [e[1] for e in impl['events'] if e[0] == 'call']
        same = exp == got or ('raise' in exp and 'raise' in got and exp['raise'] == got['raise'] and
                              exp['raise'] in interp.INTERNAL)
        src = c['templates'][0]['source']
        res.nt((features(src), plan[0] != (), 'raise' in got, got.get('raise')))
        res.count('outcome=' + ('raise' if 'raise' in got else 'ok'))
        if not same or exp_log != got_log:
            res.oracle_fail.append({'case': {'source': src, 'sub0': c['templates'][1]['source'], 'faults': list(plan[0]),
                                             'fault_cls': plan[1]},
                                    'what': 'Python-semantics reference gives %r with calls %r; the engine gives %r with calls %r'
                                            % (exp, exp_log, got, got_log)})
        if m is not None:
            d = interp.compare(impl, m)
            if d == 'oom':
                res.count('outside_model')
                continue
            res.corr_checked += 1
            if d:
                res.corr_mismatch.append({'case': dict(interp.brief(c), faults=list(plan[0]), fault_cls=plan[1]),
                                          'impl': impl['result'], 'model': m['result'], 'diff': d})
    return runs


def gen_items(r, n):
    items = []
    for _ in range(n):
        c, ns = gen_case(r, r.choice([1, 2, 3, 3]))
        items.append((c, ns, ((), 'ValueError')))
        # the same program with the k-th call raising
        ref = Ref(ns, [t['blocks'] for t in c['templates']], (), 'ValueError')
        try:
            ref.blocks(c['templates'][0]['blocks'], [])
        except Exception:  # noqa
            pass
        ncalls = ref.calls
        for k in (r.sample(range(ncalls), min(ncalls, 3)) if ncalls else []):
            items.append((c, ns, ((k,), r.choice(FAULT_CLASSES))))
    return items


def run(res, tier, have_driver):
    r = common.rng('C14')
    res.rule = ('random programs: dtml-try with 1..3 handlers (single / multi-name / bare) over E1<E2<E3, EM(E1,ValueError) and '
                'built-ins, optional else; try/finally; dtml-raise by name (incl. unknown) and by expression with literal or '
                'nested bodies; dtml-return of int/str/None/bool/list/dict/object/callable result; nesting <= 3 inside '
                'if/in/with/let; sub-template by name; each program also with the k-th callable invocation raising '
                '(ValueError/KeyError/E2/E3/EM/TypeError); non-trivial = distinct (tag features, fault?, outcome class)')
    items = gen_items(r, 900 if tier == 'quick' else 12000)
    runs = check(res, items, have_driver)
    for i in (0, len(runs) // 2, len(runs) - 1):
        c, plan, impl, m = runs[i]
        res.sample({'source': c['templates'][0]['source'][:300], 'faults': list(plan[0]), 'result': impl['result']})
    res.assumptions += ['interpreter model validated (not verified) against the real classes',
                        'reference evaluator = Python try/except/else/finally over the abstract program; handler match = name of '
                        'the class or of any class in its MRO',
                        'messages of exceptions CPython raises itself (TypeError, AttributeError, …) are not compared']


def search_more(res, tier):
    r = common.rng('C14-more')
    res2 = common.Result('C14')
    check(res2, gen_items(r, 3000), False)
    return res2.oracle_fail


def replay(path):
    with open(path) as f:
        d = json.load(f)
    print(json.dumps(d.get('first', d), indent=1)[:3000])
    return 1
