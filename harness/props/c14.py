"""C14 — try/except/else/finally, raise and return follow Python-like control flow.

Generator: programs over dtml-try (handler lists over a 3-deep class hierarchy with multiple inheritance and built-ins,
multi-name handlers, bare handlers, else), try/finally, dtml-raise (by name / by expression, body = message), dtml-return
(values of any type), nested <= 3 and wrapped in if / in / with / let blocks, sub-templates invoked by name; callables
with a logged side effect mark what was rendered; a fault plan makes the k-th call raise.
Oracle: a reference evaluator written with plain Python try statements (independent of the model and of the engine):
the result (text / returned value / exception class + message) and the ordered call log must be equal.
Correspondence: the same programs on the Lean interpreter model.

Histories (oracle only; the model has one class per name): ONE compiled template (and sub-template) rendered 2..4 times
with other data each time -- exception classes rebound (also to a DIFFERENT class with the SAME __name__ and other bases),
other fault plans / fault classes, other returned values, other rendered messages, unchanged repeats -- through fresh
keyword arguments or through one caller-owned mapping object re-used by every rendering; plus loops that reach the same
compiled try / raise several times within one rendering with another class each time.  Every rendering is compared with
the stateless Python-semantics reference (result, class identity of a propagated exception, ordered call log): whatever
a compiled tag remembers from an earlier evaluation must not change a later one.

Values handed to dtml-return (programs: also on the model; histories: more types): text, numbers, None, booleans (kept apart
from 0 / 1: outcomes are compared with their exact types), byte strings (empty, ASCII, UTF-8, and -- returned by the main
template only -- Latin-1 text / image data / every byte value, also inside containers), tuples, empty containers, floats,
huge ints, objects, classes and uncalled callables; named by name, expr="name", expr="_['name']", expr="f()", a literal, or
the name of a sub-template (its value handed on).  In the histories the object that comes back must be THE object the
caller passed (identity), when dtml-return was given a name.

Sweeps (oracle by construction, real code only, the same on every seed apart from the sampled part):
  * sweep_returns: dtml-return of ~50 values of every type (incl. binary byte strings, bytearray, memoryview, str / bytes / int
    subclasses, exception instances, classes, templates, functions) x 11 ways of naming the value x 25 block contexts
    (every section of try / try-finally incl. a finally with a pending exception, raise bodies, if / elif / else / unless,
    in / in-else / batched in, with / with mapping, let, sub-templates by name / called / called with keywords), nested to
    depth 2 (all ordered pairs) and 3 (sample; thorough: all), data passed as keywords / mapping / client object / all
    three: the call returns the identical object, raises nothing, and the logging calls rendered are exactly those Python
    control flow runs (before the return; finally bodies inside-out; nothing else).
  * sweep_scopes: the same contexts left by an exception (6 kinds, caught by a try around the nest) or by a return inside
    a sub-template; afterwards probes of error_type / error_value / error_tb, let names, with attributes / keys, sequence
    variables, sub-template keywords and an enclosing let must find everything unbound again.
  * both sweeps again over TEMPLATE CLASSES (HTML, a plain subclass, HTML with the security mix-in RestrictedDTML that Zope's
    DTML Method / Document use: every look-up goes through the security policy) x 10 ways the catching handler reads
    error_type / error_value / error_tb (name, entity, expr, _[...], _.getitem, let, in, if, after a nested try, inside a with)
    x RE-ENTERED renderings: every logging call -- before the exit and in the finally bodies a pending return / exception
    passes -- renders the same compiled template (and sub-templates) to its end with another value; each rendering must
    return its own value / text and render its own logging calls (a pending outcome belongs to the call, not to the tag).
  * sweep_handlers: EVERY exception class Python defines below Exception (read off `builtins`: 58 classes incl. the OSError /
    Warning families, RecursionError, MemoryError, StopIteration, SyntaxError ...), a user class and a user class of that class
    below each, a class mixing each into another hierarchy (229 classes) x 18 ways the try body meets the exception
    (dtml-raise by name / type= / expr, failing name / call / condition / let value / loop source, raised by an inner
    handler / else / finally, through an inner finally, past inner non-matching handlers, sub-template, loop, with) x ~18
    forms of handler list built from Python's own MRO (own name, each base up to Exception, BaseException, bare, misses
    first, base before own name, multi-name, subclass names only, look-alike names only, ...) x else / no else x template
    classes: the first matching handler's text with error_type = the class name and error_value THE exception (class
    identity, args), nothing else rendered, error_type unbound afterwards; or the very exception propagates.
The random programs (model + reference) and the histories draw from the same class tree: in 40 % of them handler names, the
classes dtml-raise names / computes and the classes callables fail with come from ONE branch of it (a user class and all
above it); the model gets the built-in classes with their bases in its class table.
"""
import json

import common
import interp
import proggen

HANDLER_NAMES = ['ValueError', 'KeyError', 'LookupError', 'E1', 'E2', 'E3', 'EM', 'Exception', 'TypeError',
                 'ZeroDivisionError', 'ArithmeticError', 'RuntimeError']
RAISE_BY_NAME = ['KeyError', 'ValueError', 'LookupError', 'ZeroDivisionError', 'NoSuchClass', 'TypeError', 'RuntimeError']
RAISE_BY_EXPR = ['E1', 'E2', 'E3', 'EM', 'KeyError', 'ValueError']
RET_VALUES = {'r_int': 5, 'r_str': {'s': 'txt'}, 'r_none': None, 'r_true': True,
              'r_list': {'l': [1, {'s': 'a'}]}, 'r_dict': {'d': [['k', 1]]}, 'r_obj': {'o': 77, 'a': [['p', 1]]},
              'r_bytes': {'b': list(b'plain')}, 'r_bytes_u8': {'b': list('h\u00e9\u20ac'.encode('utf-8'))},
              'r_bytes0': {'b': []}, 'r_tuple': {'t': [1, {'s': 'a'}]}, 'r_nested': {'l': [{'b': list(b'x')}, {'t': []}]},
              'r_empty': {'s': ''}, 'r_false': False, 'r_zero': 0, 'r_list0': {'l': []}}
# binary data that is NOT text in the template encoding (Latin-1 text, an image header, bytes inside a container): only
# ever named by a dtml-return of the MAIN template, so that it is never inserted into text (what dtml-var does with
# undecodable bytes is C19's subject, not this property's)
MAIN_RET_VALUES = {'r_latin1': {'b': list('caf\u00e9'.encode('latin-1'))},
                   'r_bin': {'b': list(b'\x89PNG\r\n\x1a\n\x00\x00\x00\rIHDR\xff')},
                   'r_bin_list': {'l': [{'b': [0xff, 0xfe, 0x00]}, {'b': []}]}}
FAULT_CLASSES = ['ValueError', 'KeyError', 'E2', 'E3', 'EM', 'TypeError']


def _mk(name, *bases):
    return type(name, bases, {})


# classes for the histories: key 'Name/Base'.  Several DISTINCT classes share a __name__ (as zExceptions.NotFound and
# zope.publisher.interfaces.NotFound do, or the ConflictError of two packages) but have other bases, some are named like
# a built-in / like a class of proggen's hierarchy without being related to it; Conflict/Stale and NotFound/BadRequest
# are 3 deep below ValueError.  Handlers are chosen by the names of the class raised NOW and of ITS bases.
_BAD_REQUEST = _mk('BadRequest', ValueError)
_STALE = _mk('Stale', ValueError)
TWINS = {
    'Conflict/KeyError': _mk('Conflict', KeyError),
    'Conflict/Stale': _mk('Conflict', _STALE),
    'Conflict/E3': _mk('Conflict', proggen.E3),
    'Conflict/Exception': _mk('Conflict', Exception),
    'Conflict/EM': _mk('Conflict', proggen.EM),
    'Stale/ValueError': _STALE,
    'Stale/E1': _mk('Stale', proggen.E1),
    'Stale/ZeroDivisionError': _mk('Stale', ZeroDivisionError),
    'E2/ValueError': _mk('E2', ValueError),
    'E2/Exception': _mk('E2', Exception),
    'E3/KeyError': _mk('E3', KeyError),
    'EM/TypeError': _mk('EM', TypeError),
    # named like a built-in or a zExceptions class, but unrelated to it
    'NotFound/KeyError': _mk('NotFound', KeyError),
    'NotFound/BadRequest': _mk('NotFound', _BAD_REQUEST),
    'NotFound/E3': _mk('NotFound', proggen.E3),
    'NotFound/Exception': _mk('NotFound', Exception),
    'BadRequest/ValueError': _BAD_REQUEST,
    'BadRequest/E1': _mk('BadRequest', proggen.E1),
    'KeyError/E1': _mk('KeyError', proggen.E1),
    'KeyError/Exception': _mk('KeyError', Exception),
    'ValueError/E2': _mk('ValueError', proggen.E2),
    'TypeError/LookupError': _mk('TypeError', LookupError),
    'RuntimeError/EM': _mk('RuntimeError', proggen.EM),
}
HIST_POOL = sorted(set(RAISE_BY_EXPR + FAULT_CLASSES + ['RuntimeError', 'ZeroDivisionError'])) + sorted(TWINS)
HIST_HANDLER_NAMES = HANDLER_NAMES + ['Conflict', 'Conflict', 'Stale', 'NotFound', 'BadRequest']


# EVERY exception class Python itself defines (read off the `builtins` module, not off the library): all classes below
# Exception that take one message argument and print it (58 of 62: ArithmeticError .. ZeroDivisionError, the OSError
# and Warning families, RecursionError / MemoryError / StopIteration / SyntaxError ...), each with its bases as Python
# reports them.  Nothing in the property depends on WHICH class is raised: a handler is chosen by the names of the class
# and of its bases.  Below every one of them: a user class and a user class of that user class (3 deep below the
# built-in's own base, e.g. RuntimeError > RecursionError > MyRecursionError > MyRecursionErrorChild), and a class that
# mixes it into proggen's hierarchy (Mixed<B>(E1, B)).  Keys as in TWINS: 'Name/Base'.
def _wide_builtins():
    import builtins
    out = {}
    for n in sorted(vars(builtins)):
        c = getattr(builtins, n)
        if not (isinstance(c, type) and issubclass(c, Exception) and c.__name__ == n):
            continue        # (aliases such as IOError / EnvironmentError are OSError itself: one class, one name)
        try:
            e = c('m')
            if not (str(e) == 'm' or (isinstance(e, KeyError) and e.args == ('m',))):
                continue
        except Exception:  # noqa: UnicodeDecodeError, ExceptionGroup want other arguments
            continue
        out[n] = c
    return out


WIDE_BUILTINS = _wide_builtins()
WIDE_USER = {}
for _n, _c in WIDE_BUILTINS.items():
    if _n == 'Exception':
        continue
    _u = _mk('My' + _n, _c)
    WIDE_USER['My%s/%s' % (_n, _n)] = _u
    WIDE_USER['My%sChild/My%s' % (_n, _n)] = _mk('My%sChild' % _n, _u)
    WIDE_USER['Mixed%s/E1+%s' % (_n, _n)] = _mk('Mixed' + _n, proggen.E1, _c)
WIDE_KEYS = sorted(WIDE_BUILTINS) + sorted(WIDE_USER)
# the class table handed to the Lean model with every program: proggen's + every built-in class with its bases
WIDE_TABLE = proggen.class_table() + [[_n, [b.__name__ for b in _c.__bases__]] for _n, _c in sorted(WIDE_BUILTINS.items())
                                      if _n not in proggen.CLASSES]


def mro_names(c):
    """the names a handler may use for class c: its own and those of all its bases up to Exception (Python's own MRO)"""
    return [k.__name__ for k in c.__mro__ if k not in (BaseException, object)]


def family_of(r):
    """one branch of the class tree: a (user) class and everything above it; (keys of the classes, their names)"""
    leaf = r.choice(sorted(WIDE_USER))
    c = WIDE_USER[leaf]
    keys = [k for k in WIDE_KEYS if issubclass(c, cls_of(k))]
    return keys, mro_names(c)

# LEFT OUT (a violation on the unchanged library, reported, not hidden): `<dtml-raise expr="c">` where c is a class whose
# __name__ is also the name of a built-in or zExceptions exception (NotFound, BadRequest, KeyError, ...) does not raise
# the computed class c but the built-in / zExceptions class of that name (DT_Raise.render passes the evaluated class
# through zExceptions.upgradeException, which looks the class up again BY NAME).  Until that is settled such classes are
# raised by callables only (fault plans), never through dtml-raise; classes named Conflict / Stale / E2 / E3 / EM take
# their place in the class bindings.
RAISE_EXPR_RENAMES_CLASS = False   # repaired in /repo (fix d09f091): such classes are generated again


def _upgraded_by_name(key):
    import builtins
    import zExceptions
    n = cls_name(key)
    other = getattr(builtins, n, None) or getattr(zExceptions, n, None)
    return other is not None and other is not cls_of(key)


def cls_of(key):
    """class key ('E2', 'NotFound/KeyError', 'RecursionError', 'MyMemoryError/MemoryError', ...) -> the Python class"""
    if key in TWINS:
        return TWINS[key]
    if key in WIDE_USER:
        return WIDE_USER[key]
    if key in proggen.CLASSES:
        return proggen.CLASSES[key][0]
    return WIDE_BUILTINS[key]


def cls_name(key):
    return key.split('/')[0]


SAME_NAME = {}
for _k in HIST_POOL + [_k for _k in WIDE_KEYS if _k not in HIST_POOL]:
    SAME_NAME.setdefault(cls_name(_k), []).append(_k)
# classes that may be bound to the names dtml-raise evaluates
EXPR_POOL = [_k for _k in HIST_POOL if not (RAISE_EXPR_RENAMES_CLASS and _upgraded_by_name(_k))]
EXPR_TWINS = [_k for _k in EXPR_POOL if _k in TWINS]
KEY_OF = {id(cls_of(_k)): _k for _k in WIDE_KEYS}
KEY_OF.update({id(cls_of(_k)): _k for _k in HIST_POOL})


class Ret(Exception):
    def __init__(self, v, origin=None):
        self.v = v
        # the namespace name whose (non-callable) value was handed to dtml-return as it is: the call must return THAT
        # object (histories and sweep compare identities on the real code)
        self.origin = origin


def strict_eq(a, b):
    """equality of two JSON-form outcomes that also tells True from 1 and False from 0 (a returned value keeps its type)"""
    if type(a) is not type(b):
        return False
    if isinstance(a, dict):
        return a.keys() == b.keys() and all(strict_eq(a[k], b[k]) for k in a)
    if isinstance(a, (list, tuple)):
        return len(a) == len(b) and all(strict_eq(x, y) for x, y in zip(a, b))
    return a == b


def handed_through(exp, got):
    """A template whose rendering consists of ONE inserted byte string hands that piece back undecoded (render_blocks
    returns rendered[0]); next to any other text it is decoded.  Which of the two happens is C19's subject: the reference
    here always joins text.  Only for an expected TEXT result; a value given to dtml-return is never excused.
    The same for the body of a dtml-raise that consists of one inserted byte string: the message is the rendered body, i.e.
    that byte string (the exception class, and its identity in the histories, must still be the expected one)."""
    try:
        if 'raise' in exp:
            e, g = exp['msg'], got['msg']
            return (exp['raise'] == got['raise'] and exp.get('cls') == got.get('cls') and isinstance(e, str) and
                    (g == e.encode('utf-8') or g == repr(e.encode('utf-8'))))
        e, g = exp['ok'], got['ok']
        return set(e) == {'s'} and set(g) == {'b'} and bytes(g['b']).decode('utf-8') == e['s']
    except Exception:  # noqa
        return False


def norm_json(v):
    if isinstance(v, dict):
        if 'o' in v:
            return {'o': v['o']}
        if 'f' in v:
            return {'f': v['f']}
        if 'x' in v:
            return {'x': v['x'], 'm': ''}
        if 'fl' in v:
            return {'fl': repr(float(v['fl']))}
        if 'l' in v:
            return {'l': [norm_json(x) for x in v['l']]}
        if 't' in v:
            return {'t': [norm_json(x) for x in v['t']]}
        if 'd' in v:
            return {'d': [[k, norm_json(x)] for k, x in v['d']]}
    return v


def plain(v):
    """JSON-form value -> plain Python value with the same str()"""
    if isinstance(v, dict):
        if 's' in v:
            return v['s']
        if 'b' in v:
            return bytes(v['b'])
        if 'fl' in v:
            return float(v['fl'])
        if 'x' in v:
            return cls_of(v['x'])
        if 'l' in v:
            return [plain(x) for x in v['l']]
        if 't' in v:
            return tuple(plain(x) for x in v['t'])
        if 'd' in v:
            return {k: plain(x) for k, x in v['d']}
        if 'o' in v:
            return proggen.Obj(v['o'], {})
    return v


def jstr(v):
    """str() of a JSON-form value that dtml-var inserts"""
    if isinstance(v, dict) and ('l' in v or 't' in v or 'd' in v):
        inner = json.dumps(v)
        if '"o"' in inner or '"f"' in inner:
            return interp.MARK       # repr of objects inside containers: not compared
    if isinstance(v, dict) and 'b' in v:
        # a byte string inserted into text is text in the template's encoding (UTF-8 unless the constructor is told
        # otherwise); the generator lets only UTF-8 byte strings get here
        return bytes(v['b']).decode('utf-8')
    return str(plain(v))


class Ref:
    """reference evaluator: Python semantics written with Python's own try statements"""

    def __init__(self, ns, subs, faults, fault_cls, trace=None):
        self.ns, self.subs = ns, subs
        self.calls = 0
        self.log = []
        self.faults = set(faults)
        self.fault_cls = cls_of(fault_cls)
        # histories: id(compiled-block description) -> classes that reached it so far (coverage bookkeeping only,
        # never used to compute a result)
        self.trace = trace
        self.revisits = []

    def call(self, f):
        n = self.calls
        self.calls += 1
        self.log.append(f['f'])
        if n in self.faults:
            raise self.fault_cls('fault')
        return f['r']

    def value(self, n, hst, call=True):
        if n in ('error_type', 'error_value'):
            if not hst:
                raise KeyError(n)
            return {'s': hst[-1][0 if n == 'error_type' else 1]}
        if n not in self.ns:
            raise KeyError(n)
        v = self.ns[n]
        if isinstance(v, dict) and 'f' in v and call:
            return self.call(v)
        if isinstance(v, dict) and 'T' in v and call:
            return self.sub(v['T'], hst)
        return v

    def sub(self, i, hst):
        try:
            return {'s': self.blocks(self.subs[i], hst)}
        except Ret as r:
            return r.v

    def src(self, s, hst):
        if s[0] == 'n':
            return self.value(s[1], hst)
        e = s[1]
        if e[0] == 'lit':
            return e[1]
        if e[0] == 'name':
            return self.value(e[1], hst, call=False)
        if e[0] == 'under':
            return self.value(e[1], hst)
        if e[0] == 'call':
            return self.call(self.ns[e[1][1]])
        raise ValueError(e)

    def origin(self, s):
        """the name whose value a dtml-return hands over untouched (plain data looked up by name / expr="name" /
        expr="_['name']"; also a callable or class NAMED by an expression, which is not called), else None"""
        if s[0] == 'n':
            n, called = s[1], True
        elif s[1][0] in ('name', 'under'):
            n, called = s[1][1], s[1][0] == 'under'
        else:
            return None
        v = self.ns.get(n)
        if called and isinstance(v, dict) and ('f' in v or 'T' in v):
            return None
        if isinstance(v, dict) and 'T' in v:
            return None
        return n if n in self.ns else None

    def blocks(self, bs, hst):
        # (a list, not a generator: inside a generator Python turns a StopIteration that a block raises into RuntimeError)
        return ''.join([self.blk(b, hst) for b in bs])

    def blk(self, b, hst):
        k = b[0]
        if k == 'lit':
            return b[1]
        if k == 'var':
            try:
                v = self.src(b[1], hst)
            except KeyError as e:
                if b[3] is not None and b[1][0] == 'n' and e.args[0] == b[1][1]:
                    return b[3]
                raise
            return jstr(v)
        if k == 'call':
            self.src(b[1], hst)
            return ''
        if k == 'cond':
            for s, body in b[1]:
                try:
                    v = self.src(s, hst)
                except KeyError:
                    v = None
                if v if not isinstance(v, dict) else (v.get('s', 'x') != ''):
                    return self.blocks(body, hst)
            return self.blocks(b[2], hst) if b[2] is not None else ''
        if k == 'in':
            seq = self.value(b[1][1], hst)['l']
            if not seq:
                return self.blocks(b[4], hst) if b[4] is not None else ''
            return ''.join([self.blocks(b[3], hst) for _ in seq])
        if k == 'with':
            self.value(b[1][1], hst)
            return self.blocks(b[4], hst)
        if k == 'let':
            for n, s in b[1]:
                self.src(s, hst)
            return self.blocks(b[2], hst)
        if k == 'try':
            _, body, hs, els = b
            try:
                r = self.blocks(body, hst)
            except Ret:
                raise
            except Exception as e:  # noqa
                h = self.find(hs, type(e))
                self.note(b, type(e), hs)
                if h is None:
                    raise
                return self.blocks(h, hst + [(type(e).__name__, proggen.exc_msg(e))])
            else:
                if els is not None:
                    r = r + self.blocks(els, hst)
                return r
        if k == 'tryfin':
            r = ''
            try:
                r = self.blocks(b[1], hst)
            finally:
                f = self.blocks(b[2], hst)
            return r + f
        if k == 'raise':
            _, cls, e, body = b
            if e is None:
                # the class Python knows by that name, else RuntimeError
                c = WIDE_BUILTINS.get(cls, RuntimeError)
            else:
                c = cls_of(self.ns[e[1]]['x'])
                self.note(b, c, None)
            try:
                v = self.blocks(body, hst)
            except Ret:
                raise
            except Exception:  # noqa
                v = 'Invalid Error Value'
            raise c(v)
        if k == 'ret':
            raise Ret(self.src(b[1], hst), self.origin(b[1]))
        if k == 'inC':
            # <dtml-in clsseq prefix=it>: the body once per class of the sequence, the class bound to it_item
            saved = self.ns
            out = ''
            try:
                for it in saved[b[1]]['l']:
                    self.ns = dict(saved, it_item=it)
                    out += self.blocks(b[2], hst)
            finally:
                self.ns = saved
            return out
        raise ValueError(k)

    def note(self, b, cls, hs):
        """coverage bookkeeping of the histories: was this compiled try / raise reached before (earlier rendering or
        earlier loop round) by ANOTHER class / another class of the SAME name / with another handler decision"""
        if self.trace is None:
            return
        seen = self.trace.setdefault(id(b), [])
        kind = 'try' if hs is not None else 'raise'
        others = [c for c in seen if c is not cls]
        twins = [c for c in others if c.__name__ == cls.__name__]
        if others:
            self.revisits.append(kind + '_other_class')
        if twins:
            self.revisits.append(kind + '_same_name_other_class')
            if hs is not None and any(self.find(hs, c) != self.find(hs, cls) for c in twins):
                self.revisits.append('try_same_name_other_handler')
        if len(others) == len(seen):
            seen.append(cls)

    @staticmethod
    def find(hs, cls):
        names = [c.__name__ for c in cls.__mro__]
        for nm, body in hs:
            if nm == '' or nm in names:
                return body
        return None


# --------------------------------------------------------------------------- generator

SUB_CALL = ['var', ['n', 'sub0'], False, None, None]


def mark(g):
    """a callable whose invocation shows that this point was rendered"""
    return ['call', ['n', g.r.choice(['f', 'g', 'h'])]]


def errprobe(g):
    """error_type / error_value must be visible inside handlers only (rendered as NOERR where they are not bound)"""
    return ['var', ['n', g.r.choice(['error_type', 'error_value'])], False, 'NOERR', None]


def gen_blocks(g, depth, width=2):
    out = []
    for _ in range(g.r.randint(1, width)):
        if g.r.random() < 0.6:
            out.append(['lit', g.r.choice(['a', 'b', 'c', 'x ', '-'])])
        b = gen_block(g, depth)
        out.append(b)
        if (b[0] in ('tryX', 'tryfin', 'inC') or b == SUB_CALL) and g.r.random() < 0.4:
            # what a try block (or a sub-template with try blocks) bound for its handler must be gone after the tag,
            # however the handler was left (normally, by an exception, by dtml-return)
            out.append(errprobe(g))
    return out


def section(g, depth, width):
    """the blocks of one section of a tag (try body, handler, else, finally); now and then the section is EMPTY: the
    next tag follows at once (`<dtml-except KeyError><dtml-except>x</dtml-try>`, the idiom to ignore an error)"""
    if g.r.random() < 0.12:
        return []
    return gen_blocks(g, depth, width)


def gen_handlers(g, depth):
    r = g.r
    hs = []
    n = r.randint(1, 3)
    for i in range(n):
        body = section(g, depth - 1, 1)
        if body and r.random() < 0.6:
            body.append(['var', ['n', r.choice(['error_type', 'error_value'])], False, None, None])
        fam = getattr(g, 'family', None)
        if i == n - 1 and r.random() < 0.25:
            hs.append([[''], body])
        elif fam and r.random() < 0.5:
            # names from one branch of Python's own class tree (and of user classes below it)
            hs.append([r.sample(fam[1], min(len(fam[1]), r.choice([1, 1, 2]))), body])
        else:
            hs.append([r.sample(HIST_HANDLER_NAMES if getattr(g, 'hist', False) else HANDLER_NAMES,
                                r.choice([1, 1, 1, 2])), body])
    return hs


def gen_ret(g):
    """dtml-return of a value of any type (text, numbers, None, booleans, byte strings incl. empty / UTF-8 / -- in the main
    template -- binary ones, containers, objects, classes, callables), named in every way the tag accepts: by name (callables
    are called, sub-templates rendered: their own result or returned value is handed on), expr="name" (nothing is called:
    the callable / class itself is the value), expr="_['name']", expr="f()", a literal"""
    r = g.r
    in_sub = getattr(g, 'in_sub', False)
    names = list(RET_VALUES) + ([] if in_sub else list(MAIN_RET_VALUES))
    c = r.random()
    if c < 0.55:
        return ['ret', ['n', r.choice(names + ['f', 'f'])]]
    if c < 0.63:
        return ['ret', ['e', ['lit', r.choice([0, 9, -1, {'s': ''}, {'s': 'lit'}])]]]
    if c < 0.75:
        return ['ret', ['e', ['under', r.choice(names + ['f'])]]]
    if c < 0.87:
        # (a sub-template does not hand an uncalled callable to the main template: inserted there, its repr has an address;
        # a class it hands over is inserted as str(class), which the Lean model does not print: histories only)
        return ['ret', ['e', ['name', r.choice(names + ([] if in_sub else ['f', 'g']) +
                                               (['cls1', 'cls3'] if not in_sub or getattr(g, 'hist', False) else []))]]]
    if c < 0.93 or in_sub:
        return ['ret', ['e', ['call', ['name', r.choice(['f', 'g', 'h'])]]]]
    return ['ret', ['n', 'sub0']]


def gen_block(g, depth):
    r = g.r
    kinds = ['mark', 'mark', 'var', 'lit', 'raise0', 'ret0', 'errprobe']
    if depth > 0:
        kinds += ['try', 'try', 'try', 'tryfin', 'tryfin', 'raise', 'ret', 'cond', 'in', 'with', 'let']
        if not getattr(g, 'in_sub', False):
            kinds.append('sub')
        if getattr(g, 'hist', False) and not getattr(g, 'in_sub', False):
            kinds += ['inC', 'inC']
    k = r.choice(kinds)
    if k == 'lit':
        return ['lit', r.choice(['L', '!'])]
    if k == 'mark':
        return mark(g)
    if k == 'var':
        return ['var', ['n', r.choice(['f', 'g', 'v1', 'v2'])], False, None, None]
    if k == 'errprobe':
        return errprobe(g)
    if k in ('raise0', 'raise'):
        body = [['lit', r.choice(['m1', 'msg two', ''])]] if k == 'raise0' or r.random() < 0.6 else gen_blocks(g, depth - 1, 1)
        if getattr(g, 'in_loop', 0) and r.random() < 0.7:
            return ['raise', 'exc_cls', ['name', 'it_item'], body]
        fam = getattr(g, 'family', None)
        if fam and r.random() < 0.4:
            if getattr(g, 'hist', False) and r.random() < 0.5:
                return ['raise', 'exc_cls', ['name', r.choice(['clsw', 'clsw2'])], body]
            # by name: the built-in classes of the branch (a user class has no name dtml-raise could look up: RuntimeError)
            return ['raise', r.choice([n for n in fam[1] if n in WIDE_BUILTINS]), None, body]
        if r.random() < (0.35 if getattr(g, 'hist', False) else 0.6):
            return ['raise', r.choice(RAISE_BY_NAME), None, body]
        return ['raise', 'exc_cls', ['name', r.choice(['cls1', 'cls2', 'cls3', 'ValueError', 'LookupError'])], body]
    if k in ('ret0', 'ret'):
        return gen_ret(g)
    if k == 'try':
        hs = gen_handlers(g, depth)
        els = section(g, depth - 1, 1) if r.random() < 0.4 else None
        return ['tryX', section(g, depth - 1, 2), hs, els]
    if k == 'tryfin':
        return ['tryfin', section(g, depth - 1, 2), section(g, depth - 1, 1)]
    if k == 'cond':
        return ['cond', [[['n', r.choice(['t1', 'f0', 'f0', 'nodef'])], gen_blocks(g, depth - 1, 1)],
                         [['n', 't1'], gen_blocks(g, depth - 1, 1)]], None]
    if k == 'in':
        return ['in', ['n', r.choice(['seq2', 'seq2', 'seq0'])], {}, gen_blocks(g, depth - 1, 1),
                gen_blocks(g, depth - 1, 1) if r.random() < 0.3 else None]
    if k == 'with':
        return ['with', ['n', 'wobj'], False, False, gen_blocks(g, depth - 1, 1)]
    if k == 'let':
        return ['let', [['zz', ['n', r.choice(['v1', 'f'])]]], gen_blocks(g, depth - 1, 1)]
    if k == 'sub':
        return list(SUB_CALL)
    if k == 'inC':
        # a loop over exception classes: the compiled tags of the body are evaluated once per class
        g.in_loop = getattr(g, 'in_loop', 0) + 1
        try:
            if r.random() < 0.6:
                body = [['tryX', [mark(g), ['raise', 'exc_cls', ['name', 'it_item'], [['lit', r.choice(['lm', ''])]]]],
                         gen_handlers(g, depth), gen_blocks(g, depth - 1, 1) if r.random() < 0.3 else None]]
            else:
                body = gen_blocks(g, depth - 1, 2)
        finally:
            g.in_loop -= 1
        return ['inC', 'clsseq', body]
    raise ValueError(k)


def expand(bs):
    """multi-name handlers `<dtml-except A B>` are one handler per name for model and reference"""
    out = []
    for b in bs:
        k = b[0]
        if k == 'tryX':
            hs = []
            for names, body in b[2]:
                for n in names:
                    hs.append([n, expand(body)])
            out.append(['try', expand(b[1]), hs, expand(b[3]) if b[3] is not None else None])
        elif k == 'tryfin':
            out.append(['tryfin', expand(b[1]), expand(b[2])])
        elif k == 'raise':
            out.append(['raise', b[1], b[2], expand(b[3])])
        elif k == 'cond':
            out.append(['cond', [[s, expand(x)] for s, x in b[1]], expand(b[2]) if b[2] is not None else None])
        elif k == 'in':
            out.append(['in', b[1], b[2], expand(b[3]), expand(b[4]) if b[4] is not None else None])
        elif k == 'with':
            out.append(['with', b[1], b[2], b[3], expand(b[4])])
        elif k == 'let':
            out.append(['let', b[1], expand(b[2])])
        elif k == 'inC':
            out.append(['inC', b[1], expand(b[2])])
        else:
            out.append(b)
    return out


def print_blocks(bs):
    return ''.join(print_block(b) for b in bs)


def print_block(b):
    k = b[0]
    if k == 'tryX':
        s = '<dtml-try>' + print_blocks(b[1])
        for names, hb in b[2]:
            s += '<dtml-except %s>' % ' '.join(names) + print_blocks(hb)
        if b[3] is not None:
            s += '<dtml-else>' + print_blocks(b[3])
        return s + '</dtml-try>'
    if k == 'tryfin':
        return '<dtml-try>%s<dtml-finally>%s</dtml-try>' % (print_blocks(b[1]), print_blocks(b[2]))
    if k == 'raise':
        a = b[1] if b[2] is None else 'expr="%s"' % proggen.expr_src(b[2])
        return '<dtml-raise %s>%s</dtml-raise>' % (a, print_blocks(b[3]))
    if k == 'cond':
        conds = b[1]
        s = '<dtml-if %s>%s' % (proggen.src_attr(conds[0][0]), print_blocks(conds[0][1]))
        for c, body in conds[1:]:
            s += '<dtml-elif %s>%s' % (proggen.src_attr(c), print_blocks(body))
        if b[2] is not None:
            s += '<dtml-else>' + print_blocks(b[2])
        return s + '</dtml-if>'
    if k == 'in':
        out = '<dtml-in %s>%s' % (proggen.src_attr(b[1]), print_blocks(b[3]))
        if b[4] is not None:
            out += '<dtml-else>' + print_blocks(b[4])
        return out + '</dtml-in>'
    if k == 'with':
        return '<dtml-with %s>%s</dtml-with>' % (proggen.src_attr(b[1]), print_blocks(b[4]))
    if k == 'let':
        return '<dtml-let %s>%s</dtml-let>' % (' '.join('%s=%s' % (n, s[1]) for n, s in b[1]), print_blocks(b[2]))
    if k == 'inC':
        return '<dtml-in %s prefix=it>%s</dtml-in>' % (b[1], print_blocks(b[2]))
    return proggen.print_block(b)


class G:
    def __init__(self, r):
        self.r = r


def gen_case(r, depth):
    g = G(r)
    if r.random() < 0.4:
        g.family = family_of(r)
    ns = {'f': {'f': 1, 'r': {'s': 'F'}}, 'g': {'f': 2, 'r': 3}, 'h': {'f': 3, 'r': None},
          'v1': {'s': 'one'}, 'v2': 2, 't1': 1, 'f0': 0,
          'seq2': {'l': [{'o': 1, 'a': [['w', 1]]}, {'o': 2, 'a': [['w', 2]]}]}, 'seq0': {'l': []},
          'wobj': {'o': 3, 'a': [['w', 3]]},
          'cls1': {'x': r.choice(RAISE_BY_EXPR), 'm': ''}, 'cls2': {'x': r.choice(RAISE_BY_EXPR), 'm': ''},
          'cls3': {'x': 'E3', 'm': ''}, 'sub0': {'T': 1},
          # names of built-in exceptions bound to OTHER classes: an expression naming them must see the namespace's value
          'ValueError': {'x': r.choice(['E3', 'KeyError']), 'm': ''}, 'LookupError': {'x': r.choice(['EM', 'E1']), 'm': ''}}
    ns.update(RET_VALUES)
    ns.update(MAIN_RET_VALUES)
    if r.random() < 0.3:
        # a callable that answers a byte string (UTF-8: dtml-var may insert it)
        ns['f'] = {'f': 1, 'r': r.choice([{'b': list(b'Fb')}, {'b': list('F\u00fc'.encode('utf-8'))}, {'b': []}])}
    main = gen_blocks(g, depth, 3)
    g.in_sub = True
    sub = gen_blocks(g, 1, 2)
    case = {
        'templates': [{'blocks': expand(main), 'globals': [], 'vars': [], 'source': print_blocks(main)},
                      {'blocks': expand(sub), 'globals': [], 'vars': [], 'source': print_blocks(sub)}],
        'main': 0, 'clients': [], 'mapping': [], 'kw': [[k, v] for k, v in ns.items()],
        'classes': WIDE_TABLE, 'denied': [], 'guard': False, 'utf8': True,
    }
    return case, ns


def reference(case, ns, faults, fault_cls):
    ref = Ref(ns, [t['blocks'] for t in case['templates']], faults, fault_cls)
    try:
        out = {'ok': {'s': ref.blocks(case['templates'][0]['blocks'], [])}}
    except Ret as r:
        out = {'ok': norm_json(r.v)}
    except Exception as e:  # noqa
        out = {'raise': type(e).__name__, 'msg': proggen.exc_msg(e)}
    return out, ref.log


EMPTY_SECTION = None


def shape_counts(res, src):
    """evidence: programs with an empty section / with an error_type probe right after a try block"""
    global EMPTY_SECTION
    import re
    if EMPTY_SECTION is None:
        EMPTY_SECTION = (re.compile(r'<dtml-except[^>]*>(?=<dtml-except|<dtml-else>|</dtml-try>)'),
                         re.compile(r'<dtml-try>(?=<dtml-except|<dtml-finally>)|<dtml-(?:else|finally)>(?=</dtml-try>)'),
                         re.compile(r'</dtml-try><dtml-var error_(?:type|value) missing="NOERR">'))
    if EMPTY_SECTION[0].search(src):
        res.count('programs_with_empty_handler')
    if EMPTY_SECTION[1].search(src):
        res.count('programs_with_empty_body_else_or_finally')
    if EMPTY_SECTION[2].search(src):
        res.count('programs_probing_error_type_right_after_a_try')


def count_returns(res, exp, case, prefix=''):
    """evidence: how often the call's value is a value handed over by dtml-return, by type"""
    if 'ok' not in exp:
        return
    v = exp['ok']
    srcs = ' '.join(t['source'] for t in case['templates'])
    if isinstance(v, dict) and set(v) == {'s'} and 'dtml-return' not in srcs:
        return
    kind = type(v).__name__ if not isinstance(v, dict) else sorted(v)[0]
    if kind == 'm':
        kind = 'class'
    if kind == 'b':
        try:
            bytes(v['b']).decode('utf-8')
            kind = 'b(utf-8)' if v['b'] else 'b(empty)'
        except UnicodeDecodeError:
            kind = 'b(binary)'
    if not (isinstance(v, dict) and set(v) == {'s'}):
        res.count(prefix + 'call_value_of_type=' + kind)


def features(src):
    f = []
    for t in ('dtml-except', 'dtml-finally', 'dtml-else', 'dtml-raise', 'dtml-return'):
        if t in src:
            f.append(t[5:])
    return tuple(f)


def check(res, items, have_driver):
    cases = [c for c, ns, plan in items]
    plans = [plan for c, ns, plan in items]
    res.have_driver = have_driver
    runs = interp.run_cases(res, cases, plans)
    for (c0, ns, plan0), (c, plan, impl, m) in zip(items, runs):
        res.evaluations += 1
        exp, exp_log = reference(c, ns, plan[0], plan[1])
        got = impl['result']
        got_log = [e[1] for e in impl['events'] if e[0] == 'call']
        same = strict_eq(exp, got) or ('raise' in exp and 'raise' in got and exp['raise'] == got['raise'] and
                                       exp['raise'] in interp.INTERNAL)
        if not same and handed_through(exp, got):
            same = True
            res.count('text_result_or_message_is_one_undecoded_bytes_piece(C19)')
        # (proggen.run_impl records a RecursionError that leaves the call without its message -- it cannot tell one raised
        # by a template from CPython's own; the class is compared here, the message in the histories and the handler sweep)
        rec_nomsg = got == {'raise': 'RecursionError', 'msg': ''} and exp.get('raise') == 'RecursionError'
        if not same and rec_nomsg:
            same = True
            res.count('recursionerror_left_the_call:message_not_recorded_by_run_impl')
        src = c['templates'][0]['source']
        count_returns(res, exp, c)
        res.nt((features(src), plan[0] != (), 'raise' in got, got.get('raise')))
        res.count('outcome=' + ('raise' if 'raise' in got else 'ok'))
        if plan[0] == ():
            shape_counts(res, src)
        if not same or exp_log != got_log:
            res.oracle_fail.append({'case': {'source': src, 'sub0': c['templates'][1]['source'], 'faults': list(plan[0]),
                                             'fault_cls': plan[1]},
                                    'what': 'Python-semantics reference gives %r with calls %r; the engine gives %r with calls %r'
                                            % (exp, exp_log, got, got_log)})
        if m is not None:
            d = interp.compare(dict(impl, result=m['result']) if rec_nomsg and m['result'].get('raise') == 'RecursionError'
                               else impl, m)
            if d == 'oom':
                res.count('outside_model')
                continue
            res.corr_checked += 1
            if d:
                res.corr_mismatch.append({'case': dict(interp.brief(c), faults=list(plan[0]), fault_cls=plan[1]),
                                          'impl': impl['result'], 'model': m['result'], 'diff': d})
    return runs


def gen_items(r, n):
    items = []
    for _ in range(n):
        c, ns = gen_case(r, r.choice([1, 2, 3, 3]))
        items.append((c, ns, ((), 'ValueError')))
        # the same program with the k-th call raising
        ref = Ref(ns, [t['blocks'] for t in c['templates']], (), 'ValueError')
        try:
            ref.blocks(c['templates'][0]['blocks'], [])
        except Exception:  # noqa
            pass
        ncalls = ref.calls
        for k in (r.sample(range(ncalls), min(ncalls, 3)) if ncalls else []):
            items.append((c, ns, ((k,), r.choice(FAULT_CLASSES))))
    return items


# --------------------------------------------------------------------------- histories on ONE compiled template

CLASS_SLOTS = ['cls1', 'cls2', 'cls3', 'ValueError', 'LookupError']
WIDE_SLOTS = ['clsw', 'clsw2']      # bound to classes of ONE branch of Python's class tree (built-in or user classes below)
OTHER_VALUES = [6, -1, {'s': 'other'}, {'s': ''}, None, False, True, {'l': [2]}, {'l': []}, {'d': [['z', 0]]},
                {'o': 78, 'a': [['p', 2]]}, {'t': [1, {'s': 'b'}]},
                # (histories are not run on the model: also types it has not)
                0, 1, 2 ** 70, {'fl': '1.5'}, {'fl': '0.0'}, {'fl': '-2.5e+300'}, {'fl': 'inf'}, {'t': []}, {'d': []},
                {'b': list(b'other')}, {'b': []}, {'b': list('\u00fc\u4e2d'.encode('utf-8'))}, {'l': [{'b': [0xe9]}]},
                {'s': 'caf\u00e9 \u20ac'}]
# (no classes here: these values are looked up BY NAME, which calls callables; a class is returned uncalled through
# expr="cls1", see gen_ret)
# values of the names only the main template returns: binary data of every kind, and now and then something else
OTHER_BIN_VALUES = [{'b': [0xe9]}, {'b': list(range(256))}, {'b': list('na\u00efve'.encode('latin-1'))},
                    {'b': list('\u4e2d'.encode('utf-16'))}, {'b': [0]}, {'b': list(b'GIF89a\x01\x00\x01\x00\x80\xff')},
                    {'t': [{'b': [0xff]}, 1]}, {'d': [['data', {'b': [0x80, 0x81]}]]}, {'b': list(b'ascii after all')}, None]


def pick_class(r, pool=None):
    # half of the time a class whose name is shared with another class
    pool = EXPR_POOL if pool is None else pool
    return r.choice([k for k in pool if k in TWINS]) if r.random() < 0.5 else r.choice(pool)


def twin_of(r, key, pool=None):
    """another class with the same __name__ (other bases), if there is one"""
    pool = EXPR_POOL if pool is None else pool
    alt = [k for k in SAME_NAME[cls_name(key)] if k != key and k in pool]
    return r.choice(alt) if alt else key


def gen_clsseq(r, fam=None):
    """1..3 classes to loop over; often two DISTINCT classes of one name follow each other within the same rendering"""
    ks = [r.choice(fam[0]) if fam and r.random() < 0.4 else pick_class(r) for _ in range(r.randint(1, 3))]
    if r.random() < 0.5:
        ks.insert(r.randrange(len(ks)) + 1, twin_of(r, ks[0]))
    return {'l': [{'x': k, 'm': ''} for k in ks]}


def mutate_ns(r, ns, fam=None):
    """the data of the next rendering: what was changed is reported by kind"""
    ns = dict(ns)
    kinds = set()
    if fam and r.random() < 0.5:
        # another class of the same branch of the class tree (above or below the one bound before)
        ns[r.choice(WIDE_SLOTS)] = {'x': r.choice(fam[0]), 'm': ''}
        kinds.add('branch')
    how = r.choice(['twin', 'twin', 'twin', 'rebind', 'values', 'mixed', 'same'])
    if how in ('twin', 'mixed'):
        for n in CLASS_SLOTS:
            if r.random() < 0.7:
                ns[n] = {'x': twin_of(r, ns[n]['x']), 'm': ''}
        if r.random() < 0.7:
            ns['clsseq'] = {'l': [{'x': twin_of(r, c['x']), 'm': ''} if r.random() < 0.7 else c for c in ns['clsseq']['l']]}
        kinds.add('twin')
    if how in ('rebind', 'mixed'):
        for n in r.sample(CLASS_SLOTS, r.randint(1, 3)):
            ns[n] = {'x': pick_class(r), 'm': ''}
        if r.random() < 0.5:
            ns['clsseq'] = gen_clsseq(r, fam)
        kinds.add('rebind')
    if how in ('values', 'mixed'):
        for n in r.sample(sorted(RET_VALUES) + sorted(MAIN_RET_VALUES) + ['v1', 'v2', 'f', 'g', 't1', 'f0'], r.randint(1, 5)):
            if n in ('f', 'g'):
                ns[n] = {'f': ns[n]['f'], 'r': r.choice([{'s': 'F2'}, 4, None, {'s': ''}, {'l': [1]}, {'b': list(b'Fb')},
                                                         {'b': []}, {'b': list('F\u00fc'.encode('utf-8'))}, {'fl': '2.5'},
                                                         False, {'t': [{'b': [120]}]}])}
            elif n in MAIN_RET_VALUES:
                ns[n] = r.choice(OTHER_BIN_VALUES)
            elif n in ('t1', 'f0'):
                ns[n] = 1 - ns[n]
            elif n in ('v1', 'v2'):
                ns[n] = r.choice([{'s': 'uno'}, 3, {'s': ''}, 0])
            else:
                ns[n] = r.choice(OTHER_VALUES)
        kinds.add('values')
    if how == 'same':
        kinds.add('same')
    return ns, kinds


def gen_history(r, depth):
    g = G(r)
    g.hist = True
    fam = family_of(r)
    if r.random() < 0.45:
        g.family = fam
    ns = {'f': {'f': 1, 'r': {'s': 'F'}}, 'g': {'f': 2, 'r': 3}, 'h': {'f': 3, 'r': None},
          'v1': {'s': 'one'}, 'v2': 2, 't1': 1, 'f0': 0,
          'seq2': {'l': [{'o': 1, 'a': [['w', 1]]}, {'o': 2, 'a': [['w', 2]]}]}, 'seq0': {'l': []},
          'wobj': {'o': 3, 'a': [['w', 3]]}, 'sub0': {'T': 1},
          'clsseq': gen_clsseq(r, getattr(g, 'family', None))}
    for n in CLASS_SLOTS:
        ns[n] = {'x': pick_class(r), 'm': ''}
    for n in WIDE_SLOTS:
        ns[n] = {'x': r.choice(fam[0]), 'm': ''}
    ns.update(RET_VALUES)
    ns.update(MAIN_RET_VALUES)
    main = gen_blocks(g, depth, 3)
    g.in_sub = True
    sub = gen_blocks(g, 1, 2)
    case = {'templates': [{'blocks': expand(main), 'source': print_blocks(main)},
                          {'blocks': expand(sub), 'source': print_blocks(sub)}]}
    subs = [t['blocks'] for t in case['templates']]
    steps = []
    prev_plan = None
    for i in range(r.choice([2, 3, 3, 4])):
        kinds = set()
        if i:
            ns, kinds = mutate_ns(r, ns, getattr(g, 'family', None))
        ref = Ref(ns, subs, (), 'ValueError')
        try:
            ref.blocks(subs[0], [])
        except Exception:  # noqa
            pass
        plan = ((), 'ValueError')
        if ref.calls and r.random() < 0.65:
            if prev_plan and prev_plan[0] and prev_plan[0][0] < ref.calls and r.random() < 0.6:
                # the same invocation fails again, with another class of the same name
                plan = (prev_plan[0], twin_of(r, prev_plan[1], HIST_POOL))
                kinds.add('twin-fault')
            elif getattr(g, 'family', None) and r.random() < 0.5:
                # a callable fails with a class of the branch the handlers name
                plan = ((r.randrange(ref.calls),), r.choice(fam[0]))
                kinds.add('branch-fault')
            else:
                plan = ((r.randrange(ref.calls),), pick_class(r, HIST_POOL))
        prev_plan = plan
        steps.append({'ns': ns, 'faults': plan[0], 'fault_cls': plan[1], 'changed': sorted(kinds)})
    return {'case': case, 'steps': steps, 'via': r.choice(['kw', 'kw', 'mapping'])}


def hist_to_py(world, v, templates):
    if isinstance(v, dict):
        if 'x' in v:
            return cls_of(v['x'])
        if 'fl' in v:
            return float(v['fl'])
        if 'f' in v and v['f'] < proggen.PROBE_BASE:
            return proggen.Fn(world, v['f'], hist_to_py(world, v['r'], templates))
        if 'l' in v:
            return [hist_to_py(world, x, templates) for x in v['l']]
        if 't' in v:
            return tuple(hist_to_py(world, x, templates) for x in v['t'])
        if 'd' in v:
            return {k: hist_to_py(world, x, templates) for k, x in v['d']}
    return proggen.to_py(world, v, templates)


def typed(o):
    """the value a template call gave, in JSON form, with its exact type: floats, classes by identity (Name/Base), True
    kept apart from 1 by strict_eq"""
    if isinstance(o, float):
        return {'fl': repr(o)}
    if isinstance(o, type) and issubclass(o, BaseException):
        return {'x': KEY_OF.get(id(o), o.__name__), 'm': ''}
    if type(o) is list:
        return {'l': [typed(x) for x in o]}
    if type(o) is tuple:
        return {'t': [typed(x) for x in o]}
    if type(o) is dict:
        return {'d': [[k, typed(x)] for k, x in o.items()]}
    return proggen.from_py(o)


def outcome_of_exception(e):
    return {'raise': type(e).__name__, 'msg': proggen.exc_msg(e), 'cls': KEY_OF.get(id(type(e)), type(e).__name__)}


def run_history(h):
    """ONE set of compiled templates, rendered once per step; returns per step (result, call log, problem or None)"""
    from DocumentTemplate import HTML
    world = proggen.World((), ValueError)
    templates = [HTML(t['source']) for t in h['case']['templates']]
    data = {}           # the caller's data: one object for the whole history, updated in place between renderings
    prev = {}
    out = []
    for st in h['steps']:
        for k, v in st['ns'].items():
            if k not in prev or not strict_eq(prev[k], v):      # (0 -> False is a change)
                data[k] = hist_to_py(world, v, templates)
        prev = st['ns']
        world.calls = 0
        world.events = []
        world.faults = set(st['faults'])
        world.fault_cls = cls_of(st['fault_cls'])
        before = dict(data)
        same_as = None
        try:
            o = templates[0](None, data) if h['via'] == 'mapping' else templates[0](**data)
            res = {'ok': typed(o)}
            same_as = {k for k, v in before.items() if v is o}
        except Exception as e:  # noqa
            res = outcome_of_exception(e)
        problem = None
        if set(data) != set(before) or any(data[k] is not before[k] for k in before):
            problem = 'the mapping passed by the caller was changed by the rendering: keys %r' % sorted(
                set(data) ^ set(before) | {k for k in before if k in data and data[k] is not before[k]})
            for k in set(data) - set(before):
                del data[k]
            data.update(before)
        out.append((res, [e[1] for e in world.events if e[0] == 'call'], problem, same_as))
    return out


def reference_history(h):
    subs = [t['blocks'] for t in h['case']['templates']]
    trace = {}
    out = []
    for st in h['steps']:
        ref = Ref(st['ns'], subs, st['faults'], st['fault_cls'], trace)
        origin = None
        try:
            res = {'ok': {'s': ref.blocks(subs[0], [])}}
        except Ret as r:
            res = {'ok': norm_json(r.v)}
            origin = r.origin
        except Exception as e:  # noqa
            res = outcome_of_exception(e)
        out.append((res, ref.log, ref.revisits, origin))
    return out


def brief_steps(steps):
    """replay form: the first rendering's data in full (classes as Name/Base), later renderings as what changed"""
    def short(v):
        if isinstance(v, dict) and 'x' in v:
            return v['x']
        if isinstance(v, dict) and 'l' in v and v['l'] and all(isinstance(x, dict) and 'x' in x for x in v['l']):
            return [x['x'] for x in v['l']]
        return v
    out = []
    prev = None
    for s in steps:
        ns = s['ns']
        if prev is None:
            data = {k: short(ns[k]) for k in CLASS_SLOTS + WIDE_SLOTS + ['clsseq', 'v1', 'v2', 't1', 'f0', 'f', 'g'] + sorted(RET_VALUES)}
        else:
            data = {k: short(v) for k, v in ns.items() if not strict_eq(prev[k], v)}
        prev = ns
        out.append({'data' if len(out) == 0 else 'data_changed': data, 'faults': list(s['faults']),
                    'fault_cls': s['fault_cls']})
    return out


def check_histories(res, hists):
    for h in hists:
        res.count('histories')
        res.count('histories_via_' + h['via'])
        got = run_history(h)
        exp = reference_history(h)
        src = h['case']['templates'][0]['source']
        shape_counts(res, src)
        for i, (st, (g_res, g_log, problem, same_as), (e_res, e_log, revisits, origin)) in enumerate(zip(h['steps'], got, exp)):
            res.evaluations += 1
            res.count('history_renderings')
            if i:
                res.count('history_rerenderings')
                for c in st['changed']:
                    res.count('history_step_' + c)
            for v in set(revisits):
                res.count('history_' + v)
            res.nt(('hist', features(src), i > 0, tuple(st['changed']), st['faults'] != (), g_res.get('raise'),
                    tuple(sorted(set(revisits)))))
            same = strict_eq(e_res, g_res) or ('raise' in e_res and 'raise' in g_res and e_res['cls'] == g_res['cls'] and
                                               e_res['raise'] in interp.INTERNAL)
            if not same and handed_through(e_res, g_res):
                same = True
                res.count('text_result_or_message_is_one_undecoded_bytes_piece(C19)')
            count_returns(res, e_res, h['case'], 'history_')
            if same and origin is not None and problem is None:
                res.count('history_returned_object_identity_checked')
                if same_as is not None and origin not in same_as:
                    problem = ('rendering #%d: dtml-return was given the value of %r as it is, and the call returned an EQUAL '
                               'but DIFFERENT object (%r): the value was converted / copied on the way out' % (i, origin, g_res))
            if same and e_log == g_log and problem is None:
                continue
            res.oracle_fail.append({
                'case': {'source': src, 'sub0': h['case']['templates'][1]['source'], 'via': h['via'],
                         'renderings_of_the_same_template_object': brief_steps(h['steps'][:i + 1]),
                         'failing_rendering': i},
                'what': problem or ('rendering #%d of the same compiled template: Python-semantics reference gives %r with '
                                    'calls %r; the engine gives %r with calls %r (classes are written Name/Base: distinct '
                                    'classes may share a name)' % (i, e_res, e_log, g_res, g_log))})
            break       # later renderings of a template that already went wrong add nothing


# --------------------------------------------------------------------------- sweep: every value type x every block kind
#
# Oracle by construction (no evaluator, real code only): a template is assembled from WRAPPERS around one dtml-return.
# In a wrapper {X} is where the next wrapper (or the dtml-return) goes, {P} is a logging call that is rendered before
# {X} is reached, {F} one that must still be rendered after the return passed (finally), {N} one that must never be
# rendered (after the return, in a branch / handler / else that Python would not run).  The call must return THE object
# that was given to dtml-return (same identity, hence same type: nothing is rendered, decoded, joined or copied on the
# way out), raise nothing, and the log must be: the {P}s outside-in, then the {F}s inside-out.

SWEEP_WRAPPERS = [
    ('top', 'A{P}{X}{N}B'),
    ('try-body', '<dtml-try>{P}{X}{N}<dtml-except>{N}<dtml-else>{N}</dtml-try>{N}'),
    ('try-body-other-handlers', '<dtml-try>{P}{X}{N}<dtml-except TypeError AttributeError>{N}<dtml-except NameError>{N}'
                                '<dtml-else>{N}</dtml-try>{N}'),
    ('handler', '<dtml-try>{P}<dtml-raise KeyError>k</dtml-raise>{N}<dtml-except ValueError>{N}<dtml-except LookupError>'
                '{P}{X}{N}<dtml-except>{N}<dtml-else>{N}</dtml-try>{N}'),
    ('bare-handler', 't<dtml-try><dtml-var no_such_name><dtml-except>{P}{X}{N}</dtml-try>{N}'),
    ('else', '<dtml-try>{P}<dtml-except>{N}<dtml-else>e{P}{X}{N}</dtml-try>{N}'),
    ('try-finally-body', '<dtml-try>{P}{X}{N}<dtml-finally>f{F}</dtml-try>{N}'),
    ('finally', '<dtml-try>b{P}<dtml-finally>{P}{X}{N}</dtml-try>{N}'),
    ('finally-with-pending-exception', '<dtml-try>{P}<dtml-raise ValueError>v</dtml-raise>{N}<dtml-finally>{P}{X}{N}</dtml-try>{N}'),
    ('raise-body', '<dtml-raise KeyError>m{P}{X}{N}</dtml-raise>{N}'),
    ('raise-expr-body', '<dtml-raise expr="Err">{P}{X}{N}</dtml-raise>{N}'),
    ('if', '<dtml-if yes>{P}{X}{N}<dtml-else>{N}</dtml-if>{N}'),
    ('elif', '<dtml-if no>{N}<dtml-elif yes>{P}{X}{N}<dtml-else>{N}</dtml-if>{N}'),
    ('if-else', '<dtml-if no>{N}<dtml-else>{P}{X}{N}</dtml-if>{N}'),
    ('unless', '<dtml-unless no>{P}{X}{N}</dtml-unless>{N}'),
    ('in', '<dtml-in three>i{P}{X}{N}</dtml-in>{N}'),
    ('in-else', '<dtml-in empty>{N}<dtml-else>{P}{X}{N}</dtml-in>{N}'),
    ('in-batch', '<dtml-in three size=2 start=2 reverse>{P}{X}{N}</dtml-in>{N}'),
    ('with', '<dtml-with holder>{P}{X}{N}</dtml-with>{N}'),
    ('with-mapping', '<dtml-with amap mapping>{P}{X}{N}</dtml-with>{N}'),
    ('let', '<dtml-let zz=yes yy="no">{P}{X}{N}</dtml-let>{N}'),
    ('comment-before', '<dtml-comment><dtml-return no></dtml-comment>{P}{X}{N}'),
    # the rest of the template lives in ANOTHER template object; its return ends that call, whose value is handed on
    ('sub-template-by-name', '{P}<dtml-return {SUB}>{N}'),
    ('sub-template-called', 's{P}<dtml-return expr="{SUB}(None, _)">{N}'),
    ('sub-template-with-keywords', '{P}<dtml-return expr="{SUB}(None, _, extra=1)">{N}'),
]

# how the value is named in the tag; {V} is its name in the namespace.  'plain' ones look the name up the way dtml-var
# does (a callable would be called), the others hand over whatever the expression yields
SWEEP_SPELLINGS = [
    ('name', '<dtml-return {V}>', 'plain'),
    ('ssi-name', '<!--#return {V}-->', 'plain'),
    ('underscore-item', '<dtml-return expr="_[\'{V}\']">', 'plain'),
    ('expr', '<dtml-return expr="{V}">', 'any'),
    ('quoted-expr', '<dtml-return "{V}">', 'any'),
    ('getitem', '<dtml-return expr="_.getitem(\'{V}\', 0)">', 'any'),
    ('attribute', '<dtml-return expr="box_{V}.value">', 'any'),
    ('item', '<dtml-return expr="boxes[\'{V}\']">', 'any'),
    ('call-result', '<dtml-return expr="get_{V}()">', 'any'),
    ('name-of-callable', '<dtml-return get_{V}>', 'any'),
    ('conditional-expr', '<dtml-return expr="{V} if yes else no">', 'any'),
]


def sweep_values():
    """[(name, object, plain?)]: every type a caller may hand to dtml-return; plain = not callable"""
    from DocumentTemplate import HTML
    png = b'\x89PNG\r\n\x1a\n\x00\x00\x00\rIHDR\x00\xff'
    plain = [0, 1, -1, 2 ** 80, True, False, None, '', 'text', 'caf\u00e9 \u20ac <&>', 1.5, 0.0, -0.0, float('inf'), 1j,
             b'', b'plain ascii', 'caf\u00e9'.encode('latin-1'), 'h\u00e9\u20ac'.encode('utf-8'), png, bytes(range(256)),
             '\u4e2d'.encode('utf-16'), b'<b>&amp;</b>', bytearray(b'ba\xff'), memoryview(b'mv\xfe'),
             (), (1, b'x'), [], [b'x', 'y'], [[b'\xff']], {}, {'a': b'\xff'}, {b'k': 1}, set(), frozenset({b'e'}), range(3),
             object(), proggen.Obj(5, {}), ValueError('an instance'), KeyError(b'\xe9'), Ellipsis, NotImplemented,
             type('StrSub', (str,), {})('sub'), type('BytesSub', (bytes,), {})(b'sub\xe9'), type('IntSub', (int,), {})(3)]
    called = [lambda: 'never called', int, bytes, KeyError, proggen.E3, HTML('<dtml-return no>never rendered'), [].append,
              len]
    out = [('v%d' % i, v, True) for i, v in enumerate(plain)]
    out += [('c%d' % i, v, False) for i, v in enumerate(called)]
    return out


class _Box:
    __allow_access_to_unprotected_subobjects__ = 1      # public for the security policy of restricted templates

    def __init__(self, value):
        self.value = value


class _Holder:
    """a dtml-with target / a client object"""
    __allow_access_to_unprotected_subobjects__ = 1


def sweep_build(wrappers, spelling, vname):
    """-> (source of the main template, {name: source of a sub-template}, expected log)"""
    counter = [0]
    subs = {}

    def build(ws):
        if not ws:
            return spelling.replace('{V}', vname), [], []
        inner, pre_in, post_in = build(ws[1:])
        text = ws[0]
        pre, post = [], []
        if '{SUB}' in text:
            name = 'sub%d' % len(subs)
            subs[name] = inner
            text = text.replace('{SUB}', name)
            inner = None
        parts = []
        i = 0
        while i < len(text):
            if text[i] == '{' and text[i + 2:i + 3] == '}' and text[i + 1] in 'PNFX':
                t = text[i + 1]
                if t == 'X':
                    parts.append(inner)
                else:
                    counter[0] += 1
                    mid = '%s%d' % (t.lower(), counter[0])
                    (pre if t == 'P' else post if t == 'F' else []).append(mid)
                    parts.append('<dtml-call expr="mark(\'%s\')">' % mid)
                i += 3
            else:
                parts.append(text[i])
                i += 1
        return ''.join(parts), pre + pre_in, post_in + post

    src, pre, post = build([w[1] for w in wrappers])
    return src, subs, pre + post


_COMPILED = {}
_CLASSES = {}

# The template classes a rendering may use.  'RestrictedHTML' carries DocumentTemplate.security.RestrictedDTML, the documented
# mix-in Zope's DTML Method / DTML Document put in front of HTML: every attribute / item the namespace hands out then goes
# through the security policy (md.guarded_getattr / guarded_getitem).  Nothing in the property depends on the class: what a
# block binds (error_type / error_value / error_tb, let names, sequence variables, ...) must be readable inside it and gone
# after it in each of them.  Data is passed as keywords / a mapping there (attributes of an arbitrary client object are
# the security policy's business, not this property's) and the helper objects declare themselves public.
TEMPLATE_CLASSES = ['HTML', 'RestrictedHTML', 'HTMLSubclass']
RESTRICTED = {'RestrictedHTML'}


def template_class(name):
    if not _CLASSES:
        from DocumentTemplate import HTML
        from DocumentTemplate.security import RestrictedDTML
        _CLASSES['HTML'] = HTML
        _CLASSES['RestrictedHTML'] = type('RestrictedHTML', (RestrictedDTML, HTML), {})
        _CLASSES['HTMLSubclass'] = type('HTMLSubclass', (HTML,), {})
    return _CLASSES[name]


def compiled(src, klass='HTML'):
    """one template object per (class, source text): the same compiled template is called again for every value / channel
    (as a stored template is), so what a tag remembers from an earlier call is exercised too"""
    key = (klass, src)
    t = _COMPILED.get(key)
    if t is None:
        if len(_COMPILED) > 4000:
            _COMPILED.clear()
        t = _COMPILED[key] = template_class(klass)(src)
    return t


class _Inner:
    """the value a re-entered rendering returns (one fresh object per rendering)"""

    def __init__(self, at):
        self.at = at

    def __repr__(self):
        return '<the value of the rendering started at %s>' % self.at


def call_template(t, channel, ns, vname=None):
    if channel == 'keywords':
        return t(**ns)
    if channel == 'mapping':
        return t(None, ns)
    client = _Holder()
    if channel == 'client':
        client.__dict__.update(ns)
        return t(client)
    client.__dict__.update({k: v for k, v in ns.items() if k != vname})
    return t(client, {'unrelated': 0}, **{vname: ns[vname]})


def sweep_ns(obj, vname, mark, subs, klass):
    amap = {'in_the_mapping': 1}
    holder = _Holder()
    holder.on_the_holder = 1
    ns = {'mark': mark, 'yes': 1, 'no': 0, 'three': [10, 20, 30], 'empty': [], 'holder': holder, 'amap': amap,
          'Err': proggen.E2, vname: obj, 'box_' + vname: _Box(obj), 'boxes': {vname: obj}, 'get_' + vname: lambda: obj}
    for n, text in subs.items():
        ns[n] = compiled(text, klass)
    return ns


def sweep_one(res, wrappers, spelling, value, channel, klass='HTML', reenter=False):
    """reenter: EVERY logging call of the rendering (before the return, and in the finally bodies the pending return passes)
    renders THE SAME compiled template (and sub-templates) once more, with another value, to its end, the way a recursive
    template / a method called from a finally body / another request on the same stored template does.  Each rendering has
    its own call: it must return ITS value and render ITS logging calls, whatever the other one did in between."""
    obj = value[1]
    vname = 'val'
    src, subs, exp_log = sweep_build(wrappers, spelling[1], vname)
    log = []
    label = {'wrappers': [w[0] for w in wrappers], 'return': spelling[0], 'value': '%s: %.80r' % (type(obj).__name__, obj),
             'data_passed_as': channel, 'template_class': klass, 'source': src, 'sub_templates': subs}
    inner_bad = []
    mark = log.append
    if reenter:
        label['re_entered'] = 'at every logging call, by the same template with another value'

        def mark(mid):
            log.append(mid)
            ilog = []
            iobj = _Inner(mid)
            res.count('sweep_reentered_renderings')
            try:
                igot = call_template(compiled(src, klass), channel, sweep_ns(iobj, vname, ilog.append, subs, klass), vname)
            except Exception as e:  # noqa
                inner_bad.append('the rendering started at %s raised %s: %.120s' % (mid, type(e).__name__, e))
                return
            if igot is not iobj:
                inner_bad.append('the rendering started at %s returned %.80r, not its own value' % (mid, igot))
            elif ilog != exp_log:
                inner_bad.append('the rendering started at %s rendered the logging calls %r, not %r' % (mid, ilog, exp_log))
    ns = sweep_ns(obj, vname, mark, subs, klass)
    res.evaluations += 1
    res.count('sweep_renderings')
    res.count('sweep_depth_%d' % len(wrappers))
    if klass != 'HTML':
        res.count('sweep_renderings_' + klass)
    res.nt(('sweep', tuple(label['wrappers']), spelling[0], type(obj).__name__))
    try:
        got = call_template(compiled(src, klass), channel, ns, vname)
    except Exception as e:  # noqa
        res.oracle_fail.append({'case': label, 'what': 'the call must return the object given to dtml-return; it raised %s: %.200s '
                                                       '(log %r)' % (type(e).__name__, e, log)})
        return False
    if got is not obj:
        same = type(got) is type(obj) and _safe_eq(got, obj)
        res.oracle_fail.append({'case': label, 'what': 'the call must return the object given to dtml-return (%s); it returned %s '
                                                       '%.120r: %s' % (type(obj).__name__, type(got).__name__, got,
                                                                       'an equal copy' if same else 'ANOTHER value')})
        return False
    if log != exp_log:
        res.oracle_fail.append({'case': label, 'what': 'the right object came back, but the logging calls rendered were %r; '
                                                       'Python control flow renders %r (p: before the return, f: finally bodies '
                                                       'the return passes, n: never)' % (log, exp_log)})
        return False
    if inner_bad:
        res.oracle_fail.append({'case': label, 'what': 'the outer call is right, but ' + '; '.join(inner_bad[:3])})
        return False
    return True


def _safe_eq(a, b):
    try:
        return bool(a == b)
    except Exception:  # noqa
        return False


SWEEP_CHANNELS = ['keywords', 'mapping', 'client', 'client+mapping+keywords']


def sweep_returns(res, tier, r, budget=None):
    """depth 1: every wrapper x every value x every spelling; depth 2: every ordered pair of wrappers, values / spellings /
    channels rotating (thorough: all of them); depth 3 (thorough: every triple; quick: a sample)"""
    values = sweep_values()
    W = SWEEP_WRAPPERS

    def spellings_for(v):
        return [s for s in SWEEP_SPELLINGS if s[2] == 'any' or v[2]]

    def values_for(sp):
        return values if sp[2] == 'any' else [v for v in values if v[2]]

    n = 0
    bad = 0
    for w in W:
        for sp in SWEEP_SPELLINGS:
            for v in values_for(sp):
                ok = sweep_one(res, [w], sp, v, SWEEP_CHANNELS[n % 4])
                n += 1
                bad += not ok
                if bad > 40:
                    return n
    pairs = [(a, b) for a in W for b in W]
    for a, b in pairs:
        vs = values if tier == 'thorough' else r.sample(values, 6)
        for v in vs:
            sps = spellings_for(v)
            for sp in (sps if tier == 'thorough' else [r.choice(sps)]):
                ok = sweep_one(res, [a, b], sp, v, r.choice(SWEEP_CHANNELS))
                n += 1
                bad += not ok
                if bad > 40:
                    return n
    # other template classes (security mix-in, plain subclass) and re-entered renderings: every wrapper x every spelling
    # with values rotating (thorough: every value), then every ordered pair of wrappers
    def allowed(klass, sp, v):
        # what the security policy says about items that are built-in functions is not this property's subject
        return not (klass in RESTRICTED and sp[0] == 'item' and not v[2])
    k = 0
    for reenter in (False, True):
        for w in W:
            for sp in SWEEP_SPELLINGS:
                vs = values_for(sp)
                for v in (vs if tier == 'thorough' and not reenter else [vs[(k + j * 7) % len(vs)] for j in range(3)]):
                    klass = TEMPLATE_CLASSES[k % 3] if reenter else TEMPLATE_CLASSES[1 + k % 2]
                    k += 1
                    if not allowed(klass, sp, v):
                        continue
                    chan = SWEEP_CHANNELS[k % 2] if klass in RESTRICTED else SWEEP_CHANNELS[k % 4]
                    bad += not sweep_one(res, [w], sp, v, chan, klass, reenter)
                    n += 1
                    if bad > 40:
                        return n
        for a, b in pairs:
            for _ in range(4 if tier == 'thorough' else 1):
                v = r.choice(values)
                sp = r.choice(spellings_for(v))
                klass = r.choice(TEMPLATE_CLASSES)
                if not allowed(klass, sp, v):
                    continue
                chan = r.choice(SWEEP_CHANNELS[:2] if klass in RESTRICTED else SWEEP_CHANNELS)
                bad += not sweep_one(res, [a, b], sp, v, chan, klass, reenter)
                n += 1
                if bad > 40:
                    return n
    triples = [(a, b, c) for a in W for b in W for c in W]
    if tier != 'thorough':
        triples = r.sample(triples, budget or 1500)
    for tr in triples:
        v = r.choice(values)
        ok = sweep_one(res, list(tr), r.choice(spellings_for(v)), v, r.choice(SWEEP_CHANNELS))
        n += 1
        bad += not ok
        if bad > 40:
            return n
    return n


# --------------------------------------------------------------------------- sweep: what a block bound is gone afterwards
#
# The same wrappers, left ABNORMALLY: {X} is an exit that raises (dtml-raise by name / by expression, a missing name, a
# failing callable) -- caught by a try around the whole nest -- or a dtml-return inside a sub-template whose value the
# main template inserts.  Afterwards the main template goes on and PROBES the namespace: error_type / error_value /
# error_tb (bound inside a handler only), the dtml-let names, the dtml-with attributes / keys, sequence-item, the
# sub-template's keywords must all be gone, and an enclosing dtml-let must end with its own frame (a handler, else or
# finally body that was left by an exception or a return has to be unwound like one left normally).  Expected text by
# construction: handler output replaces the body's; the class that arrives is the exit's, or what a dtml-raise whose body
# failed raises instead.

SCOPE_CATCHES = {'try-body'}                     # its bare handler would catch the exit: only used with the return exit
SCOPE_RAISES_INSTEAD = {'raise-body': 'KeyError', 'raise-expr-body': 'E2'}
SCOPE_EXITS = [
    ('raise-by-name', '<dtml-raise IndexError>boom</dtml-raise>', 'IndexError'),
    ('raise-by-name-empty', '<dtml-raise ValueError></dtml-raise>', 'ValueError'),
    ('raise-by-expr', '<dtml-raise expr="Err3">boom <dtml-var yes></dtml-raise>', 'E3'),
    ('missing-name', '<dtml-var no_such_name>', 'KeyError'),
    ('failing-call', '<dtml-call expr="fail()">', 'EM'),
    ('failing-name', 'x<dtml-var fail>', 'EM'),
    ('return', '<dtml-return val>', None),
]
SCOPE_PROBE_NAMES = [('error_type', 'NOERR'), ('error_value', 'NOERR'), ('error_tb', 'NOERR'), ('zz', 'NOZZ'), ('yy', 'NOYY'),
                     ('sequence-item', 'NOSEQ'), ('sequence-index', 'NOSEQ'), ('on_the_holder', 'NOH'),
                     ('in_the_mapping', 'NOM'), ('extra', 'NOX')]


def scope_probes(sentinel):
    src = ''.join('|<dtml-var %s missing="%s">' % nm for nm in SCOPE_PROBE_NAMES)
    src += '|<dtml-var sentinel missing="NOSENT">|<dtml-if error_type>LEAK</dtml-if>'
    exp = ''.join('|' + d for _, d in SCOPE_PROBE_NAMES) + '|' + sentinel + '|'
    return src, exp


# how the handler around the nest reads the class name of what it caught: all of them must print it
SCOPE_CATCH_FORMS = [
    '<dtml-var error_type>',
    '&dtml-error_type;',
    '<dtml-var expr="error_type">',
    '<dtml-var "_[\'error_type\']">',
    '<dtml-if "error_value is not None and error_tb and _.len(error_tb) > 20"><dtml-var error_type><dtml-else>NO VALUE / TB</dtml-if>',
    '<dtml-let seen=error_type tb=error_tb><dtml-var seen></dtml-let>',
    '<dtml-if error_tb><dtml-in "[error_type]">&dtml-sequence-item;</dtml-in></dtml-if>',
    '<dtml-try><dtml-raise TypeError>inner</dtml-raise><dtml-except LookupError>WRONG<dtml-except TypeError></dtml-try>'
    '<dtml-var error_type>',
    '<dtml-var "_.getitem(\'error_type\', 0)">',
    '<dtml-with "_.namespace(unrelated=1)"><dtml-var error_type></dtml-with>',
]


def scope_one(res, wrappers, exit_, channel, klass='HTML', catch=0, reenter=False):
    """reenter: every logging call renders the same compiled template once more to its end (other returned text), while
    the outer rendering's exception / return is pending or yet to come: both renderings must give their own text"""
    names = [w[0] for w in wrappers]
    ename, esrc, ecls = exit_
    body, subs, exp_log = sweep_build(wrappers, esrc, 'val')
    for n in reversed(names):
        if ecls is not None and n in SCOPE_RAISES_INSTEAD:
            ecls = SCOPE_RAISES_INSTEAD[n]
    p_in, e_in = scope_probes('outer')
    p_out, e_out = scope_probes('NOSENT')
    if exit_[2] is None:
        subs = dict(subs, returning=body)
        src = '<dtml-let sentinel="\'outer\'">[<dtml-var returning>%s]</dtml-let>%s' % (p_in, p_out)
        expected = '[RV%s]%s' % (e_in, e_out)
    else:
        src = ('<dtml-let sentinel="\'outer\'">[<dtml-try>t%s<dtml-except>caught:%s</dtml-try>%s]</dtml-let>%s'
               % (body, SCOPE_CATCH_FORMS[catch % len(SCOPE_CATCH_FORMS)], p_in, p_out))
        expected = '[caught:%s%s]%s' % (ecls, e_in, e_out)
    log = []
    inner_bad = []

    def fail():
        raise proggen.EM('fault')

    def make_ns(mark, val):
        holder = _Holder()
        holder.on_the_holder = 1
        ns = {'mark': mark, 'yes': 1, 'no': 0, 'three': [10, 20, 30], 'empty': [], 'holder': holder,
              'amap': {'in_the_mapping': 1}, 'Err': proggen.E2, 'Err3': proggen.E3, 'val': val, 'fail': fail}
        for n, text in subs.items():
            ns[n] = compiled(text, klass)
        return ns
    mark = log.append
    if reenter:
        def mark(mid):
            log.append(mid)
            ilog = []
            res.count('scope_sweep_reentered_renderings')
            iexp = expected.replace('[RV', '[RW')
            try:
                igot = call_template(compiled(src, klass), channel, make_ns(ilog.append, 'RW'))
            except Exception as e:  # noqa
                inner_bad.append('the rendering started at %s raised %s: %.120s' % (mid, type(e).__name__, e))
                return
            if igot != iexp or ilog != exp_log:
                inner_bad.append('the rendering started at %s gave %r with the logging calls %r, not %r with %r'
                                 % (mid, igot, ilog, iexp, exp_log))
    ns = make_ns(mark, 'RV')
    label = {'wrappers': names, 'left_by': ename, 'data_passed_as': channel, 'template_class': klass, 'source': src,
             'sub_templates': subs}
    if reenter:
        label['re_entered'] = 'at every logging call, by the same template'
    res.evaluations += 1
    res.count('scope_sweep_renderings')
    res.count('scope_sweep_left_by_' + ename)
    if klass != 'HTML':
        res.count('scope_sweep_renderings_' + klass)
    res.nt(('scope', tuple(names), ename))
    try:
        got = call_template(compiled(src, klass), channel, ns)
    except Exception as e:  # noqa
        res.oracle_fail.append({'case': label, 'what': 'expected the text %r; the call raised %s: %.200s (log %r)'
                                                       % (expected, type(e).__name__, e, log)})
        return False
    if got != expected or type(got) is not str:
        res.oracle_fail.append({'case': label, 'what': 'after the blocks were left by %s the main template must render %r (every '
                                                       'probe finds the name unbound again); it rendered %r' % (ename, expected, got)})
        return False
    if log != exp_log:
        res.oracle_fail.append({'case': label, 'what': 'the text is right, but the logging calls rendered were %r; Python control '
                                                       'flow renders %r (p: before the exit, f: finally bodies passed, n: never)'
                                                       % (log, exp_log)})
        return False
    if inner_bad:
        res.oracle_fail.append({'case': label, 'what': 'the outer call is right, but ' + '; '.join(inner_bad[:3])})
        return False
    return True


def sweep_scopes(res, tier, r):
    """depth 1: every wrapper x every exit; depth 2: every ordered pair x (quick: two exits; thorough: every exit);
    thorough: a sample of triples"""
    W = SWEEP_WRAPPERS
    chans = ['keywords', 'mapping', 'client']

    def usable(ws, ex):
        return ex[2] is None or not any(w[0] in SCOPE_CATCHES for w in ws)
    nests = [[w] for w in W] + [[a, b] for a in W for b in W]
    n = bad = 0
    for ws in nests:
        exits = SCOPE_EXITS if tier == 'thorough' or len(ws) == 1 else [SCOPE_EXITS[-1], r.choice(SCOPE_EXITS[:-1])]
        for ex in exits:
            if usable(ws, ex):
                bad += not scope_one(res, ws, ex, chans[n % 3])
                n += 1
                if bad > 40:
                    return n
    # every template class x every way the catching handler reads error_* x re-entered or not: every wrapper x every exit,
    # then every ordered pair with exits rotating (thorough: every exit)
    k = 0
    for ws in nests:
        exits = SCOPE_EXITS if tier == 'thorough' or len(ws) == 1 else [SCOPE_EXITS[k % len(SCOPE_EXITS)]]
        for ex in exits:
            k += 1
            if usable(ws, ex):
                klass = TEMPLATE_CLASSES[(k // 2) % 3]
                chan = chans[k % 2] if klass in RESTRICTED else chans[k % 3]
                bad += not scope_one(res, ws, ex, chan, klass, catch=k, reenter=k % 2 == 1)
                n += 1
                if bad > 40:
                    return n
    if tier == 'thorough':
        for _ in range(20000):
            ws = [r.choice(W) for _ in range(3)]
            ex = r.choice(SCOPE_EXITS)
            if usable(ws, ex):
                bad += not scope_one(res, ws, ex, r.choice(chans))
                n += 1
                if bad > 40:
                    return n
    return n


# --------------------------------------------------------------------------- sweep: every class x every way to raise x handlers
#
# Oracle by construction (real code only).  One try block whose body is left by an exception of class c -- EVERY class of
# WIDE_KEYS: all built-in exception classes Python defines, a user class / a user class of a user class below each, a class
# mixing each into another hierarchy -- raised in every way a template can meet it (dtml-raise by name / by expression,
# a failing name / call / condition / let value, an inner handler / else / finally body, through an inner finally, past an
# inner try whose handlers do not match, inside a sub-template, a loop, a with), against every FORM of handler list built
# from Python's own MRO of c: its own name, the name of each base up to Exception, bare, misses first, a base before the
# own name (the first match wins), multi-name handlers, only non-matching names, only names of SUBCLASSES of c, only
# look-alike names; with and without an else section.  Expected: if some handler names c or a base of c (or is bare), the
# text is the FIRST such handler's output with error_type = c.__name__ and error_value = str(c(message)), the body's
# output and every other handler / the else are not rendered, error_type is unbound after the tag; else the call raises
# THE class c (identity) with the message.  The logging calls are those Python control flow runs.

# (how dtml-var PRINTS an exception object is not this property's subject: the handler hands error_value itself to the
# caller's `seen`, which compares class identity and arguments)
HSWEEP_H = '[<dtml-call expr="mark(\'h\')"><dtml-var error_type>|<dtml-call expr="seen(error_value)">|' \
           '<dtml-if "error_type in error_tb">tb</dtml-if>]'
HSWEEP_W = '{N}WRONG<dtml-var error_type>'
HSWEEP_OUTER = 'A<dtml-try>b{P}{X}{N}%s</dtml-try>Z|<dtml-var error_type missing="NOERR">'
HSWEEP_WAYS = [
    # (name, text, only for classes dtml-raise can name)
    ('raise-by-name', '{P}<dtml-raise {C}>{M}</dtml-raise>{N}', True),
    ('raise-by-name-attr', '<dtml-raise type="{C}">{M}</dtml-raise>{N}', True),
    ('raise-by-expr', '{P}<dtml-raise expr="cls">{M}</dtml-raise>{N}', False),
    ('raise-by-expr-item', '<dtml-raise expr="classes[0]">{M}</dtml-raise>{N}', False),
    ('failing-name', 'x<dtml-var boom>{N}', False),
    ('failing-call', '<dtml-call expr="boom()">{N}', False),
    ('failing-condition', '<dtml-if expr="boom()">{N}<dtml-else>{N}</dtml-if>{N}', False),
    ('failing-let-value', '<dtml-let zz="boom()">{N}</dtml-let>{N}', False),
    ('failing-loop-source', '<dtml-in expr="boom()">{N}<dtml-else>{N}</dtml-in>{N}', False),
    ('inner-handler-raises', '<dtml-try><dtml-raise KeyError>k</dtml-raise><dtml-except>{P}<dtml-raise expr="cls">{M}'
                             '</dtml-raise>{N}</dtml-try>{N}', False),
    ('inner-else-raises', '<dtml-try>{P}<dtml-except>{N}<dtml-else><dtml-var boom>{N}</dtml-try>{N}', False),
    ('through-inner-finally', '<dtml-try>{P}<dtml-var boom>{N}<dtml-finally>{F}</dtml-try>{N}', False),
    ('inner-finally-raises', '<dtml-try>{P}<dtml-finally>f<dtml-var boom>{N}</dtml-try>{N}', False),
    ('inner-finally-replaces-pending', '<dtml-try><dtml-raise KeyError>k</dtml-raise><dtml-finally>{P}<dtml-var boom>{N}'
                                       '</dtml-try>{N}', False),
    ('past-inner-handlers', '<dtml-try>{P}<dtml-var boom>{N}<dtml-except {O1} {O2}>{N}<dtml-else>{N}</dtml-try>{N}', False),
    ('sub-template', '{P}<dtml-var sub>{N}', False),
    ('in-loop', '<dtml-in three>{P}<dtml-var boom>{N}</dtml-in>{N}', False),
    ('in-with', '<dtml-with holder>{P}<dtml-call expr="boom()">{N}</dtml-with>{N}', False),
]
HSWEEP_MESSAGES = ['boom', '', 'two words', 'café']
_HS_SUBNAMES = {}


def hsweep_forms(key):
    """the handler-list forms for class `key`: [(form name, [(names, matches?)], matched?)]; the first matching handler
    is the one marked True"""
    c = cls_of(key)
    names = mro_names(c)
    own = names[0]
    # names that are neither c's nor a base's: two unrelated built-ins, and names of SUBCLASSES of c
    others = [n for n in ('KeyError', 'TypeError', 'OSError', 'ArithmeticError') if n not in names]
    o1, o2 = others[0], others[1]
    if not _HS_SUBNAMES:
        for k in WIDE_KEYS:
            for b in cls_of(k).__mro__[1:]:
                _HS_SUBNAMES.setdefault(b, []).append(cls_name(k))
    subs = [n for n in _HS_SUBNAMES.get(c, []) if n not in names][:3] or [own + 'Child']
    forms = [('own-name', [([own], True)])]
    for i, b in enumerate(names[1:]):
        forms.append(('base-name-%d-of-%d' % (i + 1, len(names) - 1), [([b], True)]))
    forms += [
        ('bare', [([''], True)]),
        ('miss-then-own', [([o1], False), ([own], True)]),
        ('miss-miss-then-root', [([o1], False), ([o2], False), ([names[-1]], True)]),
        ('base-before-own:first-wins', [([names[-1]], True), ([own], False)]),
        ('direct-base-before-bare', [([names[min(1, len(names) - 1)]], True), ([''], False)]),
        ('own-before-bare', [([own], True), ([''], False)]),
        ('multi-name-hit', [([o1, names[len(names) // 2]], True), ([''], False)]),
        ('multi-name-miss-then-bare', [([o1, o2], False), ([''], True)]),
        ('subclass-names-then-own', [(subs, False), ([own], True)]),
        ('unmatched', [([o1], False), ([o2], False)]),
        ('only-subclass-names', [(subs, False)]),
        ('only-look-alike-names', [([own + 'x', own[:-1], own.lower()], False), (['Super' + names[-1]], False)]),
        ('BaseException-name', [([o1], False), (['BaseException'], True)]),
    ]
    return [(n, hs, any(m for _, m in hs)) for n, hs in forms], (o1, o2)


def hsweep_one(res, key, way, form, with_else, msg, channel, klass):
    c = cls_of(key)
    (fname, hs, matched), (o1, o2) = form
    hsrc = ''
    seen = False
    for names, m in hs:
        hsrc += '<dtml-except %s>%s' % (' '.join(names), HSWEEP_H if m and not seen else HSWEEP_W)
        seen = seen or m
    if with_else:
        hsrc += '<dtml-else>{N}ELSE'
    wtext = way[1].replace('{C}', c.__name__).replace('{M}', msg).replace('{O1}', o1).replace('{O2}', o2)
    subs = {}
    if way[0] == 'sub-template':
        subs['sub'] = 's<dtml-var boom>never'
    src, _, exp_log = sweep_build([('outer', HSWEEP_OUTER % hsrc), ('way', wtext + '{X}')], '', 'val')
    log = []

    def boom():
        raise c(msg)
    holder = _Holder()
    holder.on_the_holder = 1
    values = []
    ns = {'mark': log.append, 'cls': c, 'classes': [c], 'boom': boom, 'three': [10, 20, 30], 'holder': holder,
          'seen': values.append}
    for n, text in subs.items():
        ns[n] = compiled(text, klass)
    label = {'raised_class': '%s %r' % (key, [b.__name__ for b in c.__mro__]), 'raised_by': way[0], 'handlers': fname,
             'else_section': with_else, 'message': msg, 'data_passed_as': channel, 'template_class': klass, 'source': src,
             'sub_templates': subs}
    res.evaluations += 1
    res.count('handler_sweep_renderings')
    res.count('handler_sweep_' + ('handled' if matched else 'propagated'))
    res.nt(('hsweep', way[0], fname.split('-of-')[0], with_else, key in WIDE_BUILTINS))
    if matched:
        expected = 'A[%s||tb]Z|NOERR' % c.__name__
        exp_log = exp_log + ['h']
    try:
        got = call_template(compiled(src, klass), channel, ns)
    except Exception as e:  # noqa
        if matched:
            res.oracle_fail.append({'case': label, 'what': 'a handler names the class or a base of it (or is bare): expected the '
                                                           'text %r; the call raised %s: %.200s (log %r)'
                                                           % (expected, type(e).__name__, e, log)})
            return False
        if type(e) is not c or e.args != (msg,):
            res.oracle_fail.append({'case': label, 'what': 'no handler matches: the exception %s(%r) must propagate as it is; the '
                                                           'call raised %s%r' % (c.__name__, msg, type(e).__name__, e.args)})
            return False
        if log != exp_log:
            res.oracle_fail.append({'case': label, 'what': 'the right exception propagated, but the logging calls rendered were '
                                                           '%r; Python control flow renders %r' % (log, exp_log)})
            return False
        return True
    if not matched:
        res.oracle_fail.append({'case': label, 'what': 'no handler names the class or a base of it: %s(%r) must propagate; the '
                                                       'call returned %r (log %r)' % (c.__name__, msg, got, log)})
        return False
    if got != expected or log != exp_log:
        res.oracle_fail.append({'case': label, 'what': 'expected the text %r with the logging calls %r (the first matching '
                                                       'handler only, error_type / error_value bound inside it only); got %r '
                                                       'with %r' % (expected, exp_log, got, log)})
        return False
    if len(values) != 1 or type(values[0]) is not c or values[0].args != (msg,):
        res.oracle_fail.append({'case': label, 'what': 'inside the handler error_value must be the exception raised, %s(%r); it '
                                                       'was %r' % (c.__name__, msg, values)})
        return False
    return True


def sweep_handlers(res, tier, r):
    """quick: every class x every way (forms rotating) and every class x every form (ways rotating); thorough: everything"""
    chans = ['keywords', 'mapping', 'client']
    n = bad = 0

    def one(key, way, form, k):
        nonlocal n, bad
        if way[2] and key not in WIDE_BUILTINS:
            return
        klass = TEMPLATE_CLASSES[k % 3]
        chan = chans[k % 2] if klass in RESTRICTED else chans[k % 3]
        bad += not hsweep_one(res, key, way, (form, others), k % 3 == 0, HSWEEP_MESSAGES[k % len(HSWEEP_MESSAGES)], chan, klass)
        n += 1
    k = ki = 0
    for key in WIDE_KEYS:
        forms, others = hsweep_forms(key)
        if tier == 'thorough':
            for way in HSWEEP_WAYS:
                for form in forms:
                    k += 1
                    one(key, way, form, k)
        else:
            # (a user class: every other way / form, alternating from class to class)
            half = key not in WIDE_BUILTINS
            ki += 1
            for i, way in enumerate(HSWEEP_WAYS):
                k += 1
                if not half or (i + ki) % 2:
                    one(key, way, forms[k % len(forms)], k)
            for i, form in enumerate(forms):
                k += 1
                if not half or (i + ki) % 2:
                    one(key, HSWEEP_WAYS[k % len(HSWEEP_WAYS)], form, k)
            for _ in range(2):
                k += 1
                one(key, r.choice(HSWEEP_WAYS), r.choice(forms), r.randrange(10 ** 6))
        if bad > 40:
            return n
    return n


def gen_histories(r, n):
    return [gen_history(r, r.choice([1, 2, 2, 3, 3])) for _ in range(n)]


def run(res, tier, have_driver):
    r = common.rng('C14')
    res.rule = ('random programs: dtml-try with 1..3 handlers (single / multi-name / bare) over E1<E2<E3, EM(E1,ValueError) and '
                'built-ins, optional else; try/finally; every section (try body, handler, else, finally) now and then EMPTY; '
                'error_type / error_value probed (missing=NOERR) anywhere and right after try blocks / sub-template calls; '
                'dtml-raise by name (incl. unknown) and by expression with literal or '
                'nested bodies; dtml-return of int/str/None/bool/list/dict/object/callable result; nesting <= 3 inside '
                'if/in/with/let; sub-template by name; each program also with the k-th callable invocation raising '
                '(ValueError/KeyError/E2/E3/EM/TypeError); non-trivial = distinct (tag features, fault?, outcome class)')
    res.rule += ('; HISTORIES (oracle only): one compiled template + sub-template rendered 2..4 times, every rendering '
                 'against the stateless reference (result, identity of the propagated class, call log): class bindings '
                 'replaced by a DIFFERENT class of the SAME __name__ with other bases (Conflict x5, Stale x3, look-alikes of '
                 'E2 / E3 / EM; NotFound x4, BadRequest x2 and look-alikes of KeyError / ValueError / TypeError / '
                 'RuntimeError raised by callables only), arbitrary rebinding, other returned values / '
                 'messages / conditions, unchanged repeats, the same invocation failing again with a same-named class; data '
                 'passed as fresh keywords or as ONE caller mapping re-used (and required unchanged) across renderings; '
                 'dtml-in loops over classes reaching the same compiled try / raise once per class within a rendering')
    res.rule += ('; RETURNED VALUES: every outcome compared with exact types (True is not 1); dtml-return of byte strings (empty / '
                 'ASCII / UTF-8; Latin-1, image data, all byte values from the main template), bytes inside containers, tuples, '
                 'falsy values of every type, floats / huge ints (histories), classes and uncalled callables, named by name / '
                 'expr / _[name] / f() / literal / sub-template name; histories: the returned object is the caller\'s object '
                 '(identity); SWEEP: ~50 values of every type x 11 spellings of dtml-return x 25 block contexts nested to depth '
                 '3 x 4 ways of passing data: identical object back, nothing raised, exactly the logging calls Python control '
                 'flow renders; SCOPE SWEEP: the same contexts left by 6 kinds of exception or a sub-template return, then '
                 'probes of error_* / let / with / in / keyword names and an enclosing let: all unbound again; BOTH SWEEPS also '
                 'per template class (HTML / subclass / RestrictedDTML security mix-in), with 10 ways the handler reads '
                 'error_type / error_value / error_tb, and RE-ENTERED: every logging call (incl. finally bodies under a pending '
                 'return / exception) renders the same compiled template again with another value; every rendering keeps its own '
                 'value, text and log')
    res.rule += ('; CLASS TREE: programs and histories also draw handler names, raised / computed / failing classes from one '
                 'branch of the tree of ALL built-in exception classes below Exception (58, with user classes 2 deep below '
                 'each and mixed-in classes); HANDLER SWEEP: each of these 229 classes x 18 ways of raising it in a try body x '
                 '~18 handler-list forms from its MRO x else: first matching handler only (error_value is the exception '
                 'itself) or the very exception propagates')
    if RAISE_EXPR_RENAMES_CLASS:
        res.partial.append('left out (violation on the unchanged library, reported): <dtml-raise expr="c"> with c a class whose '
                           '__name__ is also a built-in / zExceptions exception name raises THAT class, not c '
                           '(zExceptions.upgradeException looks the evaluated class up again by name)')
    items = gen_items(r, 900 if tier == 'quick' else 12000)
    runs = check(res, items, have_driver)
    check_histories(res, gen_histories(common.rng('C14-hist'), 2500 if tier == 'quick' else 20000))
    sweep_returns(res, tier, common.rng('C14-sweep'))
    sweep_scopes(res, tier, common.rng('C14-scope'))
    sweep_handlers(res, tier, common.rng('C14-handlers'))
    for i in (0, len(runs) // 2, len(runs) - 1):
        c, plan, impl, m = runs[i]
        res.sample({'source': c['templates'][0]['source'][:300], 'faults': list(plan[0]), 'result': impl['result']})
    res.assumptions += ['interpreter model validated (not verified) against the real classes',
                        'reference evaluator = Python try/except/else/finally over the abstract program; handler match = name of '
                        'the class or of any class in its MRO',
                        'messages of exceptions CPython raises itself (TypeError, AttributeError, …) are not compared',
                        'histories are not run on the Lean model (its class table has one class per name); their '
                        'expected values come from the reference evaluator alone, which keeps no state between renderings',
                        'a TEXT result that consists of one inserted byte string comes back as that byte string (render_blocks '
                        'hands a single piece through; likewise the message of a dtml-raise whose body is one such piece): '
                        'accepted here when it decodes (UTF-8) to the expected text and counted; '
                        'C19 states what holds for byte strings in text.  A value given to dtml-return is never excused',
                        'byte strings that are not UTF-8 are only returned by the main template, never inserted into text',
                        'the sweeps have no evaluator: expected value = the very object passed in, expected log / text follow '
                        'from how the template was assembled']


def search_more(res, tier):
    r = common.rng('C14-more')
    res2 = common.Result('C14')
    check(res2, gen_items(r, 3000), False)
    check_histories(res2, gen_histories(common.rng('C14-hist-more'), 6000))
    sweep_returns(res2, 'quick', common.rng('C14-sweep-more'), budget=6000)
    sweep_scopes(res2, 'quick', common.rng('C14-scope-more'))
    sweep_handlers(res2, 'quick', common.rng('C14-handlers-more'))
    return res2.oracle_fail


def replay(path):
    with open(path) as f:
        d = json.load(f)
    print(json.dumps(d.get('first', d), indent=1)[:3000])
    return 1
