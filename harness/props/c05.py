"""C05 — security guards mediate every read of client data; '_' names stay private.

A. Channel table (oracle on the implementation, marker non-interference): for every way a template reads client data — client
   object / client tuple, dtml-with, dtml-with only, attribute access in expressions, items iterated by dtml-in (refused item
   raises / is skipped with skip_unauthorized), attributes of pushed items, dtml-let / dtml-if by name, fmt=method,
   _.getattr, sort keys, sequence-var-x, first-x / last-x, statistics, item access in expressions — the refused attribute /
   item holds a marker; the template is rendered with two different marker values (incl. true/false and order-changing
   ones): the outputs must be equal and contain no marker, every attribute read of a spied object must have been asked of
   the guard first, refused attributes must never be read.  Channels that are unguarded in the code are known findings
   (one per call site); anything else is a violation.
   Error channel: every channel that catches the refusal is rendered again with every way of LOOKING at the error (dtml-except
   showing error_value / error_tb / str(error_value) in an expression, through a nested try-finally, and the exception escaping
   to the application: its arguments, attributes and text are inspected): no marker, nothing depending on refused data.
   Refused objects: an object the ITEM guard refuses (loop item, tree branch; ids of refused tree nodes and of everything
   below them carry the marker, id= / url= may name another attribute) is not looked at AT ALL — every attribute access of
   such a node (data, tpId, whatever id= / url= names, sort key of a tree, probes for missing attributes) is a violation, in
   parts A, D and E (left out: the dtml-in sort key, C05-sort-key; expand_all, C05-tree-expand-all).
B. '_' names: never resolved from client objects (with or without guards); restricted expressions naming _attributes are
   rejected.
D. Overlapping renderings: every channel again while the SAME compiled template object is rendered a second time, for
   another caller with other guards (none at all / a guard that allows everything), at every point of the guarded rendering
   at which a guard is asked or a client attribute is read — as a nested call on the same thread (what a method of an item
   or a security policy does) and from another thread (the deterministic equivalent of a pre-emption there).  Nothing one
   rendering leaves on the shared compiled tags may change what the other one's guard mediates: expected = the rendering of
   a fresh template object that nobody interrupts.
E. Guarded collections against a reference: random dtml-in loops (objects / strings / (key, value) pairs; sort, reverse,
   sort_expr, reverse_expr, batches, mapping-free) and random dtml-tree renderings (random shapes, branches as list / tuple,
   branches= / branches_expr=, sort, reverse, assume_children, single, prefix, random sets of open nodes given by the
   tree-s cookie or expand_all) with a random set of refused items: the displayed sequence must be exactly the reference
   one — allowed items in the order the author asked for, filtered → sorted → reversed (tree) resp. sorted → reversed →
   window → filtered (in) — computed here from the option's documented meaning; without skip_unauthorized a refused item
   that would be displayed must raise Unauthorized.
F. Formats: <dtml-var … fmt=F [null=N]> for every kind of format (every method of the value, names the value does not have,
   the special formats, the empty format, valid C-style formats, strings that are NOT valid C-style formats for the value such
   as strftime directives, random %-strings) × every kind of value (spied objects with date-like methods, number-like,
   falsy, real datetime.date subclasses, plain text / numbers) × every way the value gets there (name, expression, attribute of
   a with-object, loop item) × guard refuses all methods / none.  Expected from the documented meaning of fmt= written in
   plain Python (method of the value through the guard → special format → '' → Python's own `F % value`); every attribute of
   the value that is read must have been asked of the guard, a refused method is never called.
G. Two template classes in one rendering: every channel of A with a call of ANOTHER document template spliced in before every
   tag of the channel's source — the other template is of a class without guards (HTML, String), of a class with a guard of
   its own that allows everything, a plain one that itself renders a third one, or (control) of the caller's class; it is
   rendered by name, by expression (with and without a client of its own), by dtml-call / dtml-if / dtml-let, below a
   dtml-with namespace, or as the header / footer / leaves / expand document of a dtml-tree; it is static text, reads its own
   client, has blocks of its own, raises, returns, or reads guarded data itself.  After the call the caller reads refused
   data through an expression, a with-object, a loop and fmt=.  Expected = the caller's source with the call replaced by the
   sub-template's text (a fresh object of the caller's class alone); the guards of the class that was CALLED by the
   application stay in force for the whole rendering (markers, "every read asked").
H. Every client object x every way it becomes a namespace: two client objects in ONE rendering that are two plain objects /
   two distinct objects that compare and hash equal (value objects) / equal but unhashable / ONE object reached through two
   containers (acquisition wrappers: equal, not identical; the guard decides by container) / the same object twice; each is made
   a namespace in every way the language has (dtml-with by name / expression / only, a one-element tuple of it as client
   attribute, method result, built / sliced / concatenated in the expression, through _.namespace, through dtml-let, a loop row,
   a row re-wrapped by dtml-with, the client of a template called in an expression, nested with / in / tree rows holding both) and
   one name is read in each by every reading tag (var, expression, if, unless, let, _[...], _.getitem).  The guard refuses per
   (object [in its container], name).  Expected, from the property's text alone: every read shows the value of the object it
   names or is refused exactly as the guard says about THAT object; the guard was asked about every (object, name) read.
C. Correspondence: random programs with a recording guard, random refused (object, attribute) pairs and refused items,
   skip_unauthorized: results, call traces AND the ordered guard log (attribute guard / item guard events) of the real
   classes vs the Lean interpreter model.  A second slice renders the same kind of programs with the sub-templates being
   of a class without guards / with another guard (the model has ONE guard per rendering: that of the template called).
"""
import datetime
import json
import re
import threading

import common
import interp
import proggen

MARK_A = 'MARKER-AAA'
MARK_B = 'MARKER-BBB'


class Spy:
    """client object that records every read of a data attribute"""

    def __init__(self, oid, log, **attrs):
        object.__setattr__(self, '_oid', oid)
        object.__setattr__(self, '_log', log)
        object.__setattr__(self, '_names', set(attrs))
        for k, v in attrs.items():
            object.__setattr__(self, k, v)

    def __getattribute__(self, name):
        if not name.startswith('_') or name in ('_secret',):
            if name in object.__getattribute__(self, '_names'):
                object.__getattribute__(self, '_log').append(('read', object.__getattribute__(self, '_oid'), name))
        return object.__getattribute__(self, name)

    def __str__(self):
        return 'spy%d' % object.__getattribute__(self, '_oid')


class SpyMap(Spy):
    """a record-like client: attributes AND keys (as ZSQL result rows, dict subclasses …); a key is not an attribute"""

    def __init__(self, oid, log, keys, **attrs):
        Spy.__init__(self, oid, log, **attrs)
        object.__setattr__(self, '_keys', dict(keys))

    def __getitem__(self, k):
        object.__getattribute__(self, '_log').append(('read-item', object.__getattribute__(self, '_oid'), k))
        return object.__getattribute__(self, '_keys')[k]

    def keys(self):
        return list(object.__getattribute__(self, '_keys'))


class HookLog(list):
    """event log that runs `hook` once, right after event number `at` was recorded (i.e. inside the guard / the attribute
    read that records it)"""
    hook = None
    at = -1
    fired = False

    def append(self, ev):
        list.append(self, ev)
        if self.hook is not None and len(self) - 1 == self.at:
            h, self.hook = self.hook, None
            self.fired = True
            h()


class Node(Spy):
    """item of a loop / node of a tree.  Data attributes (label, the branches methods) are spied; id, url and sort key are
    class level: the tags read those with plain getattr (ids / the finding C05-sort-key), which is not what parts D / E judge"""

    def __init__(self, oid, log, label, key=0, kids=(), container=list, idmark='', **attrs):
        def branches():
            return container(object.__getattribute__(self, '_kids'))
        Spy.__init__(self, oid, log, label=label, tpValues=branches, kids=branches, **attrs)
        object.__setattr__(self, '_key', key)
        object.__setattr__(self, '_kids', list(kids))
        object.__setattr__(self, '_idmark', idmark)

    def __getattribute__(self, name):
        # ANY attribute somebody looks at (ids, urls, sort keys, probes for attributes the node does not have) leaves a 'touch':
        # nothing at all may be read of an object the item guard has refused (refused_object_problems)
        if not name.startswith('_') and name not in object.__getattribute__(self, '_names'):
            object.__getattribute__(self, '_log').append(('touch', object.__getattribute__(self, '_oid'), name))
        return Spy.__getattribute__(self, name)

    @property
    def key(self):
        return object.__getattribute__(self, '_key')

    def tpId(self):
        """the id carries the marker of a refused node: an id of a refused node that reaches the output / an error text is seen"""
        return 'n%d%s' % (object.__getattribute__(self, '_oid'), object.__getattribute__(self, '_idmark'))

    @property
    def ident(self):
        """what the author may name with id= / url= instead of tpId (same text, so that a tree-s state fits either)"""
        return 'n%d%s' % (object.__getattribute__(self, '_oid'), object.__getattribute__(self, '_idmark'))


class Response:
    def __init__(self):
        self.cookies = {}

    def setCookie(self, name, value, **kw):
        self.cookies[name] = value


def tree_ns(**kw):
    import TreeDisplay  # noqa: F401  registers the dtml-tree tag
    return dict(kw, URL='http://host/app/page', RESPONSE=Response())


def item_key(v):
    """what the recording item guard identifies an item by: spied objects by their number, strings by value, (key, value)
    pairs by their key, dictionaries (dtml-in … mapping) by their 'ident' entry"""
    if isinstance(v, Spy):
        return object.__getattribute__(v, '_oid')
    if isinstance(v, tuple) and len(v) == 2 and isinstance(v[0], str):
        return ('pair', v[0])
    if isinstance(v, str):
        return ('str', v)
    if isinstance(v, dict) and 'ident' in v:
        return ('map', v['ident'])
    return None


def guarded_class(log, denied, denied_items):
    from DocumentTemplate import HTML
    from zExceptions import Unauthorized
    marker = object()

    class Guarded(HTML):
        def guarded_getattr(self, inst, name, default=marker):
            if isinstance(inst, Spy):
                oid = object.__getattribute__(inst, '_oid')
                log.append(('guard', oid, name))
                if (oid, name) in denied:
                    raise Unauthorized(name)
            if default is marker:
                return getattr(inst, name)
            return getattr(inst, name, default)

        def guarded_getitem(self, ob, index):
            log.append(('gitem', index))
            v = ob[index]
            k = item_key(v)
            if k is not None and k in denied_items:
                raise Unauthorized('item')
            return v
    return Guarded


# channel -> (source, builder(log, m1, m2) -> (client, namespace, denied, denied_items), finding id or None)
ERROR_FORMS = {
    # what the template (or the application that called it) does with the error of a refused read: every form shows a different
    # part of the exception; whatever is shown must not depend on refused data
    'value': '<dtml-try>%s<dtml-except>[<dtml-var error_type>: <dtml-var error_value>]</dtml-try>',
    'traceback': '<dtml-try>%s<dtml-except>[<dtml-var error_tb>]</dtml-try>',
    'value-in-expr': '<dtml-try>%s<dtml-except>[<dtml-var "_.str(error_value)"> <dtml-var "_[\'error_type\']">]</dtml-try>',
    'nested-try': '<dtml-try><dtml-try>%s<dtml-finally>F</dtml-try><dtml-except>[<dtml-var error_value>]</dtml-try>',
    'escapes': '%s',                    # the application sees the exception itself: its text and arguments are inspected
}


def channels(T='<dtml-try>%s<dtml-except>DENIED</dtml-try>'):

    def objs(log, m, extra=None):
        return Spy(1, log, secret=m, pub='p1', **(extra or {}))

    ch = {}
    ch['client'] = ('[' + T % '<dtml-var secret>' + '|<dtml-var pub>]', lambda log, m, n: (objs(log, m), {}, {(1, 'secret')}, set()), None)
    ch['client-tuple'] = ('[' + T % '<dtml-var secret>' + '|<dtml-var pub>|<dtml-var pub2>]',
                          lambda log, m, n: ((Spy(2, log, pub2='q', secret='outer'), objs(log, m)), {}, {(1, 'secret')}, set()), None)
    ch['with'] = ('<dtml-with o>[' + T % '<dtml-var secret>' + '|<dtml-var pub>]</dtml-with>',
                  lambda log, m, n: (None, {'o': objs(log, m)}, {(1, 'secret')}, set()), None)
    ch['with-only'] = ('<dtml-with o only>[' + T % '<dtml-var secret>' + '|<dtml-var pub>]</dtml-with>',
                       lambda log, m, n: (None, {'o': objs(log, m)}, {(1, 'secret')}, set()), None)
    # a one-element tuple as with-object (a relation with one member, the result of _.namespace): dtml-with takes the element
    ch['with-1tuple'] = ('<dtml-with t>[' + T % '<dtml-var secret>' + '|<dtml-var pub>]</dtml-with>',
                         lambda log, m, n: (None, {'t': (objs(log, m),)}, {(1, 'secret')}, set()), None)
    ch['with-1tuple-expr-only'] = ('<dtml-with "(o,)" only>[' + T % '<dtml-if secret>Y<dtml-else>N</dtml-if>' + '|<dtml-var pub>]</dtml-with>',
                                   lambda log, m, n: (None, {'o': objs(log, m)}, {(1, 'secret')}, set()), None)
    ch['with-nested'] = ('<dtml-with o><dtml-let z=pub><dtml-in l>[' + T % '<dtml-var secret>' + '|<dtml-var z>]</dtml-in></dtml-let></dtml-with>',
                         lambda log, m, n: (None, {'o': objs(log, m), 'l': [Spy(5, log, x=1)]}, {(1, 'secret')}, set()), None)
    ch['expr-attr'] = ('[' + T % '<dtml-var "o.secret">' + '|<dtml-var "o.pub">]',
                       lambda log, m, n: (None, {'o': objs(log, m)}, {(1, 'secret')}, set()), None)
    ch['expr-attr-in-condition'] = ('[' + T % '<dtml-if "o.secret">Y<dtml-else>N</dtml-if>' + ']',
                                    lambda log, m, n: (None, {'o': objs(log, m)}, {(1, 'secret')}, set()), None)
    ch['in-body'] = ('<dtml-in l>[' + T % '<dtml-var secret>' + '|<dtml-var pub>]</dtml-in>',
                     lambda log, m, n: (None, {'l': [objs(log, m), Spy(3, log, secret=n, pub='p3')]}, {(1, 'secret'), (3, 'secret')}, set()), None)
    ch['in-refused-item'] = (T % '<dtml-in l>[<dtml-var pub>]</dtml-in>',
                             lambda log, m, n: (None, {'l': [Spy(4, log, pub='ok'), Spy(1, log, pub=m)]}, set(), {1}), None)
    ch['in-skip'] = ('<dtml-in l skip_unauthorized>[<dtml-var pub>]</dtml-in>',
                     lambda log, m, n: (None, {'l': [Spy(1, log, pub=m), Spy(4, log, pub='ok'), Spy(6, log, pub=n)]}, set(), {1, 6}), None)
    for opt in ('sort=pub', 'reverse', 'sort_expr="\'pub\'"', 'reverse_expr="1"', 'sort=pub reverse size=5 orphan=0'):
        ch['in-refused-item ' + opt] = (T % ('<dtml-in l %s>[<dtml-var pub>]</dtml-in>' % opt),
                                        lambda log, m, n: (None, {'l': [Spy(4, log, pub='ok'), Spy(1, log, pub=m), Spy(7, log, pub='zz')]}, set(), {1}), None)
        ch['in-skip ' + opt] = ('<dtml-in l %s skip_unauthorized>[<dtml-var pub>]</dtml-in>' % opt,
                                lambda log, m, n: (None, {'l': [Spy(1, log, pub=m), Spy(4, log, pub='ok'), Spy(6, log, pub=n)]}, set(), {1, 6}), None)
    ch['in-batch-refused'] = (T % '<dtml-in l size=2 start=1 orphan=0>[<dtml-var pub>]</dtml-in>',
                              lambda log, m, n: (None, {'l': [Spy(4, log, pub='ok'), Spy(1, log, pub=m), Spy(7, log, pub='z')]}, set(), {1}), None)
    ch['let'] = ('<dtml-with o>[' + T % '<dtml-let z=secret><dtml-var z></dtml-let>' + ']</dtml-with>',
                 lambda log, m, n: (None, {'o': objs(log, m)}, {(1, 'secret')}, set()), None)
    ch['if-name'] = ('<dtml-with o>[' + T % '<dtml-if secret>Y<dtml-else>N</dtml-if>' + ']</dtml-with>',
                     lambda log, m, n: (None, {'o': objs(log, m)}, {(1, 'secret')}, set()), None)
    ch['in-name-from-client'] = ('<dtml-with o>[' + T % '<dtml-in secret><dtml-var sequence-item></dtml-in>' + ']</dtml-with>',
                                 lambda log, m, n: (None, {'o': Spy(1, log, secret=[m, n], pub='p')}, {(1, 'secret')}, set()), None)
    ch['fmt-method'] = ('[' + T % '<dtml-var o fmt=secretm>' + ']',
                        lambda log, m, n: (None, {'o': Spy(1, log, secretm=(lambda: m))}, {(1, 'secretm')}, set()), None)
    ch['getattr-function'] = ('[' + T % '<dtml-var "_.getattr(o, \'secret\')">' + ']',
                              lambda log, m, n: (None, {'o': objs(log, m)}, {(1, 'secret')}, set()), 'C05-underscore-getattr')
    # record-like clients used as instances: a KEY that is not an attribute is not visible through them at all
    ch['with-record-key'] = ('<dtml-with o>[<dtml-var secret missing="M">|<dtml-var pub>]</dtml-with>',
                             lambda log, m, n: (None, {'o': SpyMap(1, log, {'secret': m}, pub='p1')}, set(), set()), None)
    ch['in-record-key'] = ('<dtml-in l>[<dtml-var secret missing="M">|<dtml-var pub>]</dtml-in>',
                           lambda log, m, n: (None, {'l': [SpyMap(1, log, {'secret': m}, pub='p1'), SpyMap(3, log, {'secret': n}, pub='p3')]}, set(), set()), None)
    ch['client-record-key'] = ('[<dtml-var secret missing="M">|<dtml-var pub>|<dtml-if secret>Y<dtml-else>N</dtml-if>]',
                               lambda log, m, n: (SpyMap(1, log, {'secret': m}, pub='p1'), {}, set(), set()), None)
    # the guards survive dtml-with … only — also the item guard of a loop inside it
    ch['with-only-in-refused'] = (T % '<dtml-with o only><dtml-in things>[<dtml-var pub>]</dtml-in></dtml-with>',
                                  lambda log, m, n: (None, {'o': Spy(9, log, things=[Spy(4, log, pub='ok'), Spy(1, log, pub=m)])}, set(), {1}), None)
    ch['with-only-in-skip'] = ('<dtml-with o only><dtml-in things skip_unauthorized>[<dtml-var pub>]</dtml-in></dtml-with>',
                               lambda log, m, n: (None, {'o': Spy(9, log, things=[Spy(1, log, pub=m), Spy(4, log, pub='ok'), Spy(6, log, pub=n)])}, set(), {1, 6}), None)
    ch['with-only-nested-in-skip'] = ('<dtml-with o only><dtml-with p only><dtml-in things skip_unauthorized>[<dtml-var pub>]</dtml-in></dtml-with></dtml-with>',
                                      lambda log, m, n: (None, {'o': Spy(9, log, p=Spy(8, log, things=[Spy(1, log, pub=m), Spy(4, log, pub='ok')]))}, set(), {1}), None)
    # dtml-tree: the branches method is read through the attribute guard, every branch through the item guard — whatever
    # order the author asks for, whichever way the branches are named, also below the first level (expand_all)
    def forest(log, m, n, container=list):
        return Node(9, log, 'root', kids=[
            Node(1, log, m, key=2, kids=[Node(11, log, 'below-' + m, key=1, idmark='-below-' + m)], container=container, idmark='-' + m),
            Node(4, log, 'ok', key=3),
            Node(7, log, 'zz', key=1, kids=[Node(6, log, n, key=9, idmark='-' + n), Node(10, log, 'deep', key=5), Node(12, log, 'deeper', key=7)],
                 container=container),
            Node(8, log, 'last', key=0)], container=container)
    body = '{<dtml-var label>}'
    for opt in ('', 'sort=key', 'reverse', 'sort=key reverse', 'branches=kids', 'branches_expr="kids()" sort=key',
                'assume_children=1 reverse', 'single nowrap sort=key', 'id=ident', 'url=ident id=ident sort=key'):
        for deep in (0, 1):
            for cont in (list, tuple):
                if cont is tuple and (deep or 'sort' not in opt and 'reverse' not in opt):
                    continue
                tag = ' %s%s%s' % (opt, ' expand_all' if deep else '', ' (branches in a tuple)' if cont is tuple else '')
                mk = (lambda deep, cont: lambda log, m, n: (None, tree_ns(o=forest(log, m, n, cont), **({'expand_all': 1} if deep else {})),
                                                          set(), {1, 6}))(deep, cont)
                ch['tree-skip' + tag] = ('<dtml-tree o %s skip_unauthorized>%s</dtml-tree>' % (opt, body), mk, None)
                ch['tree-refused-item' + tag] = (T % ('<dtml-tree o %s>%s</dtml-tree>' % (opt, body)), mk, None)
    # dtml-tree without a name starts at `this`, the client of the template that was called
    ch['tree-this-skip'] = ('<dtml-tree skip_unauthorized>%s</dtml-tree>' % body,
                            lambda log, m, n: (forest(log, m, n), tree_ns(), set(), {1, 6}), None)
    ch['tree-this-refused-item'] = (T % ('<dtml-tree sort=key>%s</dtml-tree>' % body),
                                    lambda log, m, n: (forest(log, m, n), tree_ns(), set(), {1, 6}), None)
    ch['tree-this-client-tuple'] = ('<dtml-tree skip_unauthorized reverse>%s</dtml-tree>|<dtml-var pub2>' % body,
                                    lambda log, m, n: ((Spy(2, log, pub2='q'), forest(log, m, n)), tree_ns(), set(), {1, 6}), None)
    ch['tree-branches-attr'] = (T % ('<dtml-tree o>%s</dtml-tree>' % body),
                                lambda log, m, n: (None, tree_ns(o=forest(log, m, n)), {(9, 'tpValues')}, set()), None)
    ch['tree-branches-attr below'] = (T % ('<dtml-tree o>%s</dtml-tree>' % body),
                                      lambda log, m, n: (None, tree_ns(o=forest(log, 'x', m), expand_all=1), {(7, 'tpValues')}, set()), None)
    ch['tree-body-attr'] = ('<dtml-tree o>[' + T % '<dtml-var secret>' + '|<dtml-var label>]</dtml-tree>',
                            lambda log, m, n: (None, tree_ns(o=Node(9, log, 'root', kids=[Node(1, log, 'a', secret=m), Node(3, log, 'b', secret=n)])),
                                               {(1, 'secret'), (3, 'secret')}, set()), None)
    # the channels the code reads with plain getattr / a different item guard: known findings
    ch['sequence-var'] = ('<dtml-in l>[' + T % '<dtml-var sequence-var-secret>' + ']</dtml-in>',
                          lambda log, m, n: (None, {'l': [objs(log, m)]}, {(1, 'secret')}, set()), 'C05-sequence-var')
    ch['first-last'] = ('<dtml-in l>[' + T % '<dtml-var first-secret>|<dtml-var last-secret>' + ']</dtml-in>',
                        lambda log, m, n: (None, {'l': [Spy(1, log, secret=m), Spy(3, log, secret=MARK_A), Spy(8, log, secret=n)]},
                                           {(1, 'secret'), (3, 'secret'), (8, 'secret')}, set()), 'C05-first-last')
    ch['statistics'] = ('<dtml-in l>[' + T % '<dtml-var max-secret>|<dtml-var count-secret>' + ']</dtml-in>',
                        lambda log, m, n: (None, {'l': [Spy(1, log, secret=m), Spy(3, log, secret='k')]}, {(1, 'secret'), (3, 'secret')}, set()),
                        'C05-statistics')
    ch['sort-key'] = ('<dtml-in l sort=secret>[<dtml-var pub>]</dtml-in>',
                      lambda log, m, n: (None, {'l': [Spy(1, log, secret=m, pub='a'), Spy(3, log, secret='MARKER-AB', pub='b')]},
                                         {(1, 'secret'), (3, 'secret')}, set()), 'C05-sort-key')
    ch['expr-item'] = ('[' + T % '<dtml-var "l[0].pub">' + ']',
                       lambda log, m, n: (None, {'l': [Spy(1, log, pub=m)]}, set(), {1}), 'C05-expr-getitem')
    return ch


MODES = (None, 'warm', 'warm-other')
MODE_TEXT = {None: '', 'warm': ' (after an unguarded rendering)', 'warm-other': ' (after a rendering under a guard that allows everything)'}


def mode_text(mode):
    if isinstance(mode, tuple):
        return ' (while event %d of the guarded rendering is recorded, the same compiled template is rendered %s, %s)' % (
            mode[1], 'by a nested call' if mode[2] == 'nested' else 'by another thread',
            'without guards' if mode[3] == 'plain' else 'under a guard that allows everything')
    return MODE_TEXT[mode]


def render_channel(name, src, build, m, n, mode=None):
    """mode: None — a fresh template object, rendered once;
             'warm' / 'warm-other' — the same compiled template is first rendered in a context WITHOUT guards (as a sub-template
                 of a plain template) / under a guard that allows everything, then with its own guards: nothing of the first
                 rendering may weaken the second;
             ('overlap', k, 'nested' | 'thread', 'plain' | 'other-guard') — that other rendering happens WHILE the guarded one
                 runs: when its event number k (a guard call / a spied read) is recorded"""
    from DocumentTemplate import HTML
    log = HookLog()
    client, ns, denied, denied_items = build(log, m, n)
    cls = guarded_class(log, denied, denied_items)
    log.error = ''
    log.expand_all = bool(isinstance(ns, dict) and ns.get('expand_all'))
    try:
        t = cls(src)
        if mode in ('warm', 'warm-other'):
            wrapper = HTML if mode == 'warm' else guarded_class([], set(), set())
            try:
                wrapper('<dtml-var inner>')(client, dict(ns, inner=t))
            except Exception:  # noqa
                pass
            del log[:]
        elif mode:
            _, k, how, who = mode

            def other():
                log2 = []
                client2, ns2, _d, _di = build(log2, 'other-1', 'other-2')
                wrapper = HTML if who == 'plain' else guarded_class(log2, set(), set())
                try:
                    wrapper('<dtml-var inner>')(client2, dict(ns2, inner=t))
                except Exception:  # noqa
                    pass

            def interfere():
                if how == 'thread':
                    th = threading.Thread(target=other)
                    th.start()
                    th.join(60)
                else:
                    other()
            log.at, log.hook = k, interfere
        out = t(client, ns)
    except Exception as e:  # noqa
        out = 'RAISED %s' % type(e).__name__
        # what an application / an error page shows of an exception that escapes: its text and its arguments
        log.error = '%r | %r' % (e.args, sorted((k, repr(v)) for k, v in vars(e).items()))
        try:
            log.error += ' | %s' % (e,)
        except Exception:  # noqa  (zExceptions' Unauthorized.__str__ fails on the list of positions dtml-tree raises it with)
            pass
    log.hook = None
    return out, log, denied, denied_items


def read_problems(log):
    """every attribute read of a spied object must have been asked of the guard; keys of record-like objects are never read"""
    problems = []
    asked = {(ev[1], ev[2]) for ev in log if ev[0] == 'guard'}
    for ev in log:
        # a probe like hasattr() may touch the attribute before the guard is asked; what matters is that the guard IS
        # asked for everything that is read (whether the refused value then matters is the marker comparison)
        if ev[0] == 'read' and (ev[1], ev[2]) not in asked:
            problems.append(('unguarded-read:' + ev[2], 'attribute %r of object %d was read without the guard ever being asked' % (ev[2], ev[1])))
        if ev[0] == 'read-item':
            problems.append(('unguarded-item', 'key %r of the record-like object %d was read as an item (no guard mediates that read)' % (ev[2], ev[1])))
    return problems


def refused_object_problems(log, denied_items, src):
    """an object the ITEM guard refuses (a loop item, a tree branch) is not the author's to look at: no attribute of it — spied
    data, ids, urls, whatever id= / url= names, probes for missing attributes — may be read at all, before or after the refusal.
    Left out (known findings with replays of their own): the sort key of a dtml-in (C05-sort-key: the loop sorts before it asks
    the guard), renderings with expand_all (C05-tree-expand-all: the initial state is computed without the item guard)."""
    if getattr(log, 'expand_all', False):
        return []
    sort_names = set(re.findall(r'<dtml-in [^>]*?sort=(\w+)', src)) | set(re.findall(r'<dtml-in [^>]*?sort_expr="\'(\w+)\'"', src))
    problems = []
    for ev in log:
        if ev[0] in ('read', 'touch') and isinstance(ev[1], int) and ev[1] in denied_items and ev[2] not in sort_names:
            problems.append(('refused-object:' + ev[2], 'attribute %r of object %d was read although the item guard refuses that object' % (ev[2], ev[1])))
    return problems


def error_problems(log):
    if 'MARKER' in getattr(log, 'error', ''):
        return [('leak', 'refused data is in the text / arguments of the exception that escapes the rendering: %s' % log.error[:300])]
    return []


def judge(res, name, src, finding, problems, extra=None):
    # reading the sort key of every element with plain getattr is the known finding C05-sort-key, whatever else the channel tests
    if 'sort' in src:
        sort_reads = [p for p in problems if p[0] == 'unguarded-read:pub']
        if sort_reads:
            res.known_hits.setdefault('C05-sort-key', {'channel': name, 'source': src, 'problems': sorted({p[1] for p in sort_reads})[:3]})
            problems = [p for p in problems if p[0] != 'unguarded-read:pub']
    texts = sorted({p[1] for p in problems})
    if texts:
        if finding:
            res.known_hits.setdefault(finding, {'channel': name, 'source': src, 'problems': texts[:3]})
        else:
            res.oracle_fail.append({'case': dict({'channel': name, 'source': src}, **(extra or {})), 'what': '; '.join(texts[:4])})
    elif finding:
        res.count('finding_not_reproduced=' + finding)


def part_a(res):
    plan = [(c, w, None) for c in channels().items() for w in MODES]
    # every channel that catches the refusal again with every way of LOOKING at the error instead of just noticing it
    base = channels()
    for form, T in ERROR_FORMS.items():
        plan += [(c, None, form) for c in channels(T).items() if c[1][0] != base[c[0]][0]]
    for (name, (src, build, finding)), mode, form in plan:
        runs = [render_channel(name, src, build, m, n, mode) for m, n in ((MARK_A, MARK_B), (MARK_B, MARK_A), ('', MARK_A), (MARK_A, ''))]
        res.evaluations += 1
        res.nt(('channel', name, mode, form))
        if form:
            res.count('error_form=' + form)
        name = name + mode_text(mode) + (' (error shown: %s)' % form if form else '')
        problems = []          # (kind, text)
        # (memory addresses in the repr of an error's arguments are not data of anybody)
        outs = [re.sub(r' at 0x[0-9a-f]+', ' at 0x?', r[0]) for r in runs]
        if len(set(outs)) != 1:
            problems.append(('leak', 'the output depends on data the guard refuses: %r vs %r' % (outs[0], [o for o in outs if o != outs[0]][0])))
        if any('MARKER' in o for o in outs):
            problems.append(('leak', 'refused data reached the output: %r' % ([o for o in outs if 'MARKER' in o][0],)))
        problems += read_problems(runs[0][1])
        for run in runs:
            problems += error_problems(run[1])
        problems += refused_object_problems(runs[0][1], runs[0][3], src)
        judge(res, name, src, finding, problems)


def part_d(res, r, tier):
    """overlapping renderings of one compiled template under different guards, at every event of the guarded rendering"""
    for name, (src, build, finding) in channels().items():
        base, base_log, _d, _di = render_channel(name, src, build, MARK_A, MARK_B)
        # a fresh, uninterrupted template object says what the guarded caller must get; part A judged that rendering
        points = [(k, how, who) for k in range(len(base_log)) for how in ('nested', 'thread') for who in ('plain', 'other-guard')]
        if len(points) > 48:
            # long renderings (trees): every event still gets one kind of interruption, the kinds rotate
            kinds = [(h, w) for h in ('nested', 'thread') for w in ('plain', 'other-guard')]
            off = r.randrange(4)
            points = [(k,) + kinds[(k + off) % 4] for k in range(len(base_log))]
        for k, how, who in points:
            mode = ('overlap', k, how, who)
            out, log, denied, denied_items = render_channel(name, src, build, MARK_A, MARK_B, mode)
            res.evaluations += 1
            res.count('overlap=%s/%s' % (how, who))
            if log.fired:
                res.nt(('overlap', name, k, how, who))
            problems = []
            if out != base:
                problems.append(('overlap', 'the guarded rendering gives %r, a fresh template object that nobody interrupts gives %r' % (out, base)))
            if 'MARKER' in out:
                problems.append(('leak', 'refused data reached the output: %r' % (out,)))
            problems += read_problems(log) + error_problems(log) + refused_object_problems(log, denied_items, src)
            judge(res, name + mode_text(mode), src, finding, problems, {'mode': list(mode)})


# --------------------------------------------------------------------------- E: guarded collections against a reference

def gen_in_case(r):
    kind = r.choice(['obj', 'obj', 'obj', 'str', 'pair', 'map'])
    n = r.randint(2, 7)
    keys = r.sample(range(50), n)
    refused = sorted(r.sample(range(n), r.randint(1, min(3, n))))
    c = {'family': 'in', 'kind': kind, 'keys': keys, 'refused': refused, 'skip': r.random() < 0.6,
         'sort': r.choice([None, 'sort=key', 'sort_expr="\'key\'"']) if kind in ('obj', 'map') else None,
         'reverse': r.choice([None, None, 'reverse', 'reverse_expr="1"', 'reverse_expr="0"']),
         'batch': r.choice([None, None, (r.randint(1, n), r.randint(1, n))]),
         'extra': r.choice(['', '', 'prefix=it'])}
    opts = [c['sort'], c['reverse'], c['extra'] or None, 'mapping' if kind == 'map' else None]
    if c['batch']:
        # the window is start … start+size-1 (no orphans folded in); overlap only matters for the neighbouring batches
        opts += ['start=%d size=%d orphan=0' % c['batch']] + r.choice([[], [], ['overlap=1']])
    if c['skip']:
        opts += ['skip_unauthorized']
    opts = [o for o in opts if o]
    r.shuffle(opts)
    body = {'obj': '[<dtml-var label>]', 'map': '[<dtml-var label>]', 'str': '[<dtml-var sequence-item>]', 'pair': '[<dtml-var sequence-key>=<dtml-var sequence-item>]'}[kind]
    c['source'] = '<dtml-in l %s>%s</dtml-in>' % (' '.join(opts), body)
    c['error'] = r.choice(['escapes', 'escapes'] + [f for f in ERROR_FORMS if f not in ('escapes', 'traceback')])
    if c['error'] != 'escapes':
        c['source'] = ERROR_FORMS[c['error']] % c['source']
    return c


def in_build(c):
    def shown(i, m):
        """(item for the template, text the body prints for it, identity for the item guard)"""
        bad = i in c['refused']
        if c['kind'] == 'obj':
            return None, ('%s-%d' % (m, i)) if bad else 'L%d' % i, i + 1
        if c['kind'] == 'map':
            label = ('%s-%d' % (m, i)) if bad else 'L%d' % i
            return {'ident': i, 'label': label, 'key': c['keys'][i]}, label, ('map', i)
        if c['kind'] == 'str':
            v = ('%s-%d' % (m, i)) if bad else 's%d' % i
            return v, v, ('str', v)
        k, v = (('%s-k%d' % (m, i)) if bad else 'k%d' % i), (('%s-v%d' % (m, i)) if bad else 'v%d' % i)
        return (k, v), '%s=%s' % (k, v), ('pair', k)

    def build(log, m, n):
        items, denied_items = [], set()
        for i in range(len(c['keys'])):
            v, text, ident = shown(i, m)
            if c['kind'] == 'obj':
                v = Node(i + 1, log, text, key=c['keys'][i], idmark=('-' + m) if i in c['refused'] else '')
            items.append(v)
            if i in c['refused']:
                denied_items.add(ident)
        return None, {'l': items}, set(), denied_items
    return build, shown


def in_expected(c):
    """the documented meaning of the options: sort, then reverse, then the batch window; of that window the items the guard
    allows, in order — or Unauthorized when one is refused and skip_unauthorized is not given"""
    _b, shown = in_build(c)
    order = list(range(len(c['keys'])))
    if c['sort']:
        order.sort(key=lambda i: c['keys'][i])
    if c['reverse'] in ('reverse', 'reverse_expr="1"'):
        order.reverse()
    if c['batch']:
        start, size = c['batch']
        order = order[start - 1:start - 1 + size]
    if not c['skip'] and any(i in c['refused'] for i in order):
        return 'RAISED Unauthorized', False
    return ''.join('[%s]' % shown(i, '')[1] for i in order if i not in c['refused']), False


def gen_tree_case(r):
    n = r.randint(3, 9)
    parent, depth = {}, {0: 0}
    for i in range(1, n + 1):
        p = r.choice([q for q in range(i) if depth[q] < 3])
        parent[i], depth[i] = p, depth[p] + 1
    kids = {i: [j for j in range(1, n + 1) if parent[j] == i] for i in range(n + 1)}
    for i in kids:
        r.shuffle(kids[i])
    keys = dict(zip(range(n + 1), r.sample(range(50), n + 1)))
    refused = sorted(r.sample(range(1, n + 1), r.randint(1, min(3, n))))
    state = r.choice(['default', 'expand_all', 'cookie', 'cookie'])
    inner = [i for i in range(1, n + 1) if kids[i]]
    opened = []
    if state == 'cookie':
        for i in inner:                     # a set of open nodes closed under "parent is open"
            if (parent[i] == 0 or parent[i] in opened) and r.random() < 0.7:
                opened.append(i)
    elif state == 'expand_all':
        opened = inner
    c = {'family': 'tree', 'kids': {str(k): v for k, v in kids.items()}, 'keys': [keys[i] for i in range(n + 1)], 'refused': refused,
         'state': state, 'open': opened, 'skip': r.random() < 0.65, 'sort': r.random() < 0.5, 'reverse': r.random() < 0.5,
         'branches': r.choice(['', '', 'branches=kids', 'branches_expr="kids()"']), 'tuple': r.random() < 0.4,
         'extra': r.sample(['assume_children=1', 'single', 'nowrap', 'urlparam="a=1"', 'id=tpId', 'url=tpId', 'id=ident', 'url=ident'], r.randint(0, 2))}
    if 'id=tpId' in c['extra'] and 'id=ident' in c['extra']:
        c['extra'].remove('id=tpId')
    if 'url=tpId' in c['extra'] and 'url=ident' in c['extra']:
        c['extra'].remove('url=tpId')
    opts = [c['branches'], 'sort=key' if c['sort'] else '', 'reverse' if c['reverse'] else '', 'skip_unauthorized' if c['skip'] else ''] + c['extra']
    opts = [o for o in opts if o]
    r.shuffle(opts)
    c['source'] = '<dtml-tree o %s>{<dtml-var label>}</dtml-tree>' % ' '.join(opts)
    c['error'] = r.choice(['escapes', 'escapes'] + [f for f in ERROR_FORMS if f not in ('escapes', 'traceback')])
    if c['error'] != 'escapes':
        c['source'] = ERROR_FORMS[c['error']] % c['source']
    return c


def tree_build(c):
    kids = {int(k): v for k, v in c['kids'].items()}

    def idmark(i, m):
        # the id of a refused node — and of everything below it, which the author can only reach through it — carries the marker
        j = i
        while j and j not in c['refused']:
            j = [p for p in kids if j in kids[p]][0]
        return ('-' + m) if j else ''

    def build(log, m, n):
        def node(i):
            label = ('%s-%d' % (m, i)) if i in c['refused'] else 'L%d' % i
            return Node(i + 100, log, label, key=c['keys'][i], kids=[node(j) for j in kids[i]], container=tuple if c['tuple'] else list,
                        idmark=idmark(i, m))
        ns = tree_ns(o=node(0))
        if c['state'] == 'expand_all':
            ns['expand_all'] = 1
        elif c['state'] == 'cookie':
            from TreeDisplay.TreeTag import encode_seq

            def st(i):
                return ['n%d%s' % (i + 100, idmark(i, m)), [st(j) for j in kids[i] if j in c['open']]]
            ns['tree-s'] = encode_seq([st(0)])
        return None, ns, set(), {i + 100 for i in c['refused']}
    return build


def tree_expected(c):
    """pre-order over the open nodes; the branches of a node are the ones the guard allows (skip_unauthorized), sorted by the
    key if asked, reversed if asked.  Without skip_unauthorized a refused branch of an open node (its branches are displayed)
    must raise; a refused branch of a displayed but closed node may (the tag looks at the branches to draw the +) or may not
    (assume_children) raise.  -> (text, may_raise)"""
    kids = {int(k): v for k, v in c['kids'].items()}
    must, may, out = [], [], []

    def visit(i):
        if i:
            out.append('L%d' % i)
        bad = [j for j in kids[i] if j in c['refused']]
        is_open = i == 0 or i in c['open']
        if bad and not c['skip']:
            (must if is_open else may).append(i)
        if is_open:
            br = [j for j in kids[i] if j not in c['refused']]
            if c['sort']:
                br.sort(key=lambda j: c['keys'][j])
            if c['reverse']:
                br.reverse()
            for j in br:
                visit(j)
    visit(0)
    if must:
        return 'RAISED Unauthorized', False
    return ''.join('{%s}' % x for x in out), bool(may)


N_COLLECTIONS = {'quick': 150, 'thorough': 3000}      # per family


def part_e(res, r, tier):
    n = N_COLLECTIONS[tier if tier in N_COLLECTIONS else 'quick']
    for idx in range(2 * n):
        c = gen_in_case(r) if idx % 2 else gen_tree_case(r)
        if c['family'] == 'in':
            build, expected = in_build(c)[0], in_expected(c)
        else:
            build, expected = tree_build(c), tree_expected(c)
        want, may_raise = expected
        res.count('collection=%s%s%s' % (c['family'], '/skip' if c['skip'] else '/strict', '/raises' if want.startswith('RAISED') else ''))
        res.count('collection_items=%s' % (c.get('kind') or 'tree nodes'))
        # which events the rendering has: the interruption points
        _o, base_log, _d, _di = render_channel('', c['source'], build, MARK_A, MARK_B)
        modes = [None, r.choice(['warm', 'warm-other'])]
        if base_log:
            modes.append(('overlap', r.randrange(len(base_log)), r.choice(['nested', 'thread']), r.choice(['plain', 'other-guard'])))
        for mode in modes:
            problems = []
            for m in (MARK_A, MARK_B) if mode is None else (MARK_B,):
                out, log, denied, denied_items = render_channel('', c['source'], build, m, m, mode)
                res.evaluations += 1
                got = out if out.startswith('RAISED') else ''.join(re.findall(r'\{.*?\}', out) if c['family'] == 'tree' else [out])
                if c.get('error', 'escapes') != 'escapes':
                    # the error is caught and shown by the template: what the try block had put out is dropped, the handler
                    # shows the error — of which only the type is the reference's business; the text must be marker-free
                    if c['error'] == 'nested-try' and c['family'] == 'in' and got.endswith('F'):
                        got = got[:-1]
                    if out.startswith('[') and out.endswith(']') and ('Unauthorized' in out or c['error'] == 'nested-try'):
                        got = 'RAISED Unauthorized'
                    elif (want == 'RAISED Unauthorized' or may_raise) and out.startswith('RAISED '):
                        # showing the error may itself fail (str() of the Unauthorized dtml-tree raises with a list of
                        # positions does, in zExceptions): still an error and nothing displayed
                        got = want
                problems += [p[1] for p in error_problems(log)]
                problems += [p[1] for p in refused_object_problems(log, denied_items, c['source'])]
                if got != want and not (may_raise and got == 'RAISED Unauthorized'):
                    problems.append('displayed %r, the reference (allowed items only, in the order asked for) is %r' % (got, want))
                if 'MARKER' in out:
                    problems.append('an item the guard refuses reached the output: %r' % (got,))
                problems += [p[1] for p in read_problems(log)]
                for ev in log:
                    if ev[0] == 'read' and ev[2] == 'label' and isinstance(ev[1], int) and ev[1] in denied_items:
                        problems.append('the label of the refused item %d was read for the author' % ev[1])
            if any(i in c['refused'] for i in range(len(c['keys']))):
                res.nt(('collection', c['source'], json.dumps(c.get('kids', c['keys'])), tuple(c['refused']), str(mode)))
            if problems:
                res.oracle_fail.append({'case': dict(c, mode=list(mode) if isinstance(mode, tuple) else mode),
                                        'what': c['source'] + mode_text(mode) + ': ' + '; '.join(sorted(set(problems))[:4])})


# --------------------------------------------------------------------------- F: every kind of format x every kind of value

METHODS = ('strftime', 'isoformat', 'ctime', 'timeTime', 'Date', 'title', 'format', 'keys', 'values', 'upper', 'lower', 'capitalize',
           'split', 'strip', 'replace', 'quoted', 'html_quote', 'url_quote')


class MethodSpy(Spy):
    """a value with date-like / text-like / record-like methods; each of them is a data attribute (spied) and records its call"""
    _truth = True
    _number = None

    def __init__(self, oid, log, secret):
        def method(name):
            def call(*args):
                log.append(('called', oid, name))
                return '%s-%s' % (secret, name)
            return call
        Spy.__init__(self, oid, log, **{name: method(name) for name in METHODS})

    def __bool__(self):
        return type(self)._truth

    __repr__ = Spy.__str__      # %a / %r formats: no addresses


class FalsySpy(MethodSpy):
    _truth = False


class NumSpy(MethodSpy):
    """usable by the numeric conversions of a C-style format (the number itself is public)"""

    def __float__(self):
        return 12.5

    def __int__(self):
        return 12

    __index__ = __int__


class SpyDate(Spy, datetime.date):
    """a real date (what database adapters deliver) whose str() says nothing: its methods tell when"""
    SPIED = ('strftime', 'isoformat', 'ctime', 'isocalendar', 'toordinal', 'weekday', 'isoweekday', 'timetuple')

    def __new__(cls, oid, log, secret):
        return datetime.date.__new__(cls, *secret)

    def __init__(self, oid, log, secret):
        Spy.__init__(self, oid, log)
        object.__setattr__(self, '_names', set(self.SPIED))

    def __str__(self):
        return 'spy-date'

    __repr__ = __str__


VALUE_KINDS = {
    # kind -> (constructor(oid, log, secret) or a plain value, its spied methods, secret for marker -> constructor argument)
    'when': (MethodSpy, METHODS, lambda m: m),
    'number-like': (NumSpy, METHODS, lambda m: m),
    'falsy': (FalsySpy, METHODS, lambda m: m),
    'date': (SpyDate, SpyDate.SPIED, lambda m: (2031, 12, 24) if m == MARK_A else (1999, 7, 5) if m == MARK_B else (2000, 1, 1)),
    'text': ('abc', (), None), 'empty-text': ('', (), None), 'float': (12.5, (), None), 'int': (7, (), None), 'none': (None, (), None),
}
DATE_SECRETS = ('2031', '1999', '24.12', '12/24', '05.07', '07/05', 'Dec', 'Jul', '-12-', '-07-')

SPECIAL_FORMATS = ('whole-dollars', 'dollars-and-cents', 'collection-length', 'html-quote', 'url-quote', 'url-quote-plus', 'multi-line',
                   'comma-numeric', 'dollars-with-commas', 'dollars-and-cents-with-commas', 'sql-quote', 'url-unquote')
C_FORMATS = ('%s', '[%s]', '%5s|', '%-6s|', '%d', '%.2f', '%x', '%e', '%5.1f%%', '%c', '%i items', '%%', 'no conversion at all')
# strings an author means as a date format: not attribute names, not special formats, (mostly) not valid C-style formats
DATE_FORMATS = ('%d.%m.%Y', '%m/%d/%Y', '%b %Y', '%Y-%m-%d', '%H:%M', '%A, %d. %B %Y', '%j', '%y%m%d', '%d', '%Y', '%', '%d %', '%Q',
                '%-d.%-m.', '%e %b', '%x', '%c', '%X')
FORMAT_FORMS = {
    # how the value gets to the tag: (source with FMT, namespace(value, log))
    'name': ('<dtml-var v FMT>', lambda v, log: {'v': v}),
    'expr': ('<dtml-var "v" FMT>', lambda v, log: {'v': v}),
    'with-attr': ('<dtml-with c><dtml-var v FMT></dtml-with>', lambda v, log: {'c': Spy(2, log, v=v)}),
    'expr-attr': ('<dtml-var "c.v" FMT>', lambda v, log: {'c': Spy(2, log, v=v)}),
    'in-item': ('<dtml-in l><dtml-var sequence-item FMT></dtml-in>', lambda v, log: {'l': [v]}),
    'let': ('<dtml-let w=v><dtml-var w FMT></dtml-let>', lambda v, log: {'v': v}),
}


# the other options of dtml-var work on the TEXT of the value (str()), never on attributes of the value: option -> text -> text
# (None: not decided here, C15 owns the values; the reads and the markers are still judged)
VAR_OPTIONS = {
    'upper': str.upper, 'lower': str.lower, 'capitalize': lambda t: t[:1].upper() + t[1:], 'spacify': lambda t: t.replace('_', ' '),
    'html_quote': lambda t: t, 'url_quote': lambda t: t, 'url_quote_plus': lambda t: t, 'newline_to_br': lambda t: t,
    'size=3 etc="~"': lambda t: t if len(t) <= 3 else t[:3] + '~', 'upper html_quote size=2 etc=""': lambda t: t.upper()[:2],
    'thousands_commas': None, 'sql_quote': None, 'url_unquote': None, 'url_unquote_plus': None,
    'missing="M" upper': str.upper, 'null="-" lower': None,
}


def random_format(r):
    """%-strings: conversions CPython's % knows, strftime directives it does not, flags, widths, separators, a lone % at the end"""
    parts = []
    for _ in range(r.randint(1, 4)):
        parts.append('%' + r.choice(['', '', '-', '0', '5', '.2', '#']) + r.choice('dmYHMSbBaAjyIpZUwWcxXsfegiouQ%'))
        parts.append(r.choice(['', '.', '/', '-', ':', ' ', ', ', 'T']))
    if r.random() < 0.1:
        parts.append('%')
    return ''.join(parts)


def format_reference(kind, fmt, null, refuse):
    """the documented meaning of <dtml-var v fmt=F null=N>, in plain Python on a value of its own: null for a false value that
    is not 0; F names an attribute of the value -> that method, obtained through the guard; a special format (not decided
    here: None); the empty format -> ''; otherwise the C-style format F % value"""
    ctor, spied, secret = VALUE_KINDS[kind]
    v = ctor(1, [], secret('')) if secret else ctor
    if null is not None and not v and v != 0:
        return null
    try:
        if fmt and hasattr(v, fmt):
            if refuse and fmt in spied:
                return 'RAISED Unauthorized'
            return str(getattr(v, fmt)())
        if fmt in SPECIAL_FORMATS:
            return None
        if fmt == '':
            return ''
        return str(fmt % v)
    except Exception as e:  # noqa
        return 'RAISED %s' % type(e).__name__


def format_cases(r, tier):
    n_random = 6 if tier != 'thorough' else 120
    for kind, (ctor, spied, secret) in VALUE_KINDS.items():
        fmts = list(spied) + ['nosuch', '', 'upper', 'real', 'hex'] + list(SPECIAL_FORMATS) + list(C_FORMATS) + list(DATE_FORMATS)
        fmts += [random_format(r) for _ in range(n_random)]
        for fmt in dict.fromkeys(fmts):
            if '"' in fmt:
                continue
            if fmt == 'sql-quote' and secret:
                continue        # finding C05-special-format-attr: this special format calls value.replace() directly
            for null in (None, '-'):
                for refuse in ((True, False) if secret else (False,)):
                    forms = list(FORMAT_FORMS) if (tier == 'thorough' or fmt in DATE_FORMATS or fmt in spied[:3]) else \
                        ['name', r.choice(list(FORMAT_FORMS)[1:])]
                    for form in forms:
                        yield kind, fmt, null, refuse, form


def render_format(kind, fmt, null, refuse, form, m, options=None):
    ctor, spied, secret = VALUE_KINDS[kind]
    src, mk_ns = FORMAT_FORMS[form]
    src = src.replace('FMT', options if options is not None else 'fmt="%s"%s' % (fmt, '' if null is None else ' null="%s"' % null))

    def build(log, m_, n_):
        v = ctor(1, log, secret(m_ if refuse else '')) if secret else ctor
        return None, mk_ns(v, log), ({(1, name) for name in spied} if refuse else set()), set()
    out, log, denied, _di = render_channel('', src, build, m, m)
    return src, out, log, denied


def part_f(res, r, tier):
    for kind, fmt, null, refuse, form in format_cases(r, tier):
        want = format_reference(kind, fmt, null, refuse)
        problems, outs = [], []
        for m in (MARK_A, MARK_B) if refuse else ('',):
            src, out, log, denied = render_format(kind, fmt, null, refuse, form, m)
            res.evaluations += 1
            outs.append(out)
            if want is not None and out != want:
                problems.append('rendered %r; the documented meaning of fmt= (method of the value through the guard, special format, '
                                'empty format, else Python\'s own %r %% value) gives %r' % (out, fmt, want))
            if 'MARKER' in out or (kind == 'date' and refuse and any(x in out for x in DATE_SECRETS)):
                problems.append('what a refused method of the value says reached the output: %r' % (out,))
            problems += [p[1] for p in read_problems(log)]
            for ev in log:
                if ev[0] == 'called' and (ev[1], ev[2]) in denied:
                    problems.append('the method %r of the value, which the guard refuses, was called' % (ev[2],))
        if len(set(outs)) != 1:
            problems.append('the output depends on what the refused methods of the value say: %r vs %r' % (outs[0], outs[1]))
        res.count('format=%s' % ('method' if fmt in VALUE_KINDS[kind][1] else 'special' if fmt in SPECIAL_FORMATS else 'empty' if not fmt
                                 else 'no-percent' if '%' not in fmt else 'c-style-valid' if not (want or '').startswith('RAISED')
                                 else 'c-style-invalid'))
        if refuse or VALUE_KINDS[kind][1] == ():
            res.nt(('format', kind, fmt, null, refuse, form))
        if problems:
            res.oracle_fail.append({'case': {'part': 'F', 'value': kind, 'fmt': fmt, 'null': null, 'guard_refuses_methods': refuse,
                                             'form': form, 'source': src},
                                    'what': '%s on a %s value (%s): %s' % (src, kind, 'the guard refuses every method of the value' if refuse
                                                                           else 'nothing refused', '; '.join(sorted(set(problems))[:4]))})


def part_f_options(res):
    """the options of dtml-var other than fmt= on values that HAVE attributes of the options' names"""
    for kind, (ctor, spied, secret) in VALUE_KINDS.items():
        if kind in ('none', 'empty-text', 'falsy'):
            continue
        text = str(ctor(1, [], secret('')) if secret else ctor)
        for options, ref in VAR_OPTIONS.items():
            want = ref(text) if ref else None
            for refuse in ((True, False) if secret else (False,)):
                for form in ('name', 'with-attr', 'in-item', 'expr'):
                    problems, outs = [], []
                    for m in (MARK_A, MARK_B) if refuse else ('',):
                        src, out, log, denied = render_format(kind, None, None, refuse, form, m, options)
                        res.evaluations += 1
                        outs.append(out)
                        if want is not None and out != want:
                            problems.append('rendered %r; the option works on the text of the value, %r: %r' % (out, text, want))
                        if 'MARKER' in out:
                            problems.append('what a refused method of the value says reached the output: %r' % (out,))
                        problems += [p[1] for p in read_problems(log)]
                        problems += ['the method %r of the value, which the guard refuses, was called' % (ev[2],)
                                     for ev in log if ev[0] == 'called' and (ev[1], ev[2]) in denied]
                    if len(set(outs)) != 1:
                        problems.append('the output depends on what the refused methods of the value say: %r vs %r' % (outs[0], outs[1]))
                    res.count('format=other-option')
                    res.nt(('var-option', kind, options, refuse, form))
                    if problems:
                        res.oracle_fail.append({'case': {'part': 'F', 'value': kind, 'options': options, 'guard_refuses_methods': refuse,
                                                         'form': form, 'source': src},
                                                'what': '%s on a %s value: %s' % (src, kind, '; '.join(sorted(set(problems))[:4]))})


# --------------------------------------------------------------------------- G: two template classes in one rendering

def guarded_reads(o, l, which=(0, 1, 2)):
    """refused data read in four ways; what the guard allows of it is 'ok…' / DENIED"""
    T = '<dtml-try>%s<dtml-except>DENIED</dtml-try>'
    raising = ['<dtml-var "%s.secret">' % o, '<dtml-with %s><dtml-var secret></dtml-with>' % o, '<dtml-var %s fmt=secretm>' % o]
    return '(<dtml-in %s skip_unauthorized><dtml-var pub></dtml-in>' % l + ''.join('|' + T % raising[i] for i in which) + ')'


# what the caller reads after the call (each refusal costs a formatted traceback in dtml-try: one raising read per rendering, in
# rotation; the other template's body 'reads-guarded' does all of them)
TAILS = [guarded_reads('c05o', 'c05ol', (i,)) for i in range(3)]
# what the other template does: source in the syntax of its class, the text that stands for its call in the reference
SUB_BODIES = {
    'static': {'html': '[sub]', 'string': '[sub]'},
    'reads-client': {'html': '[<dtml-var c05pub>]', 'string': '[%(c05pub)s]'},
    'blocks': {'html': '<dtml-in c05l>(<dtml-var sequence-item>)</dtml-in><dtml-with c05cl>{<dtml-var c05pub>}</dtml-with>',
               'string': '%(in c05l)[(%(sequence-item)s)%(in c05l)]%(with c05cl)[{%(c05pub)s}%(with c05cl)]'},
    'raises': {'html': '[a<dtml-raise ValueError>b</dtml-raise>]', 'string': '[a%(raise ValueError)[b%(raise ValueError)]]', 'raises': True},
    'returns': {'html': '[a<dtml-return "\'R\'">b]', 'inline': 'R'},
    'reads-guarded': {'html': '[' + guarded_reads('c05p', 'c05pl') + ']'},
}
SUB_KINDS = ('html', 'string', 'other-guard', 'nested', 'same')
SUB_HOWS = {
    # how -> (call, reference(inline text of the sub-template) or None = "the same call with a template of the caller's class")
    'name': ('<dtml-var c05sub>', lambda t, b: t),
    'expr': ('<dtml-var "c05sub(None, _)">', lambda t, b: t),
    'expr-client': ('<dtml-var "c05sub(c05cl, _)">', lambda t, b: '<dtml-with c05cl>%s</dtml-with>' % t),
    'expr-client-tuple': ('<dtml-var "c05sub((c05cl, c05cl2), _)">', lambda t, b: '<dtml-with c05cl><dtml-with c05cl2>%s</dtml-with></dtml-with>' % t),
    'render-function': ('<dtml-var "_.render(c05sub)">', lambda t, b: t),
    'subscript': ('<dtml-var "_[\'c05sub\']">', lambda t, b: t),
    'getitem-function': ('<dtml-var "_.getitem(\'c05sub\', 1)">', lambda t, b: t),
    'with-namespace': ('<dtml-with "_.namespace(c05q=1)"><dtml-var c05sub></dtml-with>', lambda t, b: t),
    'expr-keywords': ('<dtml-var "c05sub(None, _, c05pub=\'kw\')">', lambda t, b: '<dtml-let c05pub="\'kw\'">%s</dtml-let>' % t),
    'loop-item': ('<dtml-in c05subs><dtml-var sequence-item></dtml-in>', lambda t, b: '<dtml-in c05subs>%s</dtml-in>' % t),
    'call': ('<dtml-call c05sub>', lambda t, b: t if b.get('raises') else ''),
    'if': ('<dtml-if c05sub>[t]<dtml-else>[f]</dtml-if>', lambda t, b: t if b.get('raises') else '[t]'),
    'let': ('<dtml-let c05z=c05sub><dtml-var c05z></dtml-let>', lambda t, b: t),
    'tree-header': ('<dtml-tree c05t header=c05sub>.</dtml-tree>', None),
    'tree-footer': ('<dtml-tree c05t footer=c05sub>.</dtml-tree>', None),
    'tree-expand': ('<dtml-tree c05t expand=c05sub>.</dtml-tree>', None),
    'tree-leaves': ('<dtml-tree c05leaf leaves=c05sub>.</dtml-tree>', None),
}
BASE_CHANNELS = ('client', 'with-only', 'expr-attr', 'in-body', 'in-skip', 'fmt-method', 'tree-skip sort=key', 'tree-this-skip')


class Pub:
    """a client without secrets"""

    def __init__(self, **kw):
        self.__dict__.update(kw)


def sub_positions(src):
    """before every tag of the source, and at its end; not inside a <dtml-with … only> block (the names of the call are not
    visible there, whatever class the template has)"""
    pos = [mm.start() for mm in re.finditer(r'</?dtml-', src)] + [len(src)]
    mm = re.search(r'<dtml-with [^>]* only>', src)
    if mm:
        end = src.rindex('</dtml-with>')
        pos = [p for p in pos if p <= mm.start() or p > end]
    return pos


def sub_applicable(how, kind, body):
    if kind == 'string' and 'string' not in SUB_BODIES[body]:
        return False
    return True


def render_two(src, build, m, n, pos, how, kind, body, tail=0, reference=False):
    """the channel's template with the call of another template at `pos`, followed by reads of refused data;
    reference: the same source with the text of the other template in place of the call (tree documents: a template of the
    caller's own class), rendered by a fresh object of the caller's class with data of its own"""
    import DocumentTemplate
    b = SUB_BODIES[body]
    call, inline = SUB_HOWS[how]
    log = HookLog()
    client, ns, denied, denied_items = build(log, m, n)
    quiet = []                  # the tree of the call and the clients of the other template: nothing of theirs is judged
    ns = dict(ns)
    ns.update(c05o=Spy(77, log, secret=m, pub='p77', secretm=(lambda: m)), c05ol=[Spy(78, log, pub=n), Spy(79, log, pub='ok79')],
              c05p=Spy(87, log, secret=n, pub='p87', secretm=(lambda: n)), c05pl=[Spy(88, log, pub=m), Spy(89, log, pub='ok89')],
              c05pub='np', c05cl=Pub(c05pub='cp', c05x='x1'), c05cl2=Pub(c05x='x2'), c05l=['i', 'j'],
              c05t=Node(901, quiet, 'c05t', kids=[Node(902, quiet, 'c05kid')]), c05leaf=Node(903, quiet, 'c05leaf'))
    for k, v in tree_ns().items():
        ns.setdefault(k, v)
    denied = set(denied) | {(77, 'secret'), (77, 'secretm'), (87, 'secret'), (87, 'secretm')}
    denied_items = set(denied_items) | {78, 88}
    cls = guarded_class(log, denied, denied_items)
    nested = '<dtml-var c05sub2>' if kind == 'nested' else ''
    text = b['inline'] if 'inline' in b else ('(s2)' if nested else '') + b['html']     # dtml-return discards the text before it
    ns['c05subs'] = ['in place of the other template']
    if reference and inline is not None:
        piece = inline(text, b)
    else:
        piece = call
        k = 'same' if reference else kind
        sub_cls = {'html': DocumentTemplate.HTML, 'string': DocumentTemplate.String, 'nested': DocumentTemplate.HTML, 'same': cls,
                   'other-guard': guarded_class([], set(), set())}[k]
        ns['c05sub'] = sub_cls(b['string'] if k == 'string' else nested + b['html'])
        ns['c05sub2'] = guarded_class([], set(), set())('(s2)')
        ns['c05subs'] = [ns['c05sub']]
    if b.get('raises'):
        piece = '<dtml-try>%s<dtml-except>[x]</dtml-try>' % piece
    full = src[:pos] + piece + TAILS[tail % len(TAILS)] + src[pos:]
    try:
        out = cls(full)(client, ns)
    except Exception as e:  # noqa
        out = 'RAISED %s' % type(e).__name__
    return full, out, log


def two_class_plans(r, tier):
    """(channel, position, how, kind, body, at the first tag of a base channel).  At the first tag of the base channels'
    sources: every way of calling x every class and every class x every body, the third coordinate rotating (thorough: the
    whole product); every other position of every channel: a rotating selection of the product (thorough: many more)"""
    chans = channels()
    product = [(h, k, b) for h in SUB_HOWS for k in SUB_KINDS for b in SUB_BODIES if sub_applicable(h, k, b)]
    per_position = 1 if tier != 'thorough' else 40
    rot = r.randrange(len(product))
    for name, (src, build, finding) in chans.items():
        for pos in sub_positions(src):
            if name in BASE_CHANNELS and pos == sub_positions(src)[0]:
                if tier == 'thorough':
                    combos = product
                else:
                    bodies, kinds, hows = list(SUB_BODIES), list(SUB_KINDS), list(SUB_HOWS)
                    combos = []
                    for i, h in enumerate(hows):
                        combos += [(h, k, bodies[(i + j + rot) % len(bodies)]) for j, k in enumerate(kinds)]
                    for i, k in enumerate(kinds):
                        combos += [(hows[(3 * i + j + rot) % len(hows)], k, b) for j, b in enumerate(bodies)]
                    combos = [c for c in dict.fromkeys(combos) if sub_applicable(*c)]
                    rot += 1
            else:
                combos = [product[(rot + i * 37) % len(product)] for i in range(per_position)]
                rot += per_position * 37 + 1
            for h, k, b in combos:
                yield name, pos, h, k, b, name in BASE_CHANNELS and pos == sub_positions(src)[0]


def part_g(res, r, tier):
    chans = channels()
    for idx, (name, pos, how, kind, body, whole) in enumerate(two_class_plans(r, tier)):
        src, build, finding = chans[name]
        # both marker assignments where the whole product is explored; elsewhere one (the reference and the marker search decide)
        swaps = ((MARK_A, MARK_B), (MARK_B, MARK_A)) if whole or tier == 'thorough' else ((MARK_A, MARK_B),)
        runs = [render_two(src, build, m, n, pos, how, kind, body, idx) for m, n in swaps]
        full_ref, want, _l = render_two(src, build, MARK_A, MARK_B, pos, how, kind, body, idx, reference=True)
        res.evaluations += 1
        res.count('two_classes=%s/%s' % (how, kind))
        full, outs = runs[0][0], [x[1] for x in runs]
        if '(ok79|DENIED)' in outs[0] or '[sub]' in outs[0] or '[x]' in outs[0]:
            res.nt(('two-classes', name, pos, how, kind, body))
        problems = []
        if len(set(outs)) != 1:
            problems.append(('leak', 'the output depends on data the guard refuses: %r vs %r' % (outs[0], outs[1])))
        if any('MARKER' in o for o in outs):
            problems.append(('leak', 'refused data reached the output: %r' % ([o for o in outs if 'MARKER' in o][0],)))
        if outs[0] != want:
            problems.append(('two-classes', 'rendered %r; with %s in place of the call (%s) a fresh template of the caller\'s class gives %r'
                             % (outs[0], 'the other template\'s text' if SUB_HOWS[how][1] else 'a template of the caller\'s own class',
                                full_ref, want)))
        problems += read_problems(runs[0][2])
        judge(res, '%s + a %s template (%s) rendered %s before position %d' % (name, kind, body, how, pos), full, finding, problems,
              {'part': 'G', 'position': pos, 'how': how, 'other_class': kind, 'other_body': body})


# --------------------------------------------------------------------------- H: every client object x every way it becomes a namespace

class EqSpy(Spy):
    """a value object: equal (and hash-equal) to every other record with the same number — still another object, with data
    and permissions of its own"""

    def __eq__(self, other):
        return isinstance(other, EqSpy) and object.__getattribute__(other, '_eqkey') == object.__getattribute__(self, '_eqkey')

    def __ne__(self, other):
        return not self.__eq__(other)

    def __hash__(self):
        return hash(object.__getattribute__(self, '_eqkey'))


class EqUnhashableSpy(EqSpy):
    __hash__ = None


def aq_spy_class():
    from Acquisition import Implicit

    class AqSpy(Spy, Implicit):
        """one object reachable in several containers: the acquisition wrappers are different objects that compare equal"""
    return AqSpy


def h_key(inst):
    """who the guard is asked about: the object (its number) — in the container it was reached through, if any"""
    from Acquisition import aq_base, aq_parent
    b = aq_base(inst)
    if not isinstance(b, Spy):
        return None
    oid = object.__getattribute__(b, '_oid')
    parent = aq_parent(inst)
    if parent is None:
        return oid
    return (object.__getattribute__(aq_base(parent), '_oid'), oid)


def h_guarded_class(log, refused):
    from DocumentTemplate import HTML
    from zExceptions import Unauthorized
    marker = object()

    class Guarded(HTML):
        def guarded_getattr(self, inst, name, default=marker):
            k = h_key(inst)
            if k is not None:
                log.append(('guard', k, name))
                if (k, name) in refused:
                    raise Unauthorized(name)
            if default is marker:
                return getattr(inst, name)
            return getattr(inst, name, default)

        def guarded_getitem(self, ob, index):
            return ob[index]
    return Guarded


H_WORLDS = ('identity', 'equal', 'equal-unhashable', 'acquisition', 'acquisition-nested', 'same-object')
H_NAMES = ('val', 'pub')


def h_world(kind, log, refused_refs, m):
    """-> ({'o1': object, 'o2': object}, {(ref, name): text of the value}).  The two objects of a world have the same attribute
    names; what the guard refuses holds the marker (where the two are one piece of data — acquisition, the same object — the
    data is public in one place and refused in the other: no marker, the reference decides alone)"""
    def text(ref, name):
        t = '%s-of-%s' % (name, ref)
        return (m + '-' + t) if (ref, name) in refused_refs and m else t
    if kind in ('identity', 'equal', 'equal-unhashable'):
        cls = {'identity': Spy, 'equal': EqSpy, 'equal-unhashable': EqUnhashableSpy}[kind]
        objs = {}
        for i, ref in enumerate(('o1', 'o2')):
            objs[ref] = cls(31 + i, log, **{name: text(ref, name) for name in H_NAMES})
            object.__setattr__(objs[ref], '_eqkey', 7)
        return objs, {(ref, name): text(ref, name) for ref in objs for name in H_NAMES}
    if kind == 'same-object':
        o = Spy(31, log, **{name: '%s-of-o' % name for name in H_NAMES})
        return {'o1': o, 'o2': o}, {(ref, name): '%s-of-o' % name for ref in ('o1', 'o2') for name in H_NAMES}
    AqSpy = aq_spy_class()
    doc = AqSpy(33, log, **{name: '%s-of-doc' % name for name in H_NAMES})
    f1, f2 = AqSpy(41, log), AqSpy(42, log)
    if kind == 'acquisition-nested':
        site = AqSpy(40, log)
        f1, f2 = f1.__of__(site), f2.__of__(site)
    return ({'o1': doc.__of__(f1), 'o2': doc.__of__(f2)},
            {(ref, name): '%s-of-doc' % name for ref in ('o1', 'o2') for name in H_NAMES})


# how the author reads NAME once the object is (part of) the namespace: source, what it shows of the value's text
H_READS = {
    'var': ('<dtml-var NAME>', lambda t: t),
    'expr': ('<dtml-var "NAME">', lambda t: t),
    'expr-op': ('<dtml-var "NAME + \'!\'">', lambda t: t + '!'),
    'if': ('<dtml-if NAME>Y<dtml-else>N</dtml-if>', lambda t: 'Y'),
    'unless': ('<dtml-unless NAME>U</dtml-unless>.', lambda t: '.'),
    'let': ('<dtml-let c05s=NAME><dtml-var c05s></dtml-let>', lambda t: t),
    'let-expr': ('<dtml-let c05s="NAME"><dtml-var c05s upper></dtml-let>', lambda t: t.upper()),
    'subscript': ('<dtml-var "_[\'NAME\']">', lambda t: t),
    'getitem-function': ('<dtml-var "_.getitem(\'NAME\', 0)">', lambda t: t),
}
# how the object REF becomes a namespace: every kind of with-object the language knows (the object itself by name / by
# expression, a one-element tuple of it — client attribute, method result, built or sliced in the expression: dtml-with takes the
# element —, below only, through _.namespace), a loop row, the client of a template called in an expression
H_FORMS = {
    'with': '<dtml-with REF>READ</dtml-with>',
    'with-only': '<dtml-with REF only>READ</dtml-with>',
    'with-expr': '<dtml-with "REF">READ</dtml-with>',
    'with-expr-only': '<dtml-with "REF" only>READ</dtml-with>',
    'with-1tuple-name': '<dtml-with t_REF>READ</dtml-with>',
    'with-1tuple-name-only': '<dtml-with t_REF only>READ</dtml-with>',
    'with-1tuple-method': '<dtml-with m_REF>READ</dtml-with>',
    'with-1tuple-method-call': '<dtml-with "m_REF()">READ</dtml-with>',
    'with-1tuple-attr': '<dtml-with "h_REF.rel">READ</dtml-with>',
    'with-1tuple-attr-name': '<dtml-with h_REF><dtml-with rel>READ</dtml-with></dtml-with>',
    'with-1tuple-built': '<dtml-with "(REF,)">READ</dtml-with>',
    'with-1tuple-built-only': '<dtml-with "(REF,)" only>READ</dtml-with>',
    'with-1tuple-slice': '<dtml-with "p_REF[:1]">READ</dtml-with>',
    'with-1tuple-concat': '<dtml-with "() + t_REF">READ</dtml-with>',
    'with-namespace-with': '<dtml-with "_.namespace(c05p=REF)"><dtml-with c05p>READ</dtml-with></dtml-with>',
    'with-namespace-1tuple': '<dtml-with "_.namespace(c05p=t_REF)"><dtml-with c05p>READ</dtml-with></dtml-with>',
    'with-in-let': '<dtml-let c05w=REF><dtml-with c05w>READ</dtml-with></dtml-let>',
    'with-in-let-1tuple': '<dtml-let c05w="(REF,)"><dtml-with c05w>READ</dtml-with></dtml-let>',
    'in-row': '<dtml-in l_REF>READ</dtml-in>',
    'in-row-expr': '<dtml-in "[REF]">READ</dtml-in>',
    'in-row-1tuple': '<dtml-in t_REF>READ</dtml-in>',
    'in-row-with-item': '<dtml-in l_REF><dtml-with sequence-item only>READ</dtml-with></dtml-in>',
    'in-row-1tuple-of-item': '<dtml-in l_REF><dtml-with "(_[\'sequence-item\'],)">READ</dtml-with></dtml-in>',
    'sub-client': '<dtml-var "SUB(REF, _)">',
    'sub-client-1tuple': '<dtml-var "SUB(t_REF, _)">',
    'expr-attr': None,            # '<dtml-var "REF.NAME">': no namespace at all (control)
    'namespace-attr': None,       # '<dtml-with "_.namespace(c05p=REF)"><dtml-var "c05p.NAME"></dtml-with>'
}
H_TRY = '<dtml-try>%s<dtml-except>DENIED</dtml-try>'


def h_piece(ref, form, read, name):
    """-> (source, the text it gives for the value's text t)"""
    if form == 'expr-attr':
        return '<dtml-var "%s.%s">' % (ref, name), (lambda t: t)
    if form == 'namespace-attr':
        return '<dtml-with "_.namespace(c05p=%s)"><dtml-var "c05p.%s"></dtml-with>' % (ref, name), (lambda t: t)
    rsrc, shows = H_READS[read]
    src = H_FORMS[form].replace('READ', rsrc.replace('NAME', name)).replace('SUB', 'sub_%s_%s' % (read.replace('-', '_'), name))
    return src.replace('REF', ref), shows


# both objects in ONE construct: (source with READ1 / READ2 = the reads that see o1 / o2, in the order they are rendered)
H_JOINT = {
    'in-both': ('<dtml-in both>[READ]</dtml-in>', ('o1', 'o2')),
    'in-both-reverse': ('<dtml-in both reverse>[READ]</dtml-in>', ('o2', 'o1')),
    'in-both-expr': ('<dtml-in "[o1, o2]">[READ]</dtml-in>', ('o1', 'o2')),
    'in-both-twice': ('<dtml-in both>[READ]</dtml-in><dtml-in both>[READ]</dtml-in>', ('o1', 'o2', 'o1', 'o2')),
    'in-in': ('<dtml-in l_o1><dtml-in l_o2>[READ]</dtml-in>[READ]</dtml-in>', ('o2', 'o1')),
    'with-with': ('<dtml-with o1><dtml-with o2>[READ]</dtml-with>[READ]</dtml-with>', ('o2', 'o1')),
    'with-with-1tuple': ('<dtml-with t_o1><dtml-with t_o2>[READ]</dtml-with>[READ]</dtml-with>', ('o2', 'o1')),
    'with-with-only': ('<dtml-with o2><dtml-with o1 only>[READ]</dtml-with>[READ]</dtml-with>', ('o1', 'o2')),
    'tree-rows': ('<dtml-tree c05root branches=kids>[READ]</dtml-tree>', ('o1', 'o2')),
}


def h_render(kind, src, refused_refs, m):
    """-> (output, log, values, keys of the two objects)"""
    log = []
    objs, values = h_world(kind, log, refused_refs, m)
    keys = {ref: h_key(o) for ref, o in objs.items()}
    refused = {(keys[ref], name) for ref, name in refused_refs}
    cls = h_guarded_class(log, refused)
    ns = tree_ns(both=[objs['o1'], objs['o2']], c05root=Pub(kids=lambda: [objs['o1'], objs['o2']], tpId=lambda: 'c05root'))
    for ref, o in objs.items():
        ns.update({ref: o, 't_' + ref: (o,), 'm_' + ref: (lambda o=o: (o,)), 'p_' + ref: (o, 'filler', 'filler'), 'l_' + ref: [o],
                   'h_' + ref: Pub(rel=(o,), one=o)})
    for read, (rsrc, _s) in H_READS.items():
        for name in H_NAMES:
            ns['sub_%s_%s' % (read.replace('-', '_'), name)] = cls(rsrc.replace('NAME', name))
    try:
        out = cls(src)(None, ns)
    except Exception as e:  # noqa
        out = 'RAISED %s' % type(e).__name__
        if type(e).__name__ != 'Unauthorized':
            out += ': %s' % (str(e)[:200],)
    return out, log, values, keys


def h_plans(r, tier):
    """(world, [(ref, form, read, name, caught)], joint form or None, refused refs).  Every world x every ordered pair of forms
    (the first for o1, the second for o2, reading the same name) followed by a re-read of one of them; the refusals rotate over
    {the later object only, the earlier only, both, another name of the later one, nothing}; every joint form x every read.
    thorough: every refusal set for every pair, several reads"""
    forms, reads = list(H_FORMS), list(H_READS)
    refusals = [{('o2', 'val')}, {('o1', 'val')}, {('o1', 'val'), ('o2', 'val')}, {('o2', 'pub')}, {('o1', 'pub'), ('o2', 'val')}, set()]
    rot = r.randrange(1000)
    for kind in H_WORLDS:
        for f1 in forms:
            for f2 in forms:
                rot += 1
                if tier != 'thorough' and kind in ('same-object', 'identity', 'equal-unhashable', 'acquisition-nested') and (rot % 4):
                    continue                                        # the control worlds: a quarter of the pairs
                sets = refusals if tier == 'thorough' else [refusals[0], refusals[rot % len(refusals)]]
                for k, refused in enumerate(sets):
                    name = 'val'
                    pieces = [('o1', f1, reads[(rot + k) % len(reads)], name, True), ('o2', f2, reads[(rot * 7 + k) % len(reads)], name, True),
                              (r.choice(['o1', 'o2']), r.choice(forms), r.choice(reads), r.choice(H_NAMES), r.random() < 0.8)]
                    if r.random() < 0.3:
                        pieces.insert(1, ('o1', r.choice(forms), r.choice(reads), 'pub', True))
                    yield kind, pieces, None, refused
        for joint in H_JOINT:
            for read in reads:
                for refused in refusals:
                    yield kind, [], (joint, read, r.choice(H_NAMES) if refused == set() else 'val'), refused


def part_h(res, r, tier):
    for kind, pieces, joint, refused_refs in h_plans(r, tier):
        # the reference: every read shows the text of the value of THAT object, or is refused — by what the guard says about
        # (that object [in that container], name)
        def keyset(keys):
            return {(keys[ref], name) for ref, name in refused_refs}
        src, expect = '', []            # expect: (ref, name, shows, caught)
        if joint:
            form, read, name = joint
            rsrc, shows = H_READS[read]
            tmpl, order = H_JOINT[form]
            src = tmpl.replace('READ', H_TRY % rsrc.replace('NAME', name))
            expect = [(ref, name, shows, True, '[%s]') for ref in order]
        else:
            for ref, form, read, name, caught in pieces:
                psrc, shows = h_piece(ref, form, read, name)
                src += '(' + ((H_TRY % psrc) if caught else psrc) + ')'
                expect.append((ref, name, shows, caught, '(%s)'))
        problems, outs = [], []
        sameness = kind in ('same-object', 'acquisition', 'acquisition-nested')
        for m in (((MARK_A, MARK_B) if tier == 'thorough' else (MARK_A,)) if not sameness and refused_refs else ('',)):
            out, log, values, keys = h_render(kind, src, refused_refs, m)
            res.evaluations += 1
            refused = keyset(keys)
            want, raised = '', False
            for ref, name, shows, caught, deco in expect:
                if (keys[ref], name) in refused:
                    if not caught:
                        raised = True
                        break
                    want += deco % 'DENIED'             # the handler's text stands in place of the whole read
                else:
                    want += deco % shows(values[(ref, name)])
            if raised:
                want = 'RAISED Unauthorized'
            got = out
            if joint and joint[0].startswith('tree') and not out.startswith('RAISED'):
                got = ''.join(re.findall(r'\[.*?\]', out))         # the rows, without the table around them
            if got != want:
                problems.append('rendered %r; every read shows the value of the object it names or is refused, as the guard says '
                                'about (that object, name): %r' % (got, want))
            if m and 'MARKER' in out:
                problems.append('refused data reached the output: %r' % (out,))
            outs.append(re.sub('MARKER-(AAA|BBB)', 'MARKER', out))
            asked = {(ev[1], ev[2]) for ev in log if ev[0] == 'guard'}
            asked_oids = {(k[1] if isinstance(k, tuple) else k, n_) for k, n_ in asked}
            for ev in log:
                if ev[0] == 'read' and (ev[1], ev[2]) not in asked_oids:
                    problems.append('attribute %r of object %d was read without the guard ever being asked' % (ev[2], ev[1]))
            if not raised:
                for ref, name, shows, caught, deco in expect:
                    if (keys[ref], name) not in asked:
                        problems.append('the guard was never asked about (%s = object %r, %r), which the template reads' % (ref, keys[ref], name))
        if len(set(outs)) > 1 and not problems:
            problems.append('the output depends on data the guard refuses: %r vs %r' % (outs[0], outs[1]))
        res.count('namespace_objects=%s' % kind)
        if refused_refs:
            res.nt(('namespace-object', kind, src, tuple(sorted(refused_refs))))
        if problems:
            res.oracle_fail.append({'case': {'part': 'H', 'objects': kind, 'source': src, 'refused': sorted(map(list, refused_refs))},
                                    'what': '%s with o1, o2 = %s; the guard refuses %s: %s' % (
                                        src, {'identity': 'two objects', 'equal': 'two distinct objects that compare (and hash) equal',
                                              'equal-unhashable': 'two distinct unhashable objects that compare equal',
                                              'acquisition': 'one object in two containers (acquisition wrappers)',
                                              'acquisition-nested': 'one object in two containers of one site (acquisition wrappers)',
                                              'same-object': 'the same object twice'}[kind],
                                        sorted(refused_refs) or 'nothing', '; '.join(sorted(set(problems))[:4]))})


def part_b(res):
    from DocumentTemplate import HTML
    log = []
    for cls_name, cls in (('plain', HTML), ('guarded', guarded_class(log, set(), set()))):
        o = Spy(1, log, _secret=MARK_A, pub='p')
        for src, args in (('[<dtml-var _secret missing="M">]', ((o,), {})),
                          ('<dtml-with o>[<dtml-var _secret missing="M">]</dtml-with>', ((), {'o': o})),
                          ('<dtml-in l>[<dtml-var _secret missing="M">]</dtml-in>', ((), {'l': [o]})),
                          ('<dtml-with o>[<dtml-if _secret>Y<dtml-else>N</dtml-if>]</dtml-with>', ((), {'o': o}))):
            del log[:]
            res.evaluations += 1
            res.nt(('underscore', cls_name, src))
            try:
                out = cls(src)(*args[0], **args[1])
            except Exception as e:  # noqa
                out = 'RAISED %s' % type(e).__name__
            if 'MARKER' in out or out not in ('[M]', '[N]') or any(e[0] == 'read' and e[2] == '_secret' for e in log):
                res.oracle_fail.append({'case': {'class': cls_name, 'source': src},
                                        'what': 'a name starting with an underscore was resolved from a client object: %r' % (out,)})
    # restricted expressions cannot name underscore attributes
    g = guarded_class(log, set(), set())
    for src in ('<dtml-var "o._secret">', '<dtml-if "o._secret">x</dtml-if>', '<dtml-let z="o._secret"><dtml-var z></dtml-let>',
                '<dtml-in "o._items"></dtml-in>', '<dtml-var "o.__dict__">'):
        res.evaluations += 1
        res.nt(('underscore-expr', src))
        try:
            out = g(src)(o=Spy(1, log, _secret=MARK_A, _items=[1]))
            res.oracle_fail.append({'case': {'source': src}, 'what': 'a restricted expression naming an underscore attribute was '
                                                                       'accepted and rendered %r' % (out,)})
        except Exception as e:  # noqa
            if type(e).__name__ not in ('ParseError', 'SyntaxError', 'Unauthorized', 'NameError'):
                res.oracle_fail.append({'case': {'source': src}, 'what': 'unexpected %s: %s' % (type(e).__name__, e)})


def mixed_guard(case):
    """proggen.recording_guard for a rendering with SEVERAL template classes: the template that the application calls (the first
    one constructed) has the recording guard; the others stand for objects of a class without guards ('plain': their
    guarded_getattr / guarded_getitem are None) or with a guard of their own that allows everything and records nothing"""
    def make(world):
        import itertools
        base = proggen.recording_guard(case.get('denied', []), case.get('deniedItems', []))(world)
        ga, gi = base.guarded_getattr, base.guarded_getitem
        counter = itertools.count()
        marker = object()

        def allow_attr(inst, name, default=marker):
            return getattr(inst, name) if default is marker else getattr(inst, name, default)

        class Mixed(base):
            def __init__(self, *args, **kw):
                self.__dict__['_c05_kind'] = 'called' if next(counter) == case['main'] else case['otherClass']
                base.__init__(self, *args, **kw)

            @property
            def guarded_getattr(self):
                kind = self.__dict__.get('_c05_kind', 'called')
                return ga.__get__(self) if kind == 'called' else None if kind == 'plain' else allow_attr

            @property
            def guarded_getitem(self):
                kind = self.__dict__.get('_c05_kind', 'called')
                return gi.__get__(self) if kind == 'called' else None if kind == 'plain' else (lambda ob, index: ob[index])
        return Mixed
    return make


def run_cases_mixed(res, cases):
    """interp.run_cases with mixed_guard on the side of the real classes (the model has one guard per rendering)"""
    reqs = [proggen.model_req(c) for c in cases]
    resp = []
    if res.have_driver:
        for i in range(0, len(reqs), 400):
            try:
                resp += common.run_driver(reqs[i:i + 400], timeout=600)
            except Exception as e:  # noqa
                if 'TimeoutExpired' not in type(e).__name__ and 'timed out' not in str(e):
                    raise
                resp += [None] * len(reqs[i:i + 400])
                res.count('driver_chunk_timed_out')
    else:
        resp = [{}] * len(cases)
    out = []
    for c, rp in zip(cases, resp):
        if rp is None:
            continue
        impl = proggen.run_impl(c, (), 'ValueError', guard=mixed_guard(c))
        m = rp.get('ok') if rp else None
        if rp and m is None:
            raise RuntimeError('driver: %r' % (rp,))
        out.append((c, ((), 'ValueError'), impl, m))
    return out


def part_c(res, r, n, have_driver, mixed=False):
    cases = []
    for _ in range(n):
        c = proggen.gen_case(r, r.choice([2, 3]), robust=r.random() < 0.5)
        c['guard'] = True
        if mixed:
            if r.random() < 0.5:
                c = proggen.wrap_case(c)      # three templates: the driver that is called, the program, its sub-template
            c['otherClass'] = r.choice(['plain', 'plain', 'other-guard'])
        # refuse some (object, attribute) pairs and some items that actually occur
        pairs, items = [], []

        def walk(v):
            if isinstance(v, dict):
                if 'o' in v and 'a' in v:
                    for k, x in v['a']:
                        pairs.append([v['o'], k])
                        walk(x)
                    items.append(v['o'])
                else:
                    for x in v.values():
                        walk(x)
            elif isinstance(v, list):
                for x in v:
                    walk(x)
        walk([c['kw'], c['mapping'], c['clients'], [t['globals'] for t in c['templates']], [t['vars'] for t in c['templates']]])
        r.shuffle(pairs)
        c['denied'] = pairs[:r.randint(0, 4)]
        c['deniedItems'] = r.sample(items, min(len(items), r.randint(0, 2))) if items else []
        # skip_unauthorized on some loops
        def add_skip(bs):
            for b in bs:
                if b[0] == 'in':
                    if r.random() < 0.4:
                        b[2]['skip'] = True
                    add_skip(b[3])
                    if b[4]:
                        add_skip(b[4])
                elif b[0] == 'cond':
                    for s_, body in b[1]:
                        add_skip(body)
                    if b[2]:
                        add_skip(b[2])
                elif b[0] in ('unless', 'let'):
                    add_skip(b[2])
                elif b[0] == 'with':
                    add_skip(b[4])
                elif b[0] == 'try':
                    add_skip(b[1])
                    for nm, hb in b[2]:
                        add_skip(hb)
                    if b[3]:
                        add_skip(b[3])
                elif b[0] == 'tryfin':
                    add_skip(b[1]); add_skip(b[2])
                elif b[0] == 'raise':
                    add_skip(b[3])
        for t in c['templates']:
            add_skip(t['blocks'])
            t['source'] = proggen.print_blocks(t['blocks'])
        cases.append(c)
    res.have_driver = have_driver
    for (c, plan, impl, m) in (run_cases_mixed(res, cases) if mixed else interp.run_cases(res, cases)):
        res.evaluations += 1
        if mixed:
            res.count('mixed_classes=%s' % c['otherClass'])
        guards = [e for e in impl['events'] if e[0] in ('guard', 'gitem')]
        res.count('guard_events=%s' % ('0' if not guards else '1-5' if len(guards) <= 5 else '6+'))
        if any(e[0] == 'guard' and [e[1], e[2]] in c['denied'] for e in impl['events']):
            res.nt(('refused', c['templates'][0]['source'][:60]))
        if m is None:
            continue
        d = interp.compare(impl, m)
        if d == 'oom':
            res.count('outside_model')
            continue
        res.corr_checked += 1
        if d:
            res.corr_mismatch.append({'case': dict(interp.brief(c), denied=c['denied'], deniedItems=c['deniedItems'], **({'templates_other_than_the_called_one': c['otherClass']} if mixed else {})),
                                      'impl': {'result': impl['result'], 'guard_log': guards[:30]},
                                      'model': {'result': m['result'], 'guard_log': [e for e in m['trace'] if e[0] in ('guard', 'gitem')][:30]},
                                      'diff': d})


def run(res, tier, have_driver):
    r = common.rng('C05')
    res.rule = ('A: %d channels (incl. sorted / reversed / batched loops and dtml-tree with sort / reverse / branches= / branches_expr / '
                'assume_children / expand_all, branches as list or tuple, refused branches at positions the rearrangement moves) x {fresh, '
                'after an unguarded rendering of the same compiled template, after a rendering under a guard that allows everything} x 4 '
                'marker assignments (incl. empty / order-changing markers) with spied client objects and a recording guard; '
                'D: every channel again with a second rendering of the SAME compiled template object for another caller (no guards / a '
                'guard that allows everything) started at every event of the guarded rendering (guard call, item guard call, spied read), '
                'as a nested call and from another thread: output == that of a fresh uninterrupted template object, no marker, every read '
                'asked; E: %d random guarded collections vs an independent reference (dtml-in over objects / strings / (key, value) pairs '
                'with sort, sort_expr, reverse, reverse_expr, start/size/overlap windows, prefix; dtml-tree over random shapes with sort, '
                'reverse, branches=, branches_expr, tuple branches, assume_children, single, nowrap, urlparam, id=, url=, open nodes from '
                'the tree-s cookie / expand_all / default; 1-3 refused items, with and without skip_unauthorized): displayed sequence == '
                'allowed items in the order asked for, Unauthorized where a displayed item is refused; each also after a rendering in '
                'another guard context and interrupted by one at a random event; '
                'F: dtml-var fmt= over %d value kinds (spied objects with date- / text- / record-like methods, number-like, falsy, a real '
                'datetime.date subclass, plain text / numbers / None) x every method of the value, unknown names, %d special formats, the '
                'empty format, valid C-style formats, strftime-style and random %%-strings x null= x guard refuses every method / none '
                'x 6 ways the value reaches the tag, and %d other option sets of dtml-var on values having attributes of those names: '
                'output == the documented meaning computed in plain Python (Python\'s own %% for C-style formats), every attribute of '
                'the value that is read was asked of the guard, no refused method called; '
                'G: two template classes in one rendering: a call of another document template (classes: HTML, String, a class with '
                'an allow-everything guard of its own, a plain one rendering a third, control: the caller\'s class; %d ways of rendering '
                'it incl. expression with a client / client tuple / keywords of its own, _.render, _[...], dtml-call / -if / -let / -in, '
                'dtml-tree header / footer / leaves / expand documents; %d bodies incl. raising, returning and reading guarded data '
                'itself) spliced in before every tag of every channel of A, followed by reads of refused data through an expression, a '
                'with-object, a skipping loop and fmt=: output == the source with the other template\'s text in place of the call on a '
                'fresh object of the caller\'s class, no marker, every read asked (the first tag of %d base channels gets every way x '
                'every class and every class x every body; thorough: the whole product); '
                'H: two client objects in one rendering (%d kinds: plain, equal + hash-equal value objects, equal unhashable, one object '
                'in two acquisition contexts, the same object twice) x every ordered pair of %d ways an object becomes a namespace (with / '
                'with only / expression, one-element tuples from a name, a method, an attribute, built, sliced, _.namespace, let, loop rows, '
                'client of a called template, ...) x %d reading tags x rotating refusal sets per (object [in its container], name), plus %d '
                'constructs holding both objects (loops, nested with, tree rows): output == per read the value of the object named or '
                'DENIED as the guard says about that very object, the guard asked about every (object, name) read; '
                'B: underscore names through 4 lookup forms x {plain, guarded} class and 5 restricted expressions; '
                'C: random programs (all block tags, nesting <= 3) with the guard installed, random refused (object, attribute) pairs, '
                'refused items and skip_unauthorized: results + call traces + ordered guard log vs the model; non-trivial = '
                'channels / interruption points that were reached / collections with a refused item / programs in which a refusal '
                'actually happened; C-mixed: the same kind of programs (also wrapped in a driver template: three templates) with every '
                'template other than the called one standing for a class without guards / with an allow-everything guard of its own, '
                'against the model\'s single guard per rendering'
                % (len(channels()), 2 * N_COLLECTIONS[tier if tier in N_COLLECTIONS else 'quick'], len(VALUE_KINDS), len(SPECIAL_FORMATS),
                   len(VAR_OPTIONS), len(SUB_HOWS), len(SUB_BODIES), len(BASE_CHANNELS), len(H_WORLDS), len(H_FORMS), len(H_READS),
                   len(H_JOINT)))
    part_a(res)
    part_b(res)
    part_d(res, common.rng('C05/D'), tier)
    part_e(res, common.rng('C05/E'), tier)
    part_f(res, common.rng('C05/F'), tier)
    part_f_options(res)
    part_g(res, common.rng('C05/G'), tier)
    part_h(res, common.rng('C05/H'), tier)
    part_c(res, r, 500 if tier == 'quick' else 8000, have_driver)
    part_c(res, common.rng('C05/C-mixed'), 200 if tier == 'quick' else 3000, have_driver, mixed=True)
    res.partial.append('dtml-tree reads ids / urls (tpId, tpURL) and its sort= key with plain getattr, and expand_all walks the branches without '
                       'the item guard (ids of refused nodes end up in the tree-s cookie): the tree nodes of parts A / D / E keep id and sort key '
                       'out of the spied attributes, so these reads are not judged')
    res.partial.append('of nodes the item guard REFUSES every attribute access is judged (none allowed; error texts shown by dtml-except or '
                       'escaping to the caller are searched for their ids / labels) except under expand_all (C05-tree-expand-all) and for '
                       'the sort key of dtml-in (C05-sort-key)')
    res.partial.append('left out of the format grid (known findings, replayed by findings_probe): the url option (C05-var-url), %(key)s '
                       'formats on record-like values (C05-fmt-mapping-key), fmt=sql-quote / structured-text / restructured-text on '
                       'non-text values (C05-special-format-attr)')
    res.partial.append('global non-interference of a whole rendering is decided by the marker oracle; the Lean side proves the guard '
                       'discipline of each read site (instance lookup, expression attribute, dtml-in item) and local '
                       'non-interference; the unguarded channels are known findings')
    res.assumptions += ['AccessControl / RestrictedPython (compilation of restricted expressions, rejection of _names) are external',
                        'the guard is a pure predicate on (object, attribute) / items; guards with side effects are outside the model']


def search_more(res, tier):
    res2 = common.Result('C05')
    part_a(res2)
    part_b(res2)
    part_d(res2, common.rng('C05/D'), tier)
    part_e(res2, common.rng('C05/E'), tier)
    part_f(res2, common.rng('C05/F'), tier)
    part_f_options(res2)
    part_g(res2, common.rng('C05/G'), tier)
    part_h(res2, common.rng('C05/H'), tier)
    return res2.oracle_fail


def replay(path):
    with open(path) as f:
        d = json.load(f)
    print(json.dumps(d.get('first', d), indent=1, ensure_ascii=False)[:3000])
    return 1
