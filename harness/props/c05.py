"""C05 — security guards mediate every read of client data; '_' names stay private.

A. Channel table (oracle on the implementation, marker non-interference): for every way a template reads client data — client
   object / client tuple, dtml-with, dtml-with only, attribute access in expressions, items iterated by dtml-in (refused item
   raises / is skipped with skip_unauthorized), attributes of pushed items, dtml-let / dtml-if by name, fmt=method,
   _.getattr, sort keys, sequence-var-x, first-x / last-x, statistics, item access in expressions — the refused attribute /
   item holds a marker; the template is rendered with two different marker values (incl. true/false and order-changing
   ones): the outputs must be equal and contain no marker, every attribute read of a spied object must have been asked of
   the guard first, refused attributes must never be read.  Channels that are unguarded in the code are known findings
   (one per call site); anything else is a violation.
B. '_' names: never resolved from client objects (with or without guards); restricted expressions naming _attributes are
   rejected.
C. Correspondence: random programs with a recording guard, random refused (object, attribute) pairs and refused items,
   skip_unauthorized: results, call traces AND the ordered guard log (attribute guard / item guard events) of the real
   classes vs the Lean interpreter model.
"""
import json

import common
import interp
import proggen

MARK_A = 'MARKER-AAA'
MARK_B = 'MARKER-BBB'


class Spy:
    """client object that records every read of a data attribute"""

    def __init__(self, oid, log, **attrs):
        object.__setattr__(self, '_oid', oid)
        object.__setattr__(self, '_log', log)
        object.__setattr__(self, '_names', set(attrs))
        for k, v in attrs.items():
            object.__setattr__(self, k, v)

    def __getattribute__(self, name):
        if not name.startswith('_') or name in ('_secret',):
            if name in object.__getattribute__(self, '_names'):
                object.__getattribute__(self, '_log').append(('read', object.__getattribute__(self, '_oid'), name))
        return object.__getattribute__(self, name)

    def __str__(self):
        return 'spy%d' % object.__getattribute__(self, '_oid')


class SpyMap(Spy):
    """a record-like client: attributes AND keys (as ZSQL result rows, dict subclasses …); a key is not an attribute"""

    def __init__(self, oid, log, keys, **attrs):
        Spy.__init__(self, oid, log, **attrs)
        object.__setattr__(self, '_keys', dict(keys))

    def __getitem__(self, k):
        object.__getattribute__(self, '_log').append(('read-item', object.__getattribute__(self, '_oid'), k))
        return object.__getattribute__(self, '_keys')[k]

    def keys(self):
        return list(object.__getattribute__(self, '_keys'))


def guarded_class(log, denied, denied_items):
    from DocumentTemplate import HTML
    from zExceptions import Unauthorized
    marker = object()

    class Guarded(HTML):
        def guarded_getattr(self, inst, name, default=marker):
            if isinstance(inst, Spy):
                oid = object.__getattribute__(inst, '_oid')
                log.append(('guard', oid, name))
                if (oid, name) in denied:
                    raise Unauthorized(name)
            if default is marker:
                return getattr(inst, name)
            return getattr(inst, name, default)

        def guarded_getitem(self, ob, index):
            log.append(('gitem', index))
            v = ob[index]
            if isinstance(v, Spy) and object.__getattribute__(v, '_oid') in denied_items:
                raise Unauthorized('item')
            return v
    return Guarded


# channel -> (source, builder(log, m1, m2) -> (client, namespace, denied, denied_items), finding id or None)
def channels():
    T = '<dtml-try>%s<dtml-except>DENIED</dtml-try>'

    def objs(log, m, extra=None):
        return Spy(1, log, secret=m, pub='p1', **(extra or {}))

    ch = {}
    ch['client'] = ('[' + T % '<dtml-var secret>' + '|<dtml-var pub>]', lambda log, m, n: (objs(log, m), {}, {(1, 'secret')}, set()), None)
    ch['client-tuple'] = ('[' + T % '<dtml-var secret>' + '|<dtml-var pub>|<dtml-var pub2>]',
                          lambda log, m, n: ((Spy(2, log, pub2='q', secret='outer'), objs(log, m)), {}, {(1, 'secret')}, set()), None)
    ch['with'] = ('<dtml-with o>[' + T % '<dtml-var secret>' + '|<dtml-var pub>]</dtml-with>',
                  lambda log, m, n: (None, {'o': objs(log, m)}, {(1, 'secret')}, set()), None)
    ch['with-only'] = ('<dtml-with o only>[' + T % '<dtml-var secret>' + '|<dtml-var pub>]</dtml-with>',
                       lambda log, m, n: (None, {'o': objs(log, m)}, {(1, 'secret')}, set()), None)
    ch['with-nested'] = ('<dtml-with o><dtml-let z=pub><dtml-in l>[' + T % '<dtml-var secret>' + '|<dtml-var z>]</dtml-in></dtml-let></dtml-with>',
                         lambda log, m, n: (None, {'o': objs(log, m), 'l': [Spy(5, log, x=1)]}, {(1, 'secret')}, set()), None)
    ch['expr-attr'] = ('[' + T % '<dtml-var "o.secret">' + '|<dtml-var "o.pub">]',
                       lambda log, m, n: (None, {'o': objs(log, m)}, {(1, 'secret')}, set()), None)
    ch['expr-attr-in-condition'] = ('[' + T % '<dtml-if "o.secret">Y<dtml-else>N</dtml-if>' + ']',
                                    lambda log, m, n: (None, {'o': objs(log, m)}, {(1, 'secret')}, set()), None)
    ch['in-body'] = ('<dtml-in l>[' + T % '<dtml-var secret>' + '|<dtml-var pub>]</dtml-in>',
                     lambda log, m, n: (None, {'l': [objs(log, m), Spy(3, log, secret=n, pub='p3')]}, {(1, 'secret'), (3, 'secret')}, set()), None)
    ch['in-refused-item'] = (T % '<dtml-in l>[<dtml-var pub>]</dtml-in>',
                             lambda log, m, n: (None, {'l': [Spy(4, log, pub='ok'), Spy(1, log, pub=m)]}, set(), {1}), None)
    ch['in-skip'] = ('<dtml-in l skip_unauthorized>[<dtml-var pub>]</dtml-in>',
                     lambda log, m, n: (None, {'l': [Spy(1, log, pub=m), Spy(4, log, pub='ok'), Spy(6, log, pub=n)]}, set(), {1, 6}), None)
    for opt in ('sort=pub', 'reverse', 'sort_expr="\'pub\'"', 'reverse_expr="1"', 'sort=pub reverse size=5 orphan=0'):
        ch['in-refused-item ' + opt] = (T % ('<dtml-in l %s>[<dtml-var pub>]</dtml-in>' % opt),
                                        lambda log, m, n: (None, {'l': [Spy(4, log, pub='ok'), Spy(1, log, pub=m), Spy(7, log, pub='zz')]}, set(), {1}), None)
        ch['in-skip ' + opt] = ('<dtml-in l %s skip_unauthorized>[<dtml-var pub>]</dtml-in>' % opt,
                                lambda log, m, n: (None, {'l': [Spy(1, log, pub=m), Spy(4, log, pub='ok'), Spy(6, log, pub=n)]}, set(), {1, 6}), None)
    ch['in-batch-refused'] = (T % '<dtml-in l size=2 start=1 orphan=0>[<dtml-var pub>]</dtml-in>',
                              lambda log, m, n: (None, {'l': [Spy(4, log, pub='ok'), Spy(1, log, pub=m), Spy(7, log, pub='z')]}, set(), {1}), None)
    ch['let'] = ('<dtml-with o>[' + T % '<dtml-let z=secret><dtml-var z></dtml-let>' + ']</dtml-with>',
                 lambda log, m, n: (None, {'o': objs(log, m)}, {(1, 'secret')}, set()), None)
    ch['if-name'] = ('<dtml-with o>[' + T % '<dtml-if secret>Y<dtml-else>N</dtml-if>' + ']</dtml-with>',
                     lambda log, m, n: (None, {'o': objs(log, m)}, {(1, 'secret')}, set()), None)
    ch['in-name-from-client'] = ('<dtml-with o>[' + T % '<dtml-in secret><dtml-var sequence-item></dtml-in>' + ']</dtml-with>',
                                 lambda log, m, n: (None, {'o': Spy(1, log, secret=[m, n], pub='p')}, {(1, 'secret')}, set()), None)
    ch['fmt-method'] = ('[' + T % '<dtml-var o fmt=secretm>' + ']',
                        lambda log, m, n: (None, {'o': Spy(1, log, secretm=(lambda: m))}, {(1, 'secretm')}, set()), None)
    ch['getattr-function'] = ('[' + T % '<dtml-var "_.getattr(o, \'secret\')">' + ']',
                              lambda log, m, n: (None, {'o': objs(log, m)}, {(1, 'secret')}, set()), 'C05-underscore-getattr')
    # record-like clients used as instances: a KEY that is not an attribute is not visible through them at all
    ch['with-record-key'] = ('<dtml-with o>[<dtml-var secret missing="M">|<dtml-var pub>]</dtml-with>',
                             lambda log, m, n: (None, {'o': SpyMap(1, log, {'secret': m}, pub='p1')}, set(), set()), None)
    ch['in-record-key'] = ('<dtml-in l>[<dtml-var secret missing="M">|<dtml-var pub>]</dtml-in>',
                           lambda log, m, n: (None, {'l': [SpyMap(1, log, {'secret': m}, pub='p1'), SpyMap(3, log, {'secret': n}, pub='p3')]}, set(), set()), None)
    ch['client-record-key'] = ('[<dtml-var secret missing="M">|<dtml-var pub>|<dtml-if secret>Y<dtml-else>N</dtml-if>]',
                               lambda log, m, n: (SpyMap(1, log, {'secret': m}, pub='p1'), {}, set(), set()), None)
    # the guards survive dtml-with … only — also the item guard of a loop inside it
    ch['with-only-in-refused'] = (T % '<dtml-with o only><dtml-in things>[<dtml-var pub>]</dtml-in></dtml-with>',
                                  lambda log, m, n: (None, {'o': Spy(9, log, things=[Spy(4, log, pub='ok'), Spy(1, log, pub=m)])}, set(), {1}), None)
    ch['with-only-in-skip'] = ('<dtml-with o only><dtml-in things skip_unauthorized>[<dtml-var pub>]</dtml-in></dtml-with>',
                               lambda log, m, n: (None, {'o': Spy(9, log, things=[Spy(1, log, pub=m), Spy(4, log, pub='ok'), Spy(6, log, pub=n)])}, set(), {1, 6}), None)
    ch['with-only-nested-in-skip'] = ('<dtml-with o only><dtml-with p only><dtml-in things skip_unauthorized>[<dtml-var pub>]</dtml-in></dtml-with></dtml-with>',
                                      lambda log, m, n: (None, {'o': Spy(9, log, p=Spy(8, log, things=[Spy(1, log, pub=m), Spy(4, log, pub='ok')]))}, set(), {1}), None)
    # the channels the code reads with plain getattr / a different item guard: known findings
    ch['sequence-var'] = ('<dtml-in l>[' + T % '<dtml-var sequence-var-secret>' + ']</dtml-in>',
                          lambda log, m, n: (None, {'l': [objs(log, m)]}, {(1, 'secret')}, set()), 'C05-sequence-var')
    ch['first-last'] = ('<dtml-in l>[' + T % '<dtml-var first-secret>|<dtml-var last-secret>' + ']</dtml-in>',
                        lambda log, m, n: (None, {'l': [Spy(1, log, secret=m), Spy(3, log, secret=MARK_A), Spy(8, log, secret=n)]},
                                           {(1, 'secret'), (3, 'secret'), (8, 'secret')}, set()), 'C05-first-last')
    ch['statistics'] = ('<dtml-in l>[' + T % '<dtml-var max-secret>|<dtml-var count-secret>' + ']</dtml-in>',
                        lambda log, m, n: (None, {'l': [Spy(1, log, secret=m), Spy(3, log, secret='k')]}, {(1, 'secret'), (3, 'secret')}, set()),
                        'C05-statistics')
    ch['sort-key'] = ('<dtml-in l sort=secret>[<dtml-var pub>]</dtml-in>',
                      lambda log, m, n: (None, {'l': [Spy(1, log, secret=m, pub='a'), Spy(3, log, secret='MARKER-AB', pub='b')]},
                                         {(1, 'secret'), (3, 'secret')}, set()), 'C05-sort-key')
    ch['expr-item'] = ('[' + T % '<dtml-var "l[0].pub">' + ']',
                       lambda log, m, n: (None, {'l': [Spy(1, log, pub=m)]}, set(), {1}), 'C05-expr-getitem')
    return ch


def render_channel(name, src, build, m, n, warm=False):
    log = []
    client, ns, denied, denied_items = build(log, m, n)
    cls = guarded_class(log, denied, denied_items)
    try:
        t = cls(src)
        if warm:
            # the same compiled template is first rendered in a context WITHOUT guards (as a sub-template of a plain
            # template), then with its own guards: nothing of the first rendering may weaken the second
            from DocumentTemplate import HTML
            try:
                HTML('<dtml-var inner>')(client, dict(ns, inner=t))
            except Exception:  # noqa
                pass
            del log[:]
        out = t(client, ns)
    except Exception as e:  # noqa
        out = 'RAISED %s' % type(e).__name__
    return out, log, denied, denied_items


def part_a(res):
    for (name, (src, build, finding)), warm in [(c, w) for c in channels().items() for w in (False, True)]:
        runs = [render_channel(name, src, build, m, n, warm) for m, n in ((MARK_A, MARK_B), (MARK_B, MARK_A), ('', MARK_A), (MARK_A, ''))]
        res.evaluations += 1
        res.nt(('channel', name, warm))
        name = name + (' (after an unguarded rendering)' if warm else '')
        problems = []          # (kind, text)
        outs = [r[0] for r in runs]
        if len(set(outs)) != 1:
            problems.append(('leak', 'the output depends on data the guard refuses: %r vs %r' % (outs[0], [o for o in outs if o != outs[0]][0])))
        if any('MARKER' in o for o in outs):
            problems.append(('leak', 'refused data reached the output: %r' % ([o for o in outs if 'MARKER' in o][0],)))
        for out, log, denied, denied_items in runs:
            asked = {(ev[1], ev[2]) for ev in log if ev[0] == 'guard'}
            for ev in log:
                # a probe like hasattr() may touch the attribute before the guard is asked; what matters is that the guard IS
                # asked for everything that is read (whether the refused value then matters is the marker comparison above)
                if ev[0] == 'read' and (ev[1], ev[2]) not in asked:
                    problems.append(('unguarded-read:' + ev[2], 'attribute %r of object %d was read without the guard ever being asked' % (ev[2], ev[1])))
                if ev[0] == 'read-item':
                    problems.append(('unguarded-item', 'key %r of the record-like object %d was read as an item (no guard mediates that read)' % (ev[2], ev[1])))
            break
        # reading the sort key of every element with plain getattr is the known finding C05-sort-key, whatever else the channel tests
        if 'sort' in src:
            sort_reads = [p for p in problems if p[0] == 'unguarded-read:pub']
            if sort_reads:
                res.known_hits.setdefault('C05-sort-key', {'channel': name, 'source': src, 'problems': sorted({p[1] for p in sort_reads})[:3]})
                problems = [p for p in problems if p[0] != 'unguarded-read:pub']
        texts = sorted({p[1] for p in problems})
        if texts:
            if finding:
                res.known_hits.setdefault(finding, {'channel': name, 'source': src, 'problems': texts[:3]})
            else:
                res.oracle_fail.append({'case': {'channel': name, 'source': src}, 'what': '; '.join(texts[:4])})
        elif finding:
            res.count('finding_not_reproduced=' + finding)


def part_b(res):
    from DocumentTemplate import HTML
    log = []
    for cls_name, cls in (('plain', HTML), ('guarded', guarded_class(log, set(), set()))):
        o = Spy(1, log, _secret=MARK_A, pub='p')
        for src, args in (('[<dtml-var _secret missing="M">]', ((o,), {})),
                          ('<dtml-with o>[<dtml-var _secret missing="M">]</dtml-with>', ((), {'o': o})),
                          ('<dtml-in l>[<dtml-var _secret missing="M">]</dtml-in>', ((), {'l': [o]})),
                          ('<dtml-with o>[<dtml-if _secret>Y<dtml-else>N</dtml-if>]</dtml-with>', ((), {'o': o}))):
            del log[:]
            res.evaluations += 1
            res.nt(('underscore', cls_name, src))
            try:
                out = cls(src)(*args[0], **args[1])
            except Exception as e:  # noqa
                out = 'RAISED %s' % type(e).__name__
            if 'MARKER' in out or out not in ('[M]', '[N]') or any(e[0] == 'read' and e[2] == '_secret' for e in log):
                res.oracle_fail.append({'case': {'class': cls_name, 'source': src},
                                        'what': 'a name starting with an underscore was resolved from a client object: %r' % (out,)})
    # restricted expressions cannot name underscore attributes
    g = guarded_class(log, set(), set())
    for src in ('<dtml-var "o._secret">', '<dtml-if "o._secret">x</dtml-if>', '<dtml-let z="o._secret"><dtml-var z></dtml-let>',
                '<dtml-in "o._items"></dtml-in>', '<dtml-var "o.__dict__">'):
        res.evaluations += 1
        res.nt(('underscore-expr', src))
        try:
            out = g(src)(o=Spy(1, log, _secret=MARK_A, _items=[1]))
            res.oracle_fail.append({'case': {'source': src}, 'what': 'a restricted expression naming an underscore attribute was '
                                                                       'accepted and rendered %r' % (out,)})
        except Exception as e:  # noqa
            if type(e).__name__ not in ('ParseError', 'SyntaxError', 'Unauthorized', 'NameError'):
                res.oracle_fail.append({'case': {'source': src}, 'what': 'unexpected %s: %s' % (type(e).__name__, e)})


def part_c(res, r, n, have_driver):
    cases = []
    for _ in range(n):
        c = proggen.gen_case(r, r.choice([2, 3]), robust=r.random() < 0.5)
        c['guard'] = True
        # refuse some (object, attribute) pairs and some items that actually occur
        pairs, items = [], []

        def walk(v):
            if isinstance(v, dict):
                if 'o' in v and 'a' in v:
                    for k, x in v['a']:
                        pairs.append([v['o'], k])
                        walk(x)
                    items.append(v['o'])
                else:
                    for x in v.values():
                        walk(x)
            elif isinstance(v, list):
                for x in v:
                    walk(x)
        walk([c['kw'], c['mapping'], c['clients'], [t['globals'] for t in c['templates']], [t['vars'] for t in c['templates']]])
        r.shuffle(pairs)
        c['denied'] = pairs[:r.randint(0, 4)]
        c['deniedItems'] = r.sample(items, min(len(items), r.randint(0, 2))) if items else []
        # skip_unauthorized on some loops
        def add_skip(bs):
            for b in bs:
                if b[0] == 'in':
                    if r.random() < 0.4:
                        b[2]['skip'] = True
                    add_skip(b[3])
                    if b[4]:
                        add_skip(b[4])
                elif b[0] == 'cond':
                    for s_, body in b[1]:
                        add_skip(body)
                    if b[2]:
                        add_skip(b[2])
                elif b[0] in ('unless', 'let'):
                    add_skip(b[2])
                elif b[0] == 'with':
                    add_skip(b[4])
                elif b[0] == 'try':
                    add_skip(b[1])
                    for nm, hb in b[2]:
                        add_skip(hb)
                    if b[3]:
                        add_skip(b[3])
                elif b[0] == 'tryfin':
                    add_skip(b[1]); add_skip(b[2])
                elif b[0] == 'raise':
                    add_skip(b[3])
        for t in c['templates']:
            add_skip(t['blocks'])
            t['source'] = proggen.print_blocks(t['blocks'])
        cases.append(c)
    res.have_driver = have_driver
    for (c, plan, impl, m) in interp.run_cases(res, cases):
        res.evaluations += 1
        guards = [e for e in impl['events'] if e[0] in ('guard', 'gitem')]
        res.count('guard_events=%s' % ('0' if not guards else '1-5' if len(guards) <= 5 else '6+'))
        if any(e[0] == 'guard' and [e[1], e[2]] in c['denied'] for e in impl['events']):
            res.nt(('refused', c['templates'][0]['source'][:60]))
        if m is None:
            continue
        d = interp.compare(impl, m)
        if d == 'oom':
            res.count('outside_model')
            continue
        res.corr_checked += 1
        if d:
            res.corr_mismatch.append({'case': dict(interp.brief(c), denied=c['denied'], deniedItems=c['deniedItems']),
                                      'impl': {'result': impl['result'], 'guard_log': guards[:30]},
                                      'model': {'result': m['result'], 'guard_log': [e for e in m['trace'] if e[0] in ('guard', 'gitem')][:30]},
                                      'diff': d})


def run(res, tier, have_driver):
    r = common.rng('C05')
    res.rule = ('A: 37 channels (incl. sorted / reversed / batched loops) x {fresh, after an unguarded rendering of the same compiled template} x 4 marker assignments (incl. empty / order-changing markers) with spied client objects and a '
                'recording guard; B: underscore names through 4 lookup forms x {plain, guarded} class and 5 restricted expressions; '
                'C: random programs (all block tags, nesting <= 3) with the guard installed, random refused (object, attribute) pairs, '
                'refused items and skip_unauthorized: results + call traces + ordered guard log vs the model; non-trivial = '
                'channels / programs in which a refusal actually happened')
    part_a(res)
    part_b(res)
    part_c(res, r, 500 if tier == 'quick' else 8000, have_driver)
    res.partial.append('global non-interference of a whole rendering is decided by the marker oracle; the Lean side proves the guard '
                       'discipline of each read site (instance lookup, expression attribute, dtml-in item) and local '
                       'non-interference; the unguarded channels are known findings')
    res.assumptions += ['AccessControl / RestrictedPython (compilation of restricted expressions, rejection of _names) are external',
                        'the guard is a pure predicate on (object, attribute) / items; guards with side effects are outside the model']


def search_more(res, tier):
    res2 = common.Result('C05')
    part_a(res2)
    part_b(res2)
    return res2.oracle_fail


def replay(path):
    with open(path) as f:
        d = json.load(f)
    print(json.dumps(d.get('first', d), indent=1, ensure_ascii=False)[:3000])
    return 1
