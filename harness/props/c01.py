"""C01 — text outside tags is reproduced verbatim, in order, and rendering composes.

Generator: abstract templates over every block tag (nesting <= 3) whose literals are drawn from an alphabet of near-tag
fragments ('<', '<d', '<!--', '&dt', '%', quotes, newlines, blanks before newlines …) and whose tags have a rendering known
to the generator (sentinel values, fixed truth values, fixed sequence lengths), printed in the three syntaxes.
Oracle (independent printer): the expected output is computed from the abstract structure, applying the documented rule
"one run of blanks ending in a newline is dropped directly after a block's opening, continuation or closing tag" itself;
tag-free sources must render to themselves; render(a + b) == render(a) + render(b) for pairs whose junction creates no tag
(unless b starts with such a line end right after a block tag ending a).
Literal text also holds *tag candidates that are not tags* (kept apart from the generator's tags by private-use marks that
are stripped before the source is used): nameless candidates, malformed entities, %( candidates without a name / format,
and named candidates that are never terminated -- '<dtml-var "' with an unbalanced quote, '<!--#var x' without '-->',
'%(x' without ')'.  Whether such a candidate is text is decided on the final source by the documented terminator rule
(cand_is_text), never by asking the scanner; sources where later text terminates a candidate are left out and counted.
Every candidate is also put, deterministically, in front of every kind of tag in every block context (battery).
Histories: the text rendered is that of the template's CURRENT source.  One object is edited (munge / manage_edit /
cook), a source seen before is compiled again by a new object and by the other class (HTML <-> String: the other
syntax's tags are plain text there); File / HTMLFile templates are created on a file, the file is rewritten (new object
on the same path, re-cook, unpickle), edited through edited_source / manage_edit, reverted (manage_default) and read
through the other file class.  Expected output at every step: the independent printer applied to the abstract template
that is the current source.
Every step of such a history may meet the EMPTY source and other degenerate ones (blank, a lone line end, '0', 'None',
'()', zero-width characters …: text that careless code takes for "nothing given"): as constructor argument, as the text of
an edit, as the content the file is rewritten with.
Edit walks: one object of HTML / String (or an HTMLDefault, which edits itself through a copy) goes through a random
sequence drawn from EVERY way of giving it a source -- munge(src) / munge(source_string=src) / manage_edit(src[, None]) /
raw = src + cook() / munge(src, mapping[, **vars]) / munge(src, **vars) / a new object (positional, keyword, default
argument) / HTMLDefault.manage_edit -- and every operation that must KEEP the source -- munge() / munge(None) /
munge(None, mapping) / munge(mapping=…) / munge(**vars) (also with an empty mapping) / cook() / pickle / deepcopy -- over
five versions of which at least one is the empty source; plus, deterministically, each source-giving operation x (source
with tags | empty | degenerate)^2 for before / after.  After every operation the object is rendered, x / y / z coming
partly from the defaults the edits installed and partly from the call; expected: the independent printer on the abstract
template of the CURRENT version with those values.
Correspondence: the same walks run on the Lean template state machine (DTML.Tmpl, driver op "tmpl"): after every operation
the real object's raw / defaults / presence of compiled data equal the model's, its compiled blocks equal the Lean
builder's tree of the source the state machine holds, and each call's output is the printer's rendering of the program /
defaults / inputs the state machine names.
Correspondence: token streams and compiled trees (with all literal nodes) of the Lean scanner/builder model vs the real
parser on the same sources and on raw fragment soups.
Names outside ASCII: the tag-name alphabets are ASCII, so candidates like '%(größe)s', '<dtml-ü x>', '&dtml-xα;' are
text; generated inside literals, in the battery, and swept (every character / name x every form x both classes x name
undefined / defined in the namespace, alone and in front of a real tag); they also go through the token / tree
correspondence.
Concurrent compilation: templates are independent objects; 2-3 threads compile and render their own, different
templates under harness/sched.py's line scheduler (every way of making an object compile), expected = the printer.
One object shared by threads: 2-3 threads edit / re-cook / render ONE object (every source-giving and source-keeping
operation, object compiled before or not) under the same scheduler; once all have returned the object renders the text of
the source it then has (read()), which is one of those given; versions incl. tag-free texts and the empty source.
"""
import copy
import json
import os
import pickle
import re
import shutil
import tempfile

import common
import parselib
import scanlib
import tmplgen

SENT = {'x': '«X»', 'y': '«Y»', 'z': '«Z»'}


def skip_eol(t):
    i = 0
    while i < len(t) and t[i] in ' \t':
        i += 1
    if i < len(t) and t[i] == '\n':
        return t[i + 1:]
    return t


# --------------------------------------------------------------------------- generator (tags with known rendering)

# text that LOOKS like the start of a tag but has no tag name: never a tag, reproduced verbatim — and a real tag
# behind it (before the next '>' / '-->') is still a tag
NAMELESS = ['<dtml-1', '<dtml- 1', '<dtml-.', '</dtml-1', '</dtml- 2', '<!--#1', '<!--# 1', '<!--#-']

# Tag candidates inside literal text.  In the abstract template a candidate is written  M0 kind fragment M1  (private-use
# characters, stripped before the source is handed to the library) so that its position in the printed source is known.
#   L  text whatever follows: no tag name at the name position (the fragment carries the non-letter), an entity whose body
#      is not a name / has no '-name' part, a %( candidate without a name or without a format character
#   Q  <dtml- / </dtml- candidate, text iff no '>' behind it is preceded by an even number of '"' counted from the candidate
#      (a '>' inside a quoted attribute value does not close a tag) — e.g. a stray '"' behind it and balanced quotes after
#   S  <!--# candidate, text iff no '-->' follows anywhere behind it
#   P  %( candidate, text iff no ')' follows anywhere behind it
M0, M1 = '\ue000', '\ue001'
MARK_RE = re.compile(M0 + '(.)([^' + M1 + ']*)' + M1, re.S)
CANDS = {
    'L': [f + g for f in NAMELESS for g in ('1', '.', '1 ')] +
         ['&dtml-x y;', '&dtml-;', '&dtml.x;', '&dtml-x ', '&dtml-x"y;', '&dtml.html_quote;',
          '%( x)s', '%()s', '%("x")s', '%(x) ', '%(x)#', '%(x)1 ', '%(x)\n', '%(if flag) [', '%(x)1.5 '],
    'Q': ['<dtml-"', '</dtml-"', '<dtml-var "', '<dtml-var expr="a > b', '<dtml-var expr="x', '</dtml-if "', '<dtml-in items"',
          '<dtml-if flag"', '<dtml-else "', '<dtml-var x', '</dtml-if', '<dtml-comment "', '</dtml-comment "', '</dtml-in "',
          '<dtml-var x"\'', '<dtml-call "x', '<dtml-var name="x" "', '<dtml-"""'],
    'S': ['<!--#var x ', '<!--#if flag', '<!--#/if', '<!--#end in ', '<!--#else', '<!--#comment', '<!--#var "x" --'],
    'P': ['%(x', '%(if flag', '%(x fmt="a', '%(/if', '%(x y'],
}

# Tag candidates whose NAME is not a tag name because it holds word characters outside ASCII.  The documented tag-name
# alphabets are ASCII only (EPFS: a-z A-Z 0-9 _ / . -; <dtml-…> / <!--#…: ASCII letters; entities: - a-z A-Z 0-9 _ .), so a
# candidate whose name position holds a letter, digit, connector or mark of any other script is text whatever follows it
# (kind L).  The four characters that Python's case-insensitive matching folds into a-z (U+017F, U+212A, U+0130, U+0131)
# are left out: the documentation of `re` makes them members of [a-z] under re.I.
NONASCII_WORD = ['\xfc', '\xe9', '\xdf', '\xf1', '\xaa', '\xb5', '\xb2', '\xbd', '\u03b1', '\u03a9', '\u0416', '\u044f',
                 '\u05d0', '\u0661', '\u0662', '\u0967', '\u6f22', '\u3042', '\uff58', '\uff11', '\u203f', '\u2167',
                 '\U0001d44e', '\U0001d7d8', '\u0101', '\u0390']
NONASCII_NAMES = NONASCII_WORD + ['\xf6\xdfe', '\xefve', '\u0661\u0662', '\xe9t\xe9', '\xfcfung', '\xfc1', '\xfcx', '\u03b1_1',
                                  '\u6f22\u5b57', '\xfc.x', '\xfc-x', '\xfc/x']
# names that begin with ASCII name characters: text in the %( syntax (there the whole run up to a blank or ')' must be a
# name); in the <dtml-…> syntaxes the ASCII letters in front ARE a tag name, so those forms are not generated for them
NONASCII_MIXED = ['gr\xf6\xdfe', 'na\xefve', 'pr\xfcfung', 'x\xfc', 'a1\u03b1', 'gr\xf6sse.x', 'x_\u0661']
# name %s is substituted; every form is text for BOTH classes when the name starts with such a character
NONASCII_FORMS_STARTING = ['%%(%s)s', '%%(%s)d', '%%(%s)5.2f', '%%(%s fmt=x)s', '%%(%s x)s', '%%(%s)[', '%%(%s)]', '%%(%s)!',
                           '%%(%s null="")s', '<dtml-%s>', '<dtml-%s x>', '</dtml-%s>', '<dtml- %s>', '<!--#%s x-->', '<!--#/%s-->',
                           '<!--# %s-->', '&dtml-%s;', '&dtml.%s-x;', '&dtml.url_quote-%s;']
# … and these are text when such a character stands anywhere in the name (an ASCII name part in front of it must be
# followed by a blank or the terminator to be a name; an entity's body must be a name up to the ';')
NONASCII_FORMS_INSIDE = ['%%(a%s)s', '%%(x.%s)d', '%%(/%s)]', '%%(x_%s y)s', '%%(1%s)[', '&dtml-x%s;', '&dtml-x.%s;',
                         '&dtml.html_quote-x%s;']


def nonascii_fragments():
    for w in NONASCII_NAMES:
        for f in NONASCII_FORMS_STARTING + NONASCII_FORMS_INSIDE:
            yield w, f % w
    for w in NONASCII_MIXED:
        for f in NONASCII_FORMS_STARTING + NONASCII_FORMS_INSIDE:
            if f.startswith('%%('):
                yield w, f % w


def gen_nonascii_cand(r):
    if r.random() < 0.3:
        w = r.choice(NONASCII_MIXED)
        return mark('L', r.choice([f for f in NONASCII_FORMS_STARTING + NONASCII_FORMS_INSIDE if f.startswith('%%(')]) % w)
    w = r.choice(NONASCII_NAMES)
    return mark('L', r.choice(NONASCII_FORMS_STARTING + NONASCII_FORMS_INSIDE) % w)


# a fixed slice of them takes part in the battery (every candidate in front of every kind of tag in every block context)
CANDS['L'] += ['%(gr\xf6\xdfe)s', '%(\u0661\u0662)d', '%(\u03b1 fmt=x)s', '%(pr\xfcfung)[', '%(\xfc)]', '%(a\xe9)s', '%(x.\u0416)d',
               '<dtml-\xfc x>', '</dtml-\u6f22>', '<!--#\xe9 x-->', '&dtml-\xfc;', '&dtml-x\u03b1;']
ALL_CANDS = [(k, f) for k in 'LQSP' for f in CANDS[k]]


def mark(kind, frag):
    return M0 + kind + frag + M1


def unmark(text):
    return MARK_RE.sub(lambda m: m.group(2), text)


def unmark_tree(x):
    if isinstance(x, str):
        return unmark(x)
    if isinstance(x, (list, tuple)):
        return type(x)(unmark_tree(y) for y in x)
    return x


def split_marks(msrc):
    """marked source -> (source, [(position, kind, fragment)])"""
    out, cands, n, i = [], [], 0, 0
    for m in MARK_RE.finditer(msrc):
        piece = msrc[i:m.start()]
        out.append(piece)
        n += len(piece)
        cands.append((n, m.group(1), m.group(2)))
        out.append(m.group(2))
        n += len(m.group(2))
        i = m.end()
    out.append(msrc[i:])
    return ''.join(out), cands


def open_to_end(src, n):
    """the documented terminator of a <dtml-…> tag is the first '>' outside double quotes: none behind n?"""
    quotes = 0
    for ch in src[n:]:
        if ch == '"':
            quotes += 1
        elif ch == '>' and quotes % 2 == 0:
            return False
    return True


def cand_is_text(kind, src, cand):
    """is the candidate (position, kind, fragment) plain text of `src` for class `kind` ('html' | 'epfs')?  Decided from
    the syntax rules alone."""
    p, k, frag = cand
    if k == 'L':
        return True
    if k == 'Q':
        return kind != 'html' or open_to_end(src, p + (7 if frag.startswith('</') else 6))
    if k == 'S':
        return kind != 'html' or src.find('-->', p + 5) < 0
    if k == 'P':
        return kind != 'epfs' or src.find(')', p + 2) < 0
    raise ValueError(k)


def cands_are_text(kind, src, cands):
    return all(cand_is_text(kind, src, c) for c in cands)


def lit_ok(t):
    """outside the marked candidates the text holds no tag opener (candidates begin with a complete opener and end in a
    character that begins none, so no opener straddles a mark)"""
    return all(tmplgen.inert(p) for p in MARK_RE.sub('\0', t).split('\0'))


def gen_cand(r):
    if r.random() < 0.2:
        return gen_nonascii_cand(r)
    k = r.choice('LLLLQQQQSP')
    return mark(k, r.choice(CANDS[k]))


def gen_lit(r):
    if r.random() < 0.14:
        return gen_cand(r)
    if r.random() < 0.35:
        # a line end (possibly after blanks) — what the skipping rule is about
        return r.choice(['\n', ' \n', '\t\n', '  \n', '\n\n', ' \n x', '\r\n', ' \r\n', '\n ', ' x\n', '\r', '\x0b\n', '\xa0\n'])
    return tmplgen.gen_lit(r)


def merge_lits(nodes):
    merged = []
    for n in nodes:
        if n[0] == 'lit' and merged and merged[-1][0] == 'lit':
            merged[-1] = ('lit', merged[-1][1] + n[1])
        else:
            merged.append(n)
    return merged


def gen_body(r, depth, width=3):
    out = []
    for _ in range(r.randint(0, width)):
        t = gen_lit(r)
        if t and lit_ok(t):
            out.append(('lit', t))
        out.append(gen_node(r, depth))
    t = gen_lit(r)
    if t and lit_ok(t):
        out.append(('lit', t))
    # merge adjacent literals (the generator's notion of "one literal" must match the source)
    return [n for n in merge_lits(out) if n[0] != 'lit' or lit_ok(n[1])]


def gen_node(r, depth):
    kinds = ['var', 'var', 'call', 'comment']
    if depth > 0:
        kinds += ['if', 'if', 'unless', 'in', 'in', 'with', 'let', 'try', 'tryfin']
    k = r.choice(kinds)
    if k == 'var':
        return ('var', ('name', r.choice(['x', 'y', 'z'])), [])
    if k == 'call':
        return ('call', ('name', 'x'))
    if k == 'comment':
        t = gen_lit(r)
        return ('comment', [('lit', t if t and lit_ok(t) else 'c')])
    if k == 'if':
        conds = [(('name', r.choice(['flag', 'n1'])), gen_body(r, depth - 1, 2)) for _ in range(r.randint(1, 3))]
        els = gen_body(r, depth - 1, 2) if r.random() < 0.5 else None
        return ('if', conds, els)
    if k == 'unless':
        return ('unless', ('name', r.choice(['flag', 'n1'])), gen_body(r, depth - 1, 2))
    if k == 'in':
        els = gen_body(r, depth - 1, 1) if r.random() < 0.4 else None
        seq = r.choice(['items', 'items', 'none'])
        opts = []
        if seq == 'items' and r.random() < 0.45:
            opts = r.choice([[('size', '2'), ('start', '1')], [('size', '1'), ('start', '1'), ('next', None)],
                             [('size', '3'), ('start', '1'), ('previous', None)], [('size', '1'), ('start', '2'), ('previous', None)],
                             [('size', '1'), ('start', '2'), ('next', None)], [('size', '1'), ('start', '2')], [('reverse', None)]])
        return ('in', ('name', seq), opts, gen_body(r, depth - 1, 2), els)
    if k == 'with':
        return ('with', ('name', 'obj'), [], gen_body(r, depth - 1, 2))
    if k == 'let':
        return ('let', [('v0', 'x', False)], gen_body(r, depth - 1, 2))
    if k == 'try':
        els = gen_body(r, depth - 1, 1) if r.random() < 0.4 else None
        return ('try', gen_body(r, depth - 1, 2), [(r.choice(['KeyError', '']), gen_body(r, depth - 1, 1))], els, None)
    return ('try', gen_body(r, depth - 1, 2), [], None, gen_body(r, depth - 1, 1))


TRUTH = {'flag': True, 'n1': False}
SEQLEN = {'items': 2, 'none': 0}


def adjust(nodes, st):
    """static pass in source order: the literal directly after a block open / continuation / close tag loses one line end"""
    out = []
    for n in nodes:
        k = n[0]
        if k == 'lit':
            out.append(('lit', skip_eol(n[1]) if st['ab'] else n[1]))
            st['ab'] = False
        elif k in ('var', 'call', 'return'):
            out.append(n)
            st['ab'] = False
        elif k == 'comment':
            st['ab'] = True
            adjust(n[1], st)
            st['ab'] = True
            out.append(('comment', []))
        elif k == 'if':
            conds = []
            for t, body in n[1]:
                st['ab'] = True
                conds.append((t, adjust(body, st)))
            els = None
            if n[2] is not None:
                st['ab'] = True
                els = adjust(n[2], st)
            st['ab'] = True
            out.append(('if', conds, els))
        elif k in ('unless', 'with', 'let'):
            st['ab'] = True
            body = adjust(n[-1], st)
            st['ab'] = True
            out.append(n[:-1] + (body,))
        elif k == 'in':
            st['ab'] = True
            body = adjust(n[3], st)
            els = None
            if n[4] is not None:
                st['ab'] = True
                els = adjust(n[4], st)
            st['ab'] = True
            out.append(('in', n[1], n[2], body, els))
        elif k == 'try':
            st['ab'] = True
            body = adjust(n[1], st)
            hs = []
            for names, hb in n[2]:
                st['ab'] = True
                hs.append((names, adjust(hb, st)))
            els = fin = None
            if n[3] is not None:
                st['ab'] = True
                els = adjust(n[3], st)
            if n[4] is not None:
                st['ab'] = True
                fin = adjust(n[4], st)
            st['ab'] = True
            out.append(('try', body, hs, els, fin))
        else:
            raise ValueError(k)
    return out


def evaluate(nodes, sent=None):
    sent = SENT if sent is None else sent
    out = []
    for n in nodes:
        k = n[0]
        if k == 'lit':
            out.append(n[1])
        elif k == 'var':
            out.append(sent[n[1][1]])
        elif k in ('call', 'comment'):
            pass
        elif k == 'if':
            for t, body in n[1]:
                if TRUTH[t[1]]:
                    out.append(evaluate(body, sent))
                    break
            else:
                if n[2] is not None:
                    out.append(evaluate(n[2], sent))
        elif k == 'unless':
            if not TRUTH[n[1][1]]:
                out.append(evaluate(n[2], sent))
        elif k == 'in':
            cnt = SEQLEN[n[1][1]]
            o = dict(n[2])
            if cnt and ('previous' in o or 'next' in o):
                # the body is rendered once if there is a previous / next batch, otherwise the else body
                start, size = int(o['start']), int(o['size'])
                exists = (start > 1) if 'previous' in o else (start + size - 1 < cnt)
                if exists:
                    out.append(evaluate(n[3], sent))
                elif n[4] is not None:
                    out.append(evaluate(n[4], sent))
            elif cnt:
                if 'size' in o:
                    cnt = max(0, min(cnt, int(o['start']) - 1 + int(o['size'])) - (int(o['start']) - 1))
                out.append(evaluate(n[3], sent) * cnt)
            elif n[4] is not None:
                out.append(evaluate(n[4], sent))
        elif k in ('with', 'let'):
            out.append(evaluate(n[-1], sent))
        elif k == 'try':
            out.append(evaluate(n[1], sent))
            if n[3] is not None:
                out.append(evaluate(n[3], sent))
            if n[4] is not None:
                out.append(evaluate(n[4], sent))
        else:
            raise ValueError(k)
    return ''.join(out)


def expected(tmpl, sent=None):
    return evaluate(adjust(unmark_tree(tmpl), {'ab': False}), sent)


class O:
    def __init__(self, i):
        self.i = i


def namespace():
    ns = dict(SENT)
    ns.update(flag=1, n1=0, items=[O(1), O(2)], none=[], obj=O(3))
    return ns


def outcome(fn):
    try:
        return {'ok': fn()}
    except Exception as e:  # noqa
        return {'raise': '%s: %s' % (type(e).__name__, str(e)[:200])}


def render(kind, src):
    from DocumentTemplate import HTML, String
    cls = HTML if kind == 'html' else String
    ns = namespace()
    return outcome(lambda: cls(src)(**ns))


def last_is_block(tmpl):
    return bool(tmpl) and tmpl[-1][0] not in ('lit', 'var', 'call', 'return')


def junction_inert(sa, sb):
    j = sa[-8:] + sb[:8]
    # no tag opener may start in a and end in b
    for o in tmplgen.OPENERS:
        p = j.find(o)
        while p >= 0:
            if p < len(sa[-8:]) < p + len(o):
                return False
            p = j.find(o, p + 1)
    return True


def printed(tmpl, syn, r):
    """(class kind, source, candidates) of the marked abstract template"""
    kind, msrc = tmplgen.render_source(tmpl, syn, r)
    src, cands = split_marks(msrc)
    return kind, src, cands


# --------------------------------------------------------------------------- tag-free sources

PLAIN = ['<', '<d', '<dtml', '<!--', '<!-', '&dt', '&dtml', '&', '%', '% (', ';', '>', '-->', '--', '"', "'", '\n', ' \n',
         '  ', '\t\n', ' ', 'ſ', 'K', 'text', 'Hello', 'a=b', '/', ']', ')', '(', '[', '!', '1', 'é', '\U0001F600', '<b>',
         '</b>', '&amp;', 'end', '\r\n', '<dtml', '</dtml', '&dtml', '<!-', 'dtml-var x>', '%%', '%s', '% (x)s', '(x)s']


def gen_plain(r):
    """tag-free text (marked: it may hold candidates that are not tags)"""
    for _ in range(20):
        parts = [r.choice(PLAIN) for _ in range(r.randint(0, 12))]
        if r.random() < 0.3:
            for _ in range(r.randint(1, 2)):
                parts.insert(r.randint(0, len(parts)), gen_cand(r))
        t = ''.join(parts)
        if lit_ok(t):
            return t
    return 'plain'


def text_only_for(kind, msrc):
    """the (marked) source holds no tag of class `kind`: only marked candidates that are text there and text without
    an opener of that class"""
    src, cands = split_marks(msrc)
    rest = MARK_RE.sub('\0', msrc)
    openers = ['%('] if kind == 'epfs' else [o for o in tmplgen.OPENERS if o != '%(']
    return not any(o in rest for o in openers) and cands_are_text(kind, src, cands)


# --------------------------------------------------------------------------- the check

def compile_corr(res, cases, have_driver):
    """token streams and compiled trees of the model vs the real parser"""
    if not have_driver:
        return
    resp = common.run_driver([{'op': 'compile', 'syntax': k, 'src': s} for k, s in cases])
    toks = common.run_driver([{'op': 'tokens', 'syntax': k, 'src': s} for k, s in cases])
    for (kind, src), rp, tp in zip(cases, resp, toks):
        rr = parselib.compile_real(kind, src)
        if rr['status'] in ('timeout', 'recursion', 'other'):
            continue
        res.corr_checked += 1
        m = rp.get('ok')
        if m is None:
            res.harness_errors.append('driver: %r' % (rp,))
            return
        impl_ok = rr['status'] == 'ok'
        model_ok = m['status'] == 'ok' and all(parselib.expr_ok(s) for s, _ in m['exprs'])
        if impl_ok != model_ok:
            res.corr_mismatch.append({'case': {'syntax': kind, 'src': src}, 'impl': rr['status'], 'model': m['status'],
                                      'diff': 'acceptance'})
        elif impl_ok:
            a = parselib.norm(rr['blocks'])
            b = parselib.norm_model(m['tree'])
            if a != b:
                res.corr_mismatch.append({'case': {'syntax': kind, 'src': src}, 'impl': a, 'model': b,
                                          'diff': 'compiled tree (literal nodes included)'})
        try:
            real = scanlib.real_tokens(kind, src)
        except Exception as e:  # noqa
            res.oracle_fail.append({'case': {'syntax': kind, 'src': src}, 'what': 'scanner raised %r' % (e,)})
            continue
        if tp.get('ok') != real:
            res.corr_mismatch.append({'case': {'syntax': kind, 'src': src}, 'impl': real, 'model': tp.get('ok'),
                                      'diff': 'tokens'})


def check_template(res, r, t, corr_cases, label='tmpl'):
    """the marked abstract template in the three syntaxes against the independent printer"""
    exp = expected(t)
    for syn in ('dtml', 'ssi', 'epfs'):
        kind, src, cands = printed(t, syn, r)
        if not cands_are_text(kind, src, cands):
            # later text terminates a named candidate: by the syntax rules it IS a tag (spanning the text in between)
            res.count(label + '_excluded_candidate_terminated')
            continue
        got = render(kind, src)
        res.evaluations += 1
        res.count('syntax=' + syn)
        if cands:
            res.count(label + '_with_candidates')
            for c in cands:
                if c[1] != 'L' and (kind == 'html') == (c[1] in 'QS'):
                    res.count('open_candidate_%s_%s' % (c[1], 'before_a_tag' if has_opener_behind(kind, src, c) else 'in_tail'))
        if '\n' in src or cands:
            res.nt((syn, src))
        if got != {'ok': exp}:
            res.oracle_fail.append({'case': {'syntax': syn, 'src': src},
                                    'what': 'expected %r (literals verbatim incl. tag candidates that are no tags, one line end '
                                            'dropped after block tags); got %r' % (exp, got)})
        corr_cases.append((kind, src))


def has_opener_behind(kind, src, cand):
    rest = src[cand[0] + len(cand[2]):]
    return any(o in rest for o in (['%('] if kind == 'epfs' else [o for o in tmplgen.OPENERS if o != '%(']))


# small templates of every tag kind put behind each candidate
BATTERY_TAGS = [
    [('var', ('name', 'x'), [])],
    [('var', ('name', 'y'), [('html_quote', None)])],           # printed as &dtml-y; now and then
    [('if', [(('name', 'flag'), [('lit', '\n  yes <b>\n')])], [('lit', '\n  no\n')]), ('lit', '\nend\n')],
    [('if', [(('name', 'n1'), [('lit', 'no')]), (('name', 'flag'), [('lit', 'elif')])], [('lit', 'else')])],
    [('in', ('name', 'items'), [], [('lit', '['), ('var', ('name', 'z'), []), ('lit', ']')], None), ('lit', '.\n')],
    [('comment', [('lit', 'hidden')]), ('lit', 'shown\n')],
    [('unless', ('name', 'n1'), [('lit', 'u')])],
    [('with', ('name', 'obj'), [], [('var', ('name', 'x'), [])])],
    [('let', [('v0', 'x', False)], [('lit', 'l')])],
    [('try', [('lit', 't')], [('', [('lit', 'h')])], [('lit', 'e')], None)],
    [('call', ('name', 'x')), ('lit', 'called')],
]


def battery(res, r, corr_cases, stride=1):
    """every candidate in front of every kind of tag, at top level and inside block bodies"""
    i = 0
    for k, frag in ALL_CANDS:
        for tags in BATTERY_TAGS:
            i += 1
            if i % stride:
                continue
            for ctx in ('top', 'in', 'if', 'else', 'two'):
                lit = ('lit', r.choice(['', 'A ', '"a" ', '\n']) + mark(k, frag) + r.choice(['', ' B\n', ' ', ';', '\n']))
                body = [lit] + tags + [('lit', ' tail')]
                if ctx == 'two':
                    k2, f2 = r.choice(ALL_CANDS)
                    body = [('lit', mark(k2, f2) + ' ')] + body
                if not all(n[0] != 'lit' or lit_ok(n[1]) for n in merge_lits(body)):
                    continue
                body = merge_lits(body)
                if ctx == 'in':
                    t = [('in', ('name', 'items'), [], body, None)]
                elif ctx == 'if':
                    t = [('lit', 'p'), ('if', [(('name', 'flag'), body)], [('lit', 'not this')])]
                elif ctx == 'else':
                    t = [('if', [(('name', 'n1'), [('lit', 'not this')])], body), ('lit', 'q')]
                else:
                    t = body
                check_template(res, r, t, corr_cases, 'battery')


# --------------------------------------------------------------------------- histories: the CURRENT source is rendered

def nl_tree(x):
    """what reading a text file does to the source (universal newlines): CR LF and CR become LF"""
    if isinstance(x, str):
        return x.replace('\r\n', '\n').replace('\r', '\n')
    if isinstance(x, (list, tuple)):
        return type(x)(nl_tree(y) for y in x)
    return x


class Version:
    """one source text with its independently computed rendering"""

    def __init__(self, kind, msrc, exp, tmpl=None):
        self.kind = kind
        self.msrc = msrc
        self.src, self.cands = split_marks(msrc)
        self.exp = exp
        self.tmpl = tmpl        # the abstract template (to print it again with other inserted values)


# Degenerate sources: the empty source and sources that are "nothing" or look false to careless code (tests on the
# truth value of the text, on its stripped form, on its value read as a number / a Python constant).  All are sources
# without tags: the top-level text is emitted verbatim, so each renders to itself -- the empty one to ''.
DEGENERATE = [' ', '\n', ' \n', '\t', '  ', '\n\n', '0', '00', '0.0', 'None', 'False', '()', '[]', '{}', '""', "''", '-', '\xa0',
              '\u200b', '\ufeff', 'null', '\r\n', '\r', '\x0c']


def degenerate_version(r, syn, filemode, p_empty=0.6):
    """the empty source (abstract template: no nodes) or another degenerate one (abstract template: one literal)"""
    t = [] if r.random() < p_empty else [('lit', r.choice(DEGENERATE))]
    if filemode:
        t = nl_tree(t)
    kind, msrc = tmplgen.render_source(t, syn, r)
    return Version(kind, msrc, expected(t), t)


def draw_version(r, pool, syn, filemode, degenerate=0.0):
    """a source for one step of a history; with probability `degenerate` the empty / a degenerate source"""
    if r.random() < degenerate:
        return degenerate_version(r, syn, filemode)
    for _ in range(12):
        c = r.random()
        if c < 0.2:
            t = [('lit', gen_plain(r))]
            if not t[0][1]:
                continue
        elif c < 0.45:
            # the concatenation of two templates, as one abstract template (the printer applies the line-end rule at the joint)
            t = merge_lits(list(r.choice(pool)) + list(r.choice(pool)))
            if not all(n[0] != 'lit' or lit_ok(n[1]) for n in t):
                continue
        else:
            t = r.choice(pool)
        if filemode:
            t = nl_tree(t)
        kind, msrc = tmplgen.render_source(t, syn, r)
        v = Version(kind, msrc, expected(t), t)
        if v.src and cands_are_text(kind, v.src, v.cands):
            return v
    return None


def write_file(path, text):
    with open(path, 'w', newline='') as f:     # no newline translation: the file holds exactly `text`
        f.write(text)


def run_histories(res, r, n, pool):
    from DocumentTemplate import HTML, String, File, HTMLFile
    tmp = tempfile.mkdtemp(prefix='c01hist')
    try:
        for h in range(n):
            syn = r.choice(['dtml', 'ssi', 'epfs'])
            filemode = r.random() < 0.6
            # every step of a history may meet the empty / a degenerate source -- as the text given to the constructor, to an
            # edit, written to the file -- except where the class itself gives '' another meaning: FileMixin.edited_source == ''
            # is "not edited" (v3, v4 of a file history)
            vs = [draw_version(r, pool, syn, filemode, 0.0 if filemode and i >= 3 else 0.22) for i in range(5)]
            if any(v is None for v in vs):
                res.count('history_skipped')
                continue
            log = []
            ns = namespace()
            state = {'bad': False}

            def step(what, obj, v, exp=None):
                exp = v.exp if exp is None else exp
                log.append(what)
                got = outcome(lambda: obj(**ns))
                res.evaluations += 1
                res.count('history_step')
                res.count('history: ' + what.split(' [')[0])
                if got != {'ok': exp} and not state['bad']:
                    state['bad'] = True
                    res.oracle_fail.append({
                        'case': {'syntax': syn, 'class': type(obj).__name__, 'history': list(log),
                                 'sources': [x.src for x in vs], 'current_source': v.src},
                        'what': 'after %r the template rendered %r; its current source renders to %r (independent printer)'
                                % (what, got, exp)})

            html = syn != 'epfs'
            res.nt(('history', syn, filemode, vs[0].src[:30], vs[1].src[:30]))
            try:
                if not filemode:
                    cls, other, okind = (HTML, String, 'epfs') if html else (String, HTML, 'html')
                    res.count('history_string_class')
                    o = cls(vs[0].src)
                    step('new %s(v0)' % cls.__name__, o, vs[0])
                    step('render again', o, vs[0])
                    o.munge(vs[1].src)
                    step('munge(v1)', o, vs[1])
                    o.manage_edit(vs[2].src)
                    step('manage_edit(v2)', o, vs[2])
                    o.cook()
                    step('cook() again', o, vs[2])
                    step('another new object on v0, compiled before', cls(vs[0].src), vs[0])
                    step('another new object on v1, compiled before', cls(vs[1].src), vs[1])
                    o.munge(vs[0].src)
                    step('munge(v0): back to the first source', o, vs[0])
                    for i in (0, 3):
                        if text_only_for(okind, vs[i].msrc):
                            step('the other class on v%d: its tags are plain text there' % i, other(vs[i].src), vs[i], vs[i].src)
                    o.raw = vs[4].src      # the documented way before munge existed: assign, then cook
                    o.cook()
                    step('raw = v4; cook()', o, vs[4])
                else:
                    cls, other, okind = (HTMLFile, File, 'epfs') if html else (File, HTMLFile, 'html')
                    res.count('history_file_class')
                    path = os.path.join(tmp, 'h%d.dtml' % h)
                    write_file(path, vs[0].src)
                    f = cls(path)
                    step('new %s(path), file holds v0' % cls.__name__, f, vs[0])
                    step('render again', f, vs[0])
                    write_file(path, vs[1].src)
                    step('file rewritten with v1; new object on the same path', cls(path), vs[1])
                    f.cook()
                    step('first object, cook() after the rewrite', f, vs[1])
                    write_file(path, vs[2].src)
                    g = pickle.loads(pickle.dumps(f))
                    step('file rewritten with v2; first object pickled and loaded (re-reads the file)', g, vs[2])
                    if text_only_for(okind, vs[2].msrc):
                        step('the other file class on the same path: v2 holds no tag of its syntax', other(path), vs[2], vs[2].src)
                    f.edited_source = vs[3].src
                    f.cook()
                    step('edited_source = v3; cook()', f, vs[3])
                    if html:
                        f.manage_edit(vs[4].src)          # edited already: edits in place
                        step('manage_edit(v4) of the edited template', f, vs[4])
                        f.manage_default()
                    else:
                        f.edited_source = ''
                        f.cook()
                    step('reverted to the file (v2)', f, vs[2])
                    path2 = os.path.join(tmp, 'h%d-copy.dtml' % h)
                    write_file(path2, vs[0].src)
                    step('another file holding v0 again', cls(path2), vs[0])
            except UnicodeEncodeError:
                res.count('history_skipped_unencodable')
            except Exception as e:  # noqa
                if not state['bad']:
                    res.oracle_fail.append({'case': {'syntax': syn, 'history': list(log), 'sources': [x.src for x in vs]},
                                            'what': 'operation after %r raised %s: %s' % (log[-1:] or ['start'], type(e).__name__, e)})
    finally:
        shutil.rmtree(tmp, ignore_errors=True)


# --------------------------------------------------------------------------- edit walks: every way of giving an object a source

def sentv(name, code):
    """inserted value number `code` of variable `name` (0: the one the calls pass)"""
    return SENT[name] if code == 0 else '«%s%d»' % (name.upper(), code)


def edit_by_copy_class():
    """HTMLDefault ("HTML document templates that edit themselves through copy") with the confirmation page its
    manage_edit answers with (DT_UI, which normally supplies one, is not loaded)"""
    cls = globals().get('EditByCopy')
    if cls is None:
        from DocumentTemplate import HTMLDefault

        class EditByCopy(HTMLDefault):
            def editConfirmation(self, doc, REQUEST=None):
                return 'changed'
        EditByCopy.__module__ = __name__
        EditByCopy.__qualname__ = 'EditByCopy'
        globals()['EditByCopy'] = cls = EditByCopy
    return cls


class Holder:
    """the folder an edit-through-copy puts the new object into"""


# operations that give the object a (new) source ...
EDITS = ['munge(src)', 'munge(source_string=src)', 'manage_edit(src)', 'manage_edit(src, None)', 'raw = src; cook()',
         'munge(src, mapping)', 'munge(src, mapping, **vars)', 'munge(src, **vars)', 'new object: cls(src)',
         'new object: cls(source_string=src)', 'new object: cls(src, mapping, **vars)', 'edit through copy']
# ... and operations that must keep the one it has
KEEPS = ['munge()', 'munge(None)', 'munge(None, mapping)', 'munge(mapping=mapping)', 'munge(**vars)', 'cook()', 'pickle', 'deepcopy',
         'render again']


def gen_codes(r, p_empty=0.25, nonempty=False):
    """default values by name: {variable: value number}; an EMPTY mapping is a mapping that was given"""
    if not nonempty and r.random() < p_empty:
        return {}
    d = {n: r.randint(1, 3) for n in 'xyz' if r.random() < 0.6}
    return d or {r.choice('xyz'): r.randint(1, 3)}


def gen_script(r, nvers, html, length):
    script = []
    for _ in range(length):
        if r.random() < 0.62:
            op = r.choice(EDITS)
            if op == 'edit through copy' and not html:
                op = 'munge(src)'
            script.append((op, r.randrange(nvers)))
        else:
            script.append((r.choice(KEEPS), None))
    return script


def norm_blocks(obj):
    try:
        return parselib.norm(obj._v_blocks)
    except Exception as e:  # noqa
        return 'not normalisable: %r' % (e,)


def run_walk(res, r, syn, vs, script, segments, label):
    """One object history.  vs: the versions (sources with their abstract templates); script: [(operation, version index |
    None)].  The reference state is (index of the current version, defaults by name) updated by the documented meaning of
    each operation; after every operation the object is rendered with some of x / y / z left to the defaults, and the
    output must be the independent printer's for the CURRENT version.  `segments` collects what the Lean template state
    machine is asked about: [init, ops, observations of the real object after each op]."""
    from DocumentTemplate import HTML, String
    html = syn != 'epfs'
    base = HTML if html else String
    log = []
    state = {'bad': False}

    def mapping_of(codes):
        return {n: sentv(n, c) for n, c in codes.items()}

    def pairs(codes):
        return sorted([n, c] for n, c in codes.items())

    def fail(case_extra, what):
        if not state['bad']:
            state['bad'] = True
            case = {'syntax': syn, 'class': base.__name__, 'history': list(log), 'sources': [x.src for x in vs]}
            case.update(case_extra)
            res.oracle_fail.append({'case': case, 'what': what})

    cur = {'v': script[0][1], 'defaults': {}}
    seg = None

    def new_segment(init):
        nonlocal seg
        seg = {'init': init, 'ops': [], 'obs': [], 'syntax': syn, 'vs': vs, 'log': log}
        segments.append(seg)

    def observe(obj, mop, out=None):
        seg['ops'].append(mop)
        seg['obs'].append({'raw': obj.raw, 'globals': dict(obj.globals), 'vars': dict(obj._vars), 'cooked': hasattr(obj, '_v_cooked'),
                           'blocks': norm_blocks(obj) if hasattr(obj, '_v_blocks') else None, 'out': out, 'at': len(log)})

    def show(obj, what, v=None, defaults=None):
        """render; x / y / z come from the call or, when left out of it, from the defaults"""
        v = cur['v'] if v is None else v
        defaults = cur['defaults'] if defaults is None else defaults
        ns = namespace()
        codes = {}
        for n in 'xyz':
            if n in defaults and r.random() < 0.7:
                del ns[n]
                codes[n] = defaults[n]
            else:
                codes[n] = r.choice([0, 0, 4])
                ns[n] = sentv(n, codes[n])
        exp = expected(vs[v].tmpl, {n: sentv(n, c) for n, c in codes.items()})
        got = outcome(lambda: obj(**ns))
        res.evaluations += 1
        res.count(label + '_step')
        if got != {'ok': exp}:
            fail({'current_source': vs[v].src, 'defaults': mapping_of(defaults), 'keyword arguments x y z': {n: ns[n] for n in 'xyz' if n in ns}},
                 'after %r the template rendered %r; its current source renders to %r (independent printer)' % (what, got, exp))
        return got, [[n, c] for n, c in sorted(codes.items()) if n in ns]

    try:
        op0, j = script[0]
        log.append(op0 + ' [v%d]' % j)
        cls = edit_by_copy_class() if html and r.random() < 0.3 else base
        if op0 == 'new object: cls(src, mapping, **vars)':
            m, kw = gen_codes(r), gen_codes(r)
            o = cls(vs[j].src, mapping_of(m), **mapping_of(kw))
            cur['defaults'] = dict(m, **kw)
            new_segment([j, pairs(m), pairs(kw)])
        elif op0 == 'new object: cls(source_string=src)':
            o = cls(source_string=vs[j].src)
            new_segment([j, [], []])
        elif vs[j].src == '' and r.random() < 0.5:
            o = cls()                       # the default source is the empty one
            log[-1] = 'new object: cls()'
            new_segment([j, [], []])
        else:
            o = cls(vs[j].src)
            new_segment([j, [], []])
        for op, j in [('render', None)] + list(script[1:]):
            what = op + (' [v%d%s]' % (j, ': the empty source' if vs[j].src == '' else '') if j is not None else '')
            if op != 'render':
                log.append(what)
            res.count(label + ': ' + op)
            if j is not None:
                res.count(label + '_edit_%s_to_%s' % ('empty' if vs[cur['v']].src == '' else 'nonempty',
                                                      'empty' if vs[j].src == '' else 'nonempty'))
            src = vs[j].src if j is not None else None
            mop = None
            if op in ('render', 'render again'):
                pass
            elif op in ('munge(src)', 'munge(source_string=src)', 'manage_edit(src)', 'manage_edit(src, None)'):
                if op == 'munge(src)':
                    o.munge(src)
                elif op == 'munge(source_string=src)':
                    o.munge(source_string=src)
                elif op == 'manage_edit(src)':
                    o.manage_edit(src) if not isinstance(o, edit_by_copy_class()) else HTML.manage_edit(o, src)
                else:
                    o.manage_edit(src, None) if not isinstance(o, edit_by_copy_class()) else HTML.manage_edit(o, src, None)
                cur['v'] = j
                mop = ['mungeSrc', j]
            elif op == 'raw = src; cook()':
                o.raw = src
                o.cook()
                cur['v'] = j
                # for the state machine: an object with this source and these defaults, compiled
                new_segment([j, pairs(cur['defaults']), []])
                mop = ['cook']
            elif op in ('munge(src, mapping)', 'munge(src, mapping, **vars)', 'munge(src, **vars)'):
                m = gen_codes(r) if 'mapping' in op else None
                kw = gen_codes(r, nonempty=True) if 'vars' in op else {}
                if m is None:
                    o.munge(src, **mapping_of(kw))
                else:
                    o.munge(src, mapping_of(m), **mapping_of(kw))
                cur['v'] = j
                cur['defaults'] = dict(m or {}, **kw)      # keyword defaults win over the mapping's
                mop = ['mungeBoth', j, pairs(m or {}), pairs(kw)]
            elif op in ('munge(None, mapping)', 'munge(mapping=mapping)', 'munge(**vars)'):
                if op == 'munge(**vars)':
                    m, kw = {}, gen_codes(r, nonempty=True)
                    o.munge(**mapping_of(kw))
                else:
                    m, kw = gen_codes(r), {}
                    o.munge(None, mapping_of(m)) if op == 'munge(None, mapping)' else o.munge(mapping=mapping_of(m))
                cur['defaults'] = dict(m, **kw)             # the text is kept, the defaults are the ones given (also if empty)
                mop = ['mungeVars', pairs(m), pairs(kw)]
            elif op in ('munge()', 'munge(None)', 'cook()'):
                o.munge() if op == 'munge()' else o.munge(None) if op == 'munge(None)' else o.cook()
                mop = ['cook']                              # nothing given: the same text is compiled again
            elif op == 'pickle':
                o = pickle.loads(pickle.dumps(o))
                mop = ['pickle']
            elif op == 'deepcopy':
                o = copy.deepcopy(o)
                mop = ['deepcopy']
            elif op.startswith('new object'):
                if op == 'new object: cls(src, mapping, **vars)':
                    m, kw = gen_codes(r), gen_codes(r)
                    o = base(src, mapping_of(m), **mapping_of(kw))
                elif op == 'new object: cls(source_string=src)':
                    m, kw = {}, {}
                    o = base(source_string=src)
                else:
                    m, kw = {}, {}
                    o = base(src)
                cur['v'] = j
                cur['defaults'] = dict(m, **kw)
                new_segment([j, pairs(m), pairs(kw)])
            elif op == 'edit through copy':
                if not isinstance(o, edit_by_copy_class()):
                    # only such objects edit themselves through a copy; make this one a copy-editing one first
                    o = edit_by_copy_class()(vs[cur['v']].src, mapping_of(cur['defaults']))
                    new_segment([cur['v'], pairs(cur['defaults']), []])
                holder = Holder()
                o.manage_edit(src, [None, holder], 'http://host/folder/doc', None)
                old, oldv = o, cur['v']
                o = holder.doc
                show(old, what + ': the object that was copied keeps its source', oldv)
                cur['v'] = j
                new_segment([j, pairs(cur['defaults']), []])       # copy_class(data, self.globals, name)
            else:
                raise ValueError(op)
            if mop is not None:
                observe(o, mop)
            got, inputs = show(o, what)
            observe(o, ['render', inputs], got)
    except Exception as e:  # noqa
        fail({}, 'operation after %r raised %s: %s' % (log[-1:] or ['start'], type(e).__name__, e))


def degenerate_kinds(r, pool, syn):
    """one version of each kind of source an edit can go from / to"""
    out = {}
    for _ in range(40):
        v = draw_version(r, pool, syn, False)
        if v is not None:
            out['a source with tags / text'] = v
            break
    out['the empty source'] = degenerate_version(r, syn, False, 1.0)
    out['a degenerate source'] = degenerate_version(r, syn, False, 0.0)
    return out


def run_edit_walks(res, r, n, pool, have_driver, corr_cases):
    segments = []
    # (1) deterministic: every operation that gives a source x every pair (kind of source before, kind of source after) x
    #     both classes; behind the edit the ways of compiling the same text again, and the edit back
    for syn in ('dtml', 'epfs'):
        for op in EDITS:
            if op == 'edit through copy' and syn == 'epfs':
                continue
            kinds = degenerate_kinds(r, pool, syn)
            if len(kinds) < 3:
                res.count('edit_transition_skipped')
                continue
            names = sorted(kinds)
            vs = [kinds[k] for k in names]
            for a in range(3):
                for b in range(3):
                    first = r.choice(['new object: cls(src)', 'new object: cls(src, mapping, **vars)'])
                    script = [(first, a), (op, b), ('cook()', None), ('pickle', None), ('munge()', None), (op, a), (r.choice(KEEPS), None),
                              (op, b), ('munge(None, mapping)', None)]
                    res.nt(('edit transition', syn, op, names[a], names[b]))
                    res.count('edit_transition')
                    run_walk(res, r, syn, vs, script, segments, 'transition')
    # (2) random walks over all operations; every walk has the empty source among its versions
    for h in range(n):
        syn = r.choice(['dtml', 'ssi', 'epfs'])
        vs = [draw_version(r, pool, syn, False, 0.3) for _ in range(5)]
        if any(v is None for v in vs):
            res.count('walk_skipped')
            continue
        vs[r.randrange(5)] = degenerate_version(r, syn, False, 1.0)
        script = gen_script(r, 5, syn != 'epfs', r.randint(4, 10))
        script[0] = (r.choice(['new object: cls(src)', 'new object: cls(src)', 'new object: cls(source_string=src)',
                               'new object: cls(src, mapping, **vars)']), r.randrange(5))
        res.nt(('walk', syn) + tuple(op for op, _ in script) + tuple(v.src[:12] for v in vs))
        res.count('walk')
        run_walk(res, r, syn, vs, script, segments, 'walk')
    for seg in segments:
        for v in seg['vs']:
            corr_cases.append((v.kind, v.src))
    tmpl_corr(res, segments, have_driver)


def tmpl_corr(res, segments, have_driver):
    """The Lean template-object state machine (DTML.Tmpl, driver op "tmpl": sources are numbers) against the real object
    after every operation: which source is the current one (raw), the defaults, whether compiled data is present; the
    compiled blocks of the real object are those the Lean builder makes of the source the state machine says is current
    (driver op "compile"); a call renders the program the state machine says, with the values it says -- text by the
    independent printer."""
    if not have_driver or not segments:
        return
    segs = [s for s in segments if s['ops']]
    resp = common.run_driver([{'op': 'tmpl', 'init': s['init'], 'ops': s['ops']} for s in segs])
    srcs = sorted({(v.kind, v.src) for s in segs for v in s['vs']})
    comp = common.run_driver([{'op': 'compile', 'syntax': k, 'src': t} for k, t in srcs])
    trees = {}
    for key, rp in zip(srcs, comp):
        m = rp.get('ok')
        if m is None:
            res.harness_errors.append('driver: %r' % (rp,))
            return
        if m['status'] == 'ok' and all(parselib.expr_ok(e) for e, _ in m['exprs']):
            trees[key] = parselib.norm_model(m['tree'])
    for s, rp in zip(segs, resp):
        if 'ok' not in rp:
            res.harness_errors.append('driver: %r' % (rp,))
            return
        vs = s['vs']

        def case(i):
            return {'syntax': s['syntax'], 'history': s['log'][:s['obs'][i]['at']], 'sources': [v.src for v in vs],
                    'state machine': {'init': s['init'], 'ops': s['ops'][:i + 1]}}
        for i, (mop, ob, ms) in enumerate(zip(s['ops'], s['obs'], rp['ok'])):
            res.corr_checked += 1
            real = {'raw': ob['raw'], 'globals': sorted([n, v] for n, v in ob['globals'].items()),
                    'vars': sorted([n, v] for n, v in ob['vars'].items()), 'cooked': ob['cooked']}
            mod = {'raw': vs[ms['raw']].src, 'globals': sorted([n, sentv(n, c)] for n, c in ms['globals']),
                   'vars': sorted([n, sentv(n, c)] for n, c in ms['vars']), 'cooked': ms['cooked'] is not None}
            if real != mod:
                res.corr_mismatch.append({'case': case(i), 'impl': real, 'model': mod, 'diff': 'object state after op %d %r' % (i, mop)})
                break
            if ms['cooked'] is not None:
                key = (vs[ms['cooked']].kind, vs[ms['cooked']].src)
                if key in trees and ob['blocks'] != trees[key]:
                    res.corr_mismatch.append({'case': case(i), 'impl': ob['blocks'], 'model': trees[key],
                                              'diff': 'compiled blocks of the object after op %d %r vs the model\'s compilation of the '
                                                      'source its state machine holds (%r)' % (i, mop, key[1])})
                    break
            if mop[0] == 'render' and ms['out'] is not None:
                p, g, _, inp = ms['out']
                sent = {n: sentv(n, c) for n, c in g}
                sent.update({n: sentv(n, c) for n, c in inp})
                want = {'ok': expected(vs[p].tmpl, sent)} if all(n in sent for n in 'xyz') else None
                if want is not None and ob['out'] != want:
                    res.corr_mismatch.append({'case': case(i), 'impl': ob['out'], 'model': want,
                                              'diff': 'op %d: the call\'s output vs the rendering of the program / defaults / inputs the '
                                                      'state machine gives (source %d)' % (i, p)})
                    break


# --------------------------------------------------------------------------- names outside ASCII are no tag names

def run_nonascii_names(res, r, corr_cases, stride=1):
    """every non-ASCII word character / name x every candidate form, alone and in front of a real tag, in both classes, with
    a namespace that does NOT define the name and one that DOES (a recogniser that claims the text would insert the value):
    the candidate is reproduced verbatim."""
    from DocumentTemplate import HTML, String
    real = {'html': ('<dtml-var x>', '&dtml-y;', '<dtml-if flag>\nT</dtml-if>'), 'epfs': ('%(x)s', '%(y)s', '%(if flag)[\nT%(if flag)]')}
    i = 0
    for w, frag in nonascii_fragments():
        i += 1
        if i % stride:
            continue
        for kind, cls in (('html', HTML), ('epfs', String)):
            j = r.randrange(3)
            pre, post = r.choice(['', 'A ', '100', '\n', '"']), r.choice(['', ' B', ' cm\n', ';', '>', ')s', ' -->'])
            for src, exp in ((pre + frag + post, pre + frag + post),
                             (pre + frag + post + real[kind][j] + 'Z' + frag,
                              pre + frag + post + (SENT['x'], SENT['y'], 'T')[j] + 'Z' + frag)):
                for defined in (False, True):
                    ns = namespace()
                    if defined:
                        for nm in {w, frag, w.split('.')[0], 'a' + w, 'x' + w, 'x_' + w, '1' + w}:
                            ns[nm] = '\u2020CLAIMED\u2020'
                    got = outcome(lambda: cls(src)(**ns))
                    res.evaluations += 1
                    res.count('nonascii_name_' + kind)
                    res.nt(('nonascii', kind, src))
                    if got != {'ok': exp}:
                        res.oracle_fail.append({'case': {'syntax': kind, 'src': src, 'name_defined_in_namespace': defined},
                                                'what': 'a tag candidate whose name holds a non-ASCII word character is text; '
                                                        'expected %r, got %r' % (exp, got)})
                corr_cases.append((kind, src))


# --------------------------------------------------------------------------- several threads compile DIFFERENT templates

CONC_WAYS = ['new', 'new', 'edit', 'raw+cook', 'unpickle', 'deepcopy', 'cook-again']


def conc_body(way, cls, src, other_src):
    """a thread body that makes an object of `cls` compile `src` in the given way and renders it twice (the second call
    uses what the first compiled); prepared outside the scheduled run, so that only compiling + rendering is interleaved"""
    ns = namespace()
    if way == 'new':
        def body():
            t = cls(src)
            return [t(**ns), t(**ns)]
        return body
    if way in ('edit', 'raw+cook'):
        t = cls(other_src)
        outcome(lambda: t(**ns))

        def body():
            if way == 'edit':
                t.munge(src)
            else:
                t.raw = src
                t.cook()
            return [t(**ns), t(**ns)]
        return body
    if way == 'unpickle':
        blob = pickle.dumps(cls(src))

        def body():
            t = pickle.loads(blob)
            return [t(**ns), t(**ns)]
        return body
    if way == 'deepcopy':
        t0 = cls(src)

        def body():
            t = copy.deepcopy(t0)
            return [t(**ns), t(**ns)]
        return body
    t1 = cls(src)
    outcome(lambda: t1(**ns))

    def body():
        t1.cook()
        return [t1(**ns), t1(**ns)]
    return body


def conc_simple(r, i):
    """small templates with literals of distinct lengths around one or two tags (so that offsets of one template never
    fit the other)"""
    a = ''.join(r.choice('ABCDEFGH') for _ in range(r.randint(1, 9)))
    b = ''.join(r.choice('0123456789') for _ in range(r.randint(0, 12)))
    c = r.choice(['', ' tail', '\nend\n', 'zz'])
    forms = [
        [('lit', a), ('var', ('name', r.choice('xyz')), []), ('lit', b + c)],
        [('var', ('name', 'x'), []), ('lit', a), ('var', ('name', 'y'), []), ('lit', b)],
        [('lit', a), ('if', [(('name', 'flag'), [('lit', b or 'b'), ('var', ('name', 'z'), [])])], [('lit', 'no')]), ('lit', c or 'c')],
        [('lit', b or '0'), ('in', ('name', 'items'), [], [('lit', '[' + a), ('var', ('name', 'y'), []), ('lit', ']')], None), ('lit', c)],
        [('lit', a + b)],
        [('lit', a), ('comment', [('lit', b or 'h')]), ('lit', c or 'c')],
    ]
    return merge_lits([n for n in forms[i % len(forms)] if n[0] != 'lit' or n[1]])


def run_concurrent(res, r, n, pool):
    """Templates are independent objects: what one thread's template renders does not depend on what other threads
    compile meanwhile.  Two or three threads each compile (new object / munge / raw + cook / unpickle / deepcopy / cook
    again) and render THEIR OWN template -- different sources, any mix of the three syntaxes and two classes -- under the
    deterministic line scheduler, preempted at every kind of point of the compilation; expected output of each thread:
    the independent printer on its own abstract template."""
    import sched
    from DocumentTemplate import HTML, String
    import DocumentTemplate
    pkg = os.path.dirname(DocumentTemplate.__file__) + os.sep
    usable = []
    for t in pool:
        if sum(1 for _ in str(t)) < 900:
            usable.append(t)
    for case in range(n):
        nthreads = 3 if r.random() < 0.2 else 2
        specs = []
        for k in range(nthreads):
            t = conc_simple(r, r.randrange(6)) if (r.random() < 0.6 or not usable) else r.choice(usable)
            same_syntax = specs and r.random() < 0.7
            syn = specs[0][1] if same_syntax else r.choice(['dtml', 'dtml', 'ssi', 'epfs'])
            kind, src, cands = printed(t, syn, r)
            if not cands_are_text(kind, src, cands):
                t = conc_simple(r, k)
                kind, src, cands = printed(t, syn, r)
            specs.append((t, syn, kind, src, r.choice(CONC_WAYS)))
        if len({s[3] for s in specs}) < 2:
            continue
        exps = [expected(s[0]) for s in specs]

        def bodies():
            return [conc_body(s[4], HTML if s[2] == 'html' else String, s[3], 'old <dtml-var x> source %(x)s') for s in specs]
        # how many yield points does thread 0 pass alone?
        results, sc = sched.run_threads(bodies()[:1], [(0, sched.INF)], {}, pkg)
        n0 = sc.steps.get(0, 0)
        if results[0] != ('ok', [exps[0], exps[0]]):
            res.oracle_fail.append({'case': {'threads': [{'syntax': s[1], 'src': s[3], 'way': s[4]} for s in specs[:1]]},
                                    'what': 'alone under the scheduler: expected %r twice, got %r' % (exps[0], results[0])})
            continue
        ks = sorted(set([r.randrange(1, max(2, n0)) for _ in range(6)] + [r.randrange(1, max(2, min(n0, 120))) for _ in range(6)]))
        for k in ks:
            if nthreads == 2:
                script = [(0, k), (1, sched.INF), (0, sched.INF)]
                if r.random() < 0.3:
                    script = [(0, k), (1, r.randrange(1, 150)), (0, r.randrange(1, 60)), (1, sched.INF), (0, sched.INF)]
            else:
                script = [(0, k), (1, r.randrange(1, 150)), (2, sched.INF), (0, r.randrange(1, 60)), (1, sched.INF), (0, sched.INF)]
            results, sc = sched.run_threads(bodies(), script, {}, pkg)
            if any(x is None or x[0] in ('deadlock', 'hang') for x in results):
                # the scheduler gave up (it declares a deadlock when every unfinished thread is still marked as waiting for
                # the lock at the moment the last runnable one ends): not an observation about literal text -- C18 looks
                # at locking; left out and counted
                res.count('concurrent_excluded_scheduler_gave_up')
                continue
            res.evaluations += 1
            res.count('concurrent_compile_threads=%d' % nthreads)
            res.count('concurrent_way=' + specs[0][4])
            res.count('concurrent_classes=' + '+'.join(sorted({s[2] for s in specs})))
            res.nt(('conc', case, k))
            for tid, (s, exp) in enumerate(zip(specs, exps)):
                if results[tid] != ('ok', [exp, exp]):
                    res.oracle_fail.append({'case': {'threads': [{'syntax': x[1], 'src': x[3], 'way': x[4]} for x in specs],
                                                     'schedule': [[a, b if b < sched.INF else 'end'] for a, b in script], 'thread': tid},
                                            'what': 'threads compiling different templates under the line scheduler: thread %d '
                                                    'must render its own template to %r (twice); got %r' % (tid, exp, results[tid])})
                    break
            else:
                continue
            break


# --------------------------------------------------------------------------- several threads work on ONE template object

SHARED_GIVE = ['munge(src)', 'munge(source_string=src)', 'manage_edit(src)', 'manage_edit(src, None)', 'raw = src; cook()']
SHARED_KEEP = ['cook()', 'munge()', 'munge(None)', 'render', 'render']
SHARED_STATES = ['new', 'rendered', 'rendered', 'unpickled', 'deepcopied', 'edited']


def shared_object(state, cls, src):
    """the object the threads share, holding `src`, made outside the scheduled run: never compiled yet (new / unpickled /
    deep-copied: its first rendering compiles it) or compiled (rendered before / edited to `src`)"""
    ns = namespace()
    if state == 'new':
        return cls(src)
    if state == 'unpickled':
        return pickle.loads(pickle.dumps(cls(src)))
    if state == 'deepcopied':
        return copy.deepcopy(cls(src))
    if state == 'edited':
        t = cls('before <dtml-var y> %(y)s')
        outcome(lambda: t(**ns))
        t.munge(src)
        return t
    t = cls(src)
    outcome(lambda: t(**ns))
    return t


def shared_body(t, ops):
    """a thread body: the operations (op, src) on the shared object one after the other; returns what its renderings gave"""
    ns = namespace()

    def body():
        outs = []
        for op, src in ops:
            if op == 'munge(src)':
                t.munge(src)
            elif op == 'munge(source_string=src)':
                t.munge(source_string=src)
            elif op == 'manage_edit(src)':
                t.manage_edit(src)
            elif op == 'manage_edit(src, None)':
                t.manage_edit(src, None)
            elif op == 'raw = src; cook()':
                t.raw = src
                t.cook()
            elif op == 'cook()':
                t.cook()
            elif op == 'munge()':
                t.munge()
            elif op == 'munge(None)':
                t.munge(None)
            else:
                outs.append(t(**ns))
        return outs
    return body


def shared_versions(r, pool, syn, nvers):
    """nvers versions (kind, source, expected rendering) in one syntax: small templates, templates of the pool, tag-free
    texts rich in near-tag fragments and tag candidates and templates written in the other class's syntax (those must
    render to themselves), the empty source"""
    kind = 'epfs' if syn == 'epfs' else 'html'
    vs = []
    for i in range(nvers * 6):
        if len(vs) == nvers:
            break
        x = r.random()
        if x < 0.3:
            msrc = gen_plain(r) * r.choice([1, 1, 2, 5])
            src, cands = split_marks(msrc)
            if not lit_ok(msrc) or not cands_are_text(kind, src, cands):
                continue
            v = (src, src)
        elif x < 0.36:
            v = ('', '')
        elif x < 0.46:
            # a template printed in the syntax of the OTHER class: plain text for this one
            t = conc_simple(r, r.randrange(6)) if (r.random() < 0.6 or not pool) else r.choice(pool)
            _, msrc = tmplgen.render_source(t, r.choice(['dtml', 'ssi']) if kind == 'epfs' else 'epfs', r)
            if not text_only_for(kind, msrc):
                continue
            src = split_marks(msrc)[0]
            v = (src, src)
        else:
            t = conc_simple(r, r.randrange(6)) if (x < 0.75 or not pool) else r.choice(pool)
            k2, src, cands = printed(t, syn, r)
            if k2 != kind or not cands_are_text(kind, src, cands):
                continue
            v = (src, expected(t))
        if any(v[0] == w[0] for w in vs):
            continue
        vs.append(v)
    return kind, vs


def run_shared_object(res, r, n, pool):
    """One template object has one source at a time, and what it renders is the text of THAT source -- also when the
    operations on it come from several threads.  2-3 threads work on ONE object (never compiled yet / compiled before) of
    HTML or String: each performs one or two operations out of every source-giving one (munge positional / keyword,
    manage_edit, raw = src + cook()) and every source-keeping one (cook(), munge(), munge(None), a rendering -- the first
    rendering of an object not yet compiled compiles it), at least one thread giving a new source, under the deterministic
    line scheduler with preemptions at every kind of point inside the operations.  When all threads have returned: the
    object's source (read()) is one of those it was given, it renders (twice, and once more after cook()) to what the
    independent printer says for the version that IS its source (a tag-free version: to itself); a rendering made by a
    thread meanwhile is the printer's rendering of one of the versions the object ever held."""
    import sched
    from DocumentTemplate import HTML, String
    import DocumentTemplate
    pkg = os.path.dirname(DocumentTemplate.__file__) + os.sep
    usable = [t for t in pool if sum(1 for _ in str(t)) < 900]
    ns = namespace()
    for case in range(n):
        nthreads = 3 if r.random() < 0.25 else 2
        syn = r.choice(['dtml', 'dtml', 'ssi', 'epfs'])
        kind, vs = shared_versions(r, usable, syn, nthreads + 2)
        if len(vs) < 3:
            res.count('shared_object_excluded_too_few_versions')
            continue
        cls = HTML if kind == 'html' else String
        state = r.choice(SHARED_STATES)
        r.shuffle(vs)
        start, rest = vs[0], vs[1:]
        # what each thread does: thread 0 and the others give a source or keep it; at least one gives one
        plans = []
        for k in range(nthreads):
            ops = []
            for _ in range(2 if r.random() < 0.3 else 1):
                if r.random() < 0.65:
                    ops.append((r.choice(SHARED_GIVE), rest[(k + len(ops)) % len(rest)][0]))
                else:
                    ops.append((r.choice(SHARED_KEEP), None))
            plans.append(ops)
        if not any(s is not None for ops in plans for _, s in ops):
            k = r.randrange(nthreads)
            plans[k] = [(r.choice(SHARED_GIVE), rest[k % len(rest)][0])]
        given = [s for ops in plans for _, s in ops if s is not None]
        exp_of = dict(vs)
        any_exp = {exp_of[start[0]]} | {exp_of[s] for s in given}
        case_desc = {'class': cls.__name__, 'syntax': syn, 'object': state, 'source before': start[0],
                     'threads': [[{'op': op, 'src': s} for op, s in ops] for ops in plans]}

        def setup():
            t = shared_object(state, cls, start[0])
            return t, [shared_body(t, ops) for ops in plans]
        # how many yield points does thread 0 pass alone?
        t, bodies = setup()
        results, sc = sched.run_threads(bodies[:1], [(0, sched.INF)], {}, pkg)
        n0 = sc.steps.get(0, 0)
        if results[0] is None or results[0][0] != 'ok':
            res.oracle_fail.append({'case': dict(case_desc, threads=case_desc['threads'][:1]),
                                    'what': 'thread 0 alone under the scheduler: %r' % (results[0],)})
            continue
        ks = sorted(set([r.randrange(1, max(2, n0)) for _ in range(5)] + [r.randrange(1, max(2, min(n0, 60))) for _ in range(3)]))
        for k in ks:
            if nthreads == 2:
                script = [(0, k), (1, sched.INF), (0, sched.INF)]
                if r.random() < 0.3:
                    script = [(0, k), (1, r.randrange(1, 150)), (0, r.randrange(1, 60)), (1, sched.INF), (0, sched.INF)]
            else:
                script = [(0, k), (1, r.randrange(1, 150)), (2, sched.INF), (0, r.randrange(1, 60)), (1, sched.INF), (0, sched.INF)]
            t, bodies = setup()
            results, sc = sched.run_threads(bodies, script, {}, pkg)
            if any(x is None or x[0] in ('deadlock', 'hang') for x in results):
                res.count('shared_object_excluded_scheduler_gave_up')
                continue
            res.evaluations += 1
            res.count('shared_object_threads=%d' % nthreads)
            res.count('shared_object_state=' + state)
            res.count('shared_object_class=' + cls.__name__)
            for ops in plans:
                for op, _ in ops:
                    res.count('shared_object_op=' + op)
            res.nt(('shared', case, k))
            desc = dict(case_desc, schedule=[[a, b if b < sched.INF else 'end'] for a, b in script])
            bad = None
            for tid, x in enumerate(results):
                if x[0] != 'ok':
                    bad = 'thread %d: %r' % (tid, x)
                elif any(o not in any_exp for o in x[1]):
                    bad = ('thread %d rendered %r, which is the rendering of none of the versions the object ever held (%r)'
                           % (tid, x[1], sorted(any_exp)))
                if bad:
                    break
            if bad is None:
                now = outcome(t.read)
                if 'ok' not in now or now['ok'] not in given:
                    bad = 'after all threads returned the source of the object is %r: none of those it was given (%r)' % (now, given)
                else:
                    exp = exp_of[now['ok']]
                    got = [outcome(lambda: t(**ns)), outcome(lambda: t(**ns))]
                    outcome(t.cook)
                    got.append(outcome(lambda: t(**ns)))
                    if got != [{'ok': exp}] * 3:
                        bad = ('after all threads returned the source of the object is %r, which must render to %r (twice, and '
                               'again after cook()); got %r' % (now['ok'], exp, got))
                    elif now['ok'] == exp:
                        res.count('shared_object_final_source_renders_to_itself')
            if bad:
                res.oracle_fail.append({'case': desc, 'what': 'threads working on one template object under the line scheduler: ' + bad})
                break


def run_checks(res, r, n_tmpl, n_plain, n_pairs, have_driver, n_hist=0, battery_stride=1, n_walks=0, n_conc=0, nonascii_stride=1, n_shared=0):
    corr_cases = []
    tmpls = []
    for _ in range(n_tmpl):
        t = gen_body(r, r.choice([1, 2, 3, 3]), 3)
        tmpls.append(t)
        check_template(res, r, t, corr_cases)
    battery(res, r, corr_cases, battery_stride)
    # tag-free sources render to themselves
    for _ in range(n_plain):
        t, cands = split_marks(gen_plain(r))
        for kind in ('html', 'epfs'):
            if not cands_are_text(kind, t, cands):
                res.count('tagfree_excluded_candidate_terminated')
                continue
            got = render(kind, t)
            res.evaluations += 1
            res.count('tagfree')
            if cands:
                res.count('tagfree_with_candidates')
            if any(c in t for c in '<&%'):
                res.nt(('plain', kind, t))
            if got != {'ok': t}:
                res.oracle_fail.append({'case': {'syntax': kind, 'src': t},
                                        'what': 'a source without tags rendered to %r instead of itself' % (got,)})
            corr_cases.append((kind, t))
    # rendering composes
    for _ in range(n_pairs):
        a, b = r.choice(tmpls), r.choice(tmpls)
        syn = r.choice(['dtml', 'ssi', 'epfs'])
        kind, sa, ca = printed(a, syn, r)
        _, sb, cb = printed(b, syn, r)
        if not junction_inert(sa, sb):
            res.count('pair_excluded_junction_tag')
            continue
        # a candidate of a (or b) that text of b terminates is a tag spanning the junction: all must stay text in a, b and a+b
        cab = ca + [(p + len(sa), k, f) for p, k, f in cb]
        if not (cands_are_text(kind, sa, ca) and cands_are_text(kind, sb, cb) and cands_are_text(kind, sa + sb, cab)):
            res.count('pair_excluded_candidate_terminated')
            continue
        # the documented exception: the junction forms a line end (blanks + newline) directly after a block tag of a
        ua = unmark_tree(a)
        trail = None
        if last_is_block(ua):
            trail = ''
        elif len(ua) >= 2 and ua[-1][0] == 'lit' and not ua[-1][1].strip(' \t') and last_is_block(ua[:-1]):
            trail = ua[-1][1]
        if trail is not None and skip_eol(trail + sb) != trail + sb:
            res.count('pair_excluded_line_end_after_block_tag')
            continue
        ra, rb, rab = render(kind, sa), render(kind, sb), render(kind, sa + sb)
        res.evaluations += 1
        res.count('pair')
        if cab:
            res.count('pair_with_candidates')
        res.nt(('pair', syn, sa[-20:], sb[:20]))
        if 'ok' in ra and 'ok' in rb and rab != {'ok': ra['ok'] + rb['ok']}:
            res.oracle_fail.append({'case': {'syntax': syn, 'a': sa, 'b': sb},
                                    'what': 'render(a+b) = %r but render(a)+render(b) = %r' % (rab, ra['ok'] + rb['ok'])})
        corr_cases.append((kind, sa + sb))
    # historical: give-up candidates in a (fixed: C01-scanner-giveup)
    for sa, sb in (('<dtml- ', '&dtml-x;'), ('<!--#var y ', '<dtml-var x>'), ('<dtml-1>', '&dtml-x;'), ('</dtml- ', '&dtml-x;'),
                   ('a<dtml-', 'b&dtml-x;'), ('a <dtml-', '<dtml-var x> b'), ('<dtml- 1 ', '&dtml-x; >'), ('<!--#1 ', '<dtml-var x> -->'),
                   ('</dtml- ', '<dtml-var x>'), ('<!--# 2', '&dtml-x; <!--#var y-->'), ('<dtml-.', '<dtml-if x>A</dtml-if>>')):
        ra, rb, rab = render('html', sa), render('html', sb), render('html', sa + sb)
        res.evaluations += 1
        res.nt(('giveup', sa))
        if 'ok' in ra and 'ok' in rb and rab != {'ok': ra['ok'] + rb['ok']}:
            res.oracle_fail.append({'case': {'syntax': 'html', 'a': sa, 'b': sb},
                                    'what': 'render(a+b) = %r but render(a)+render(b) = %r' % (rab, ra['ok'] + rb['ok'])})
        corr_cases.append(('html', sa + sb))
    run_nonascii_names(res, r, corr_cases, nonascii_stride)
    if n_conc:
        run_concurrent(res, r, n_conc, tmpls)
    if n_shared:
        # on a branch of the random stream: the histories / walks below draw what they drew before this class was added
        state = r.getstate()
        run_shared_object(res, r, n_shared, tmpls)
        r.setstate(state)
    # object histories
    run_histories(res, r, n_hist, tmpls)
    if n_walks:
        run_edit_walks(res, r, n_walks, tmpls, have_driver, corr_cases)
    compile_corr(res, corr_cases, have_driver)


def run(res, tier, have_driver):
    r = common.rng('C01')
    res.rule = ('abstract templates (all block tags, nesting <= 3, literals from a near-tag alphabet incl. line ends after '
                'blanks, CR LF, VT/NBSP before LF) printed in dtml / SSI / EPFS syntax and rendered with sentinel values: output '
                '== independent printer; literals also hold tag candidates that are no tags (nameless, malformed entities, %( '
                'without name / format, and named candidates never terminated: unbalanced double quote before every later ">", '
                'no "-->", no ")"), their being text decided on the final source by the syntax rules (cases where later text '
                'terminates one are excluded and counted); battery: each of the candidates x 11 tag kinds x {top level, in body, '
                'if body, else body, behind another candidate} x 3 syntaxes; tag-free sources (with such candidates) render to '
                'themselves (HTML and String classes); render(a+b) == render(a)+render(b) for random pairs (junction-spanning '
                'tags and the documented line-end case excluded); histories: one object edited by munge / manage_edit / raw + '
                'cook, sources compiled before compiled again by new objects and by the other class (other syntax = text), '
                'File / HTMLFile on a file that is rewritten (new object on the same path, cook, unpickle), edited_source, '
                'HTMLFile.manage_edit, manage_default, the other file class on the same path, concatenated sources: every '
                'rendering == independent printer on the CURRENT source; every step of a history may meet the empty source or '
                'a degenerate one (blank, lone line end, "0", "None", "()", zero-width …) as constructor argument / edit text / '
                'file content; edit walks: random sequences over every source-giving operation (munge positional / keyword, '
                'manage_edit, raw + cook, munge with mapping / **vars, new object by positional / keyword / default argument, '
                'HTMLDefault edit-through-copy) and every source-keeping one (munge() / munge(None) / defaults only incl. the '
                'empty mapping / cook / pickle / deepcopy) over 5 versions incl. the empty source, rendered after every '
                'operation with x / y / z partly from the installed defaults; each source-giving operation x {tags, empty, '
                'degenerate}^2 deterministically; the walks also run on the Lean template state machine (raw, defaults, '
                'compiled blocks == Lean builder of the current source, output); non-trivial = sources containing a newline / '
                'candidate / near-tag character / pair junctions / histories; tag candidates whose name holds word characters '
                'outside ASCII (letters / digits / marks of other scripts x every candidate form of the three syntaxes, name at the '
                'start or inside) are text: in literals of generated templates, in the battery, and swept alone / before a real '
                'tag in both classes with the name undefined and defined in the namespace; concurrent compilation: 2-3 threads '
                'each compile (new object / munge / raw + cook / unpickle / deepcopy / cook again) and render twice their OWN, '
                'different template (any mix of syntaxes / classes) under the deterministic line scheduler with preemptions '
                'inside the compilation: each output == independent printer on that thread\'s template; one object shared by '
                '2-3 threads (object never compiled / compiled before; each thread 1-2 operations out of every source-giving '
                'and source-keeping one incl. renderings; versions: templates, tag-free texts with candidates, templates in the '
                'other class\'s syntax (= text), the empty '
                'source) under the same scheduler: when all have returned read() is one of the sources given and the object '
                'renders to the printer\'s output for THAT version (a tag-free one: to itself), also after cook(); renderings '
                'made meanwhile are those of a version the object held')
    if tier == 'quick':
        run_checks(res, r, 400, 1500, 2000, have_driver, 250, n_walks=250, n_conc=40, nonascii_stride=3, n_shared=100)
    else:
        run_checks(res, r, 6000, 30000, 20000, have_driver, 4000, n_walks=5000, n_conc=600, n_shared=800)
    res.sample({'example': 'see input_distribution'})
    res.assumptions += ['the hand-compiled scanners are validated against CPython re by the token correspondence, not proved '
                        'equivalent', 'rendering of the tags used by the oracle (sentinel var, fixed-truth if/unless, fixed-length '
                        'in, with, let, non-raising try) is taken from their documented meaning',
                        'a file template reads its file in text mode: CR LF / CR in the file arrive as LF (the oracle applies the '
                        'same translation to the abstract template before printing it)']
    res.partial.append('render_concat is checked by the oracle; the Lean side proves literal preservation through scanner and '
                       'builder (tokens_lossless, compile_literals, skipEol_spec) and in-order verbatim emission by the '
                       'interpreter (lit_verbatim, blocks_in_order), not yet their composition over a+b')
    res.partial.append('file-template histories and compiled forms of earlier sources are decided by the oracle only; edit walks on '
                       'HTML / String objects are also compared with the Lean template state machine (DTML.Tmpl), whose theorems '
                       'belong to C17; `raw = src; cook()` and edit-through-copy enter that model as a new object in the same state')


def search_more(res, tier):
    r = common.rng('C01-more')
    res2 = common.Result('C01')
    run_checks(res2, r, 3000, 10000, 10000, False, 1500, n_walks=1500, n_conc=150, n_shared=200)
    return res2.oracle_fail


def replay(path):
    with open(path) as f:
        d = json.load(f)
    print(json.dumps(d.get('first', d), indent=1, ensure_ascii=False)[:3000])
    return 1
