"""C01 — text outside tags is reproduced verbatim, in order, and rendering composes.

Generator: abstract templates over every block tag (nesting <= 3) whose literals are drawn from an alphabet of near-tag
fragments ('<', '<d', '<!--', '&dt', '%', quotes, newlines, blanks before newlines …) and whose tags have a rendering known
to the generator (sentinel values, fixed truth values, fixed sequence lengths), printed in the three syntaxes.
Oracle (independent printer): the expected output is computed from the abstract structure, applying the documented rule
"one run of blanks ending in a newline is dropped directly after a block's opening, continuation or closing tag" itself;
tag-free sources must render to themselves; render(a + b) == render(a) + render(b) for pairs whose junction creates no tag
(unless b starts with such a line end right after a block tag ending a).
Correspondence: token streams and compiled trees (with all literal nodes) of the Lean scanner/builder model vs the real
parser on the same sources and on raw fragment soups.
"""
import json

import common
import parselib
import scanlib
import tmplgen

SENT = {'x': '«X»', 'y': '«Y»', 'z': '«Z»'}


def skip_eol(t):
    i = 0
    while i < len(t) and t[i] in ' \t':
        i += 1
    if i < len(t) and t[i] == '\n':
        return t[i + 1:]
    return t


# --------------------------------------------------------------------------- generator (tags with known rendering)

# text that LOOKS like the start of a tag but has no tag name: never a tag, reproduced verbatim — and a real tag
# behind it (before the next '>' / '-->') is still a tag
NAMELESS = ['<dtml-1', '<dtml- 1', '<dtml-.', '</dtml-1', '</dtml- 2', '<!--#1', '<!--# 1', '<!--#-']


def gen_lit(r):
    if r.random() < 0.12:
        return '\0' + r.choice(NAMELESS) + r.choice(['1', '.', '1 '])
    if r.random() < 0.35:
        # a line end (possibly after blanks) — what the skipping rule is about
        return r.choice(['\n', ' \n', '\t\n', '  \n', '\n\n', ' \n x', '\r\n', ' \r\n', '\n ', ' x\n', '\r', '\x0b\n', '\xa0\n'])
    return tmplgen.gen_lit(r)


def nameless_only(t):
    """every tag opener in t is one of the nameless fragments followed by a non-letter"""
    import re
    u = t
    for frag in sorted(NAMELESS, key=len, reverse=True):
        u = re.sub(re.escape(frag) + r'(?![A-Za-z/])', '', u)
    return tmplgen.inert(u)


def gen_body(r, depth, width=3):
    out = []
    for _ in range(r.randint(0, width)):
        t = gen_lit(r)
        if t and (t.startswith('\0') or tmplgen.inert(t)):
            out.append(('lit', t.lstrip('\0')))
        out.append(gen_node(r, depth))
    t = gen_lit(r)
    if t and (t.startswith('\0') or tmplgen.inert(t)):
        out.append(('lit', t.lstrip('\0')))
    # merge adjacent literals (the generator's notion of "one literal" must match the source)
    merged = []
    for n in out:
        if n[0] == 'lit' and merged and merged[-1][0] == 'lit':
            merged[-1] = ('lit', merged[-1][1] + n[1])
        else:
            merged.append(n)
    return [n for n in merged if n[0] != 'lit' or tmplgen.inert(n[1]) or nameless_only(n[1])]


def gen_node(r, depth):
    kinds = ['var', 'var', 'call', 'comment']
    if depth > 0:
        kinds += ['if', 'if', 'unless', 'in', 'in', 'with', 'let', 'try', 'tryfin']
    k = r.choice(kinds)
    if k == 'var':
        return ('var', ('name', r.choice(['x', 'y', 'z'])), [])
    if k == 'call':
        return ('call', ('name', 'x'))
    if k == 'comment':
        return ('comment', [('lit', tmplgen.gen_lit(r) or 'c')])
    if k == 'if':
        conds = [(('name', r.choice(['flag', 'n1'])), gen_body(r, depth - 1, 2)) for _ in range(r.randint(1, 3))]
        els = gen_body(r, depth - 1, 2) if r.random() < 0.5 else None
        return ('if', conds, els)
    if k == 'unless':
        return ('unless', ('name', r.choice(['flag', 'n1'])), gen_body(r, depth - 1, 2))
    if k == 'in':
        els = gen_body(r, depth - 1, 1) if r.random() < 0.4 else None
        seq = r.choice(['items', 'items', 'none'])
        opts = []
        if seq == 'items' and r.random() < 0.45:
            opts = r.choice([[('size', '2'), ('start', '1')], [('size', '1'), ('start', '1'), ('next', None)],
                             [('size', '3'), ('start', '1'), ('previous', None)], [('size', '1'), ('start', '2'), ('previous', None)],
                             [('size', '1'), ('start', '2'), ('next', None)], [('size', '1'), ('start', '2')], [('reverse', None)]])
        return ('in', ('name', seq), opts, gen_body(r, depth - 1, 2), els)
    if k == 'with':
        return ('with', ('name', 'obj'), [], gen_body(r, depth - 1, 2))
    if k == 'let':
        return ('let', [('v0', 'x', False)], gen_body(r, depth - 1, 2))
    if k == 'try':
        els = gen_body(r, depth - 1, 1) if r.random() < 0.4 else None
        return ('try', gen_body(r, depth - 1, 2), [(r.choice(['KeyError', '']), gen_body(r, depth - 1, 1))], els, None)
    return ('try', gen_body(r, depth - 1, 2), [], None, gen_body(r, depth - 1, 1))


TRUTH = {'flag': True, 'n1': False}
SEQLEN = {'items': 2, 'none': 0}


def adjust(nodes, st):
    """static pass in source order: the literal directly after a block open / continuation / close tag loses one line end"""
    out = []
    for n in nodes:
        k = n[0]
        if k == 'lit':
            out.append(('lit', skip_eol(n[1]) if st['ab'] else n[1]))
            st['ab'] = False
        elif k in ('var', 'call', 'return'):
            out.append(n)
            st['ab'] = False
        elif k == 'comment':
            st['ab'] = True
            adjust(n[1], st)
            st['ab'] = True
            out.append(('comment', []))
        elif k == 'if':
            conds = []
            for t, body in n[1]:
                st['ab'] = True
                conds.append((t, adjust(body, st)))
            els = None
            if n[2] is not None:
                st['ab'] = True
                els = adjust(n[2], st)
            st['ab'] = True
            out.append(('if', conds, els))
        elif k in ('unless', 'with', 'let'):
            st['ab'] = True
            body = adjust(n[-1], st)
            st['ab'] = True
            out.append(n[:-1] + (body,))
        elif k == 'in':
            st['ab'] = True
            body = adjust(n[3], st)
            els = None
            if n[4] is not None:
                st['ab'] = True
                els = adjust(n[4], st)
            st['ab'] = True
            out.append(('in', n[1], n[2], body, els))
        elif k == 'try':
            st['ab'] = True
            body = adjust(n[1], st)
            hs = []
            for names, hb in n[2]:
                st['ab'] = True
                hs.append((names, adjust(hb, st)))
            els = fin = None
            if n[3] is not None:
                st['ab'] = True
                els = adjust(n[3], st)
            if n[4] is not None:
                st['ab'] = True
                fin = adjust(n[4], st)
            st['ab'] = True
            out.append(('try', body, hs, els, fin))
        else:
            raise ValueError(k)
    return out


def evaluate(nodes):
    out = []
    for n in nodes:
        k = n[0]
        if k == 'lit':
            out.append(n[1])
        elif k == 'var':
            out.append(SENT[n[1][1]])
        elif k in ('call', 'comment'):
            pass
        elif k == 'if':
            for t, body in n[1]:
                if TRUTH[t[1]]:
                    out.append(evaluate(body))
                    break
            else:
                if n[2] is not None:
                    out.append(evaluate(n[2]))
        elif k == 'unless':
            if not TRUTH[n[1][1]]:
                out.append(evaluate(n[2]))
        elif k == 'in':
            cnt = SEQLEN[n[1][1]]
            o = dict(n[2])
            if cnt and ('previous' in o or 'next' in o):
                # the body is rendered once if there is a previous / next batch, otherwise the else body
                start, size = int(o['start']), int(o['size'])
                exists = (start > 1) if 'previous' in o else (start + size - 1 < cnt)
                if exists:
                    out.append(evaluate(n[3]))
                elif n[4] is not None:
                    out.append(evaluate(n[4]))
            elif cnt:
                if 'size' in o:
                    cnt = max(0, min(cnt, int(o['start']) - 1 + int(o['size'])) - (int(o['start']) - 1))
                out.append(evaluate(n[3]) * cnt)
            elif n[4] is not None:
                out.append(evaluate(n[4]))
        elif k in ('with', 'let'):
            out.append(evaluate(n[-1]))
        elif k == 'try':
            out.append(evaluate(n[1]))
            if n[3] is not None:
                out.append(evaluate(n[3]))
            if n[4] is not None:
                out.append(evaluate(n[4]))
        else:
            raise ValueError(k)
    return ''.join(out)


def expected(tmpl):
    return evaluate(adjust(tmpl, {'ab': False}))


class O:
    def __init__(self, i):
        self.i = i


def render(kind, src):
    from DocumentTemplate import HTML, String
    cls = HTML if kind == 'html' else String
    ns = dict(SENT)
    ns.update(flag=1, n1=0, items=[O(1), O(2)], none=[], obj=O(3))
    try:
        return {'ok': cls(src)(**ns)}
    except Exception as e:  # noqa
        return {'raise': '%s: %s' % (type(e).__name__, str(e)[:200])}


def last_is_block(tmpl):
    return bool(tmpl) and tmpl[-1][0] not in ('lit', 'var', 'call', 'return')


def junction_inert(sa, sb):
    j = sa[-8:] + sb[:8]
    # no tag opener may start in a and end in b
    for o in tmplgen.OPENERS:
        p = j.find(o)
        while p >= 0:
            if p < len(sa[-8:]) < p + len(o):
                return False
            p = j.find(o, p + 1)
    return True


# --------------------------------------------------------------------------- tag-free sources

PLAIN = ['<', '<d', '<dtml', '<!--', '<!-', '&dt', '&dtml', '&', '%', '% (', ';', '>', '-->', '--', '"', "'", '\n', ' \n',
         '  ', '\t\n', ' ', 'ſ', 'K', 'text', 'Hello', 'a=b', '/', ']', ')', '(', '[', '!', '1', 'é', '\U0001F600', '<b>',
         '</b>', '&amp;', 'end', '\r\n', '<dtml', '</dtml', '&dtml', '<!-', 'dtml-var x>', '%%', '%s', '% (x)s', '(x)s']


def gen_plain(r):
    for _ in range(20):
        t = ''.join(r.choice(PLAIN) for _ in range(r.randint(0, 12)))
        if tmplgen.inert(t):
            return t
    return 'plain'


# --------------------------------------------------------------------------- the check

def compile_corr(res, cases, have_driver):
    """token streams and compiled trees of the model vs the real parser"""
    if not have_driver:
        return
    resp = common.run_driver([{'op': 'compile', 'syntax': k, 'src': s} for k, s in cases])
    toks = common.run_driver([{'op': 'tokens', 'syntax': k, 'src': s} for k, s in cases])
    for (kind, src), rp, tp in zip(cases, resp, toks):
        rr = parselib.compile_real(kind, src)
        if rr['status'] in ('timeout', 'recursion', 'other'):
            continue
        res.corr_checked += 1
        m = rp.get('ok')
        if m is None:
            res.harness_errors.append('driver: %r' % (rp,))
            return
        impl_ok = rr['status'] == 'ok'
        model_ok = m['status'] == 'ok' and all(parselib.expr_ok(s) for s, _ in m['exprs'])
        if impl_ok != model_ok:
            res.corr_mismatch.append({'case': {'syntax': kind, 'src': src}, 'impl': rr['status'], 'model': m['status'],
                                      'diff': 'acceptance'})
        elif impl_ok:
            a = parselib.norm(rr['blocks'])
            b = parselib.norm_model(m['tree'])
            if a != b:
                res.corr_mismatch.append({'case': {'syntax': kind, 'src': src}, 'impl': a, 'model': b,
                                          'diff': 'compiled tree (literal nodes included)'})
        try:
            real = scanlib.real_tokens(kind, src)
        except Exception as e:  # noqa
            res.oracle_fail.append({'case': {'syntax': kind, 'src': src}, 'what': 'scanner raised %r' % (e,)})
            continue
        if tp.get('ok') != real:
            res.corr_mismatch.append({'case': {'syntax': kind, 'src': src}, 'impl': real, 'model': tp.get('ok'),
                                      'diff': 'tokens'})


def run_checks(res, r, n_tmpl, n_plain, n_pairs, have_driver):
    corr_cases = []
    tmpls = []
    for _ in range(n_tmpl):
        t = gen_body(r, r.choice([1, 2, 3, 3]), 3)
        exp = expected(t)
        tmpls.append(t)
        for syn in ('dtml', 'ssi', 'epfs'):
            kind, src = tmplgen.render_source(t, syn, r)
            got = render(kind, src)
            res.evaluations += 1
            res.count('syntax=' + syn)
            if '\n' in src:
                res.nt((syn, src))
            if got != {'ok': exp}:
                res.oracle_fail.append({'case': {'syntax': syn, 'src': src},
                                        'what': 'expected %r (literals verbatim, one line end dropped after block tags); got %r'
                                                % (exp, got)})
            corr_cases.append((kind, src))
    # tag-free sources render to themselves
    for _ in range(n_plain):
        t = gen_plain(r)
        for kind in ('html', 'epfs'):
            if kind == 'epfs' and '%' in t:
                continue
            got = render(kind, t)
            res.evaluations += 1
            res.count('tagfree')
            if any(c in t for c in '<&%'):
                res.nt(('plain', kind, t))
            if got != {'ok': t}:
                res.oracle_fail.append({'case': {'syntax': kind, 'src': t},
                                        'what': 'a source without tags rendered to %r instead of itself' % (got,)})
            corr_cases.append((kind, t))
    # rendering composes
    for _ in range(n_pairs):
        a, b = r.choice(tmpls), r.choice(tmpls)
        syn = r.choice(['dtml', 'ssi', 'epfs'])
        kind, sa = tmplgen.render_source(a, syn, r)
        _, sb = tmplgen.render_source(b, syn, r)
        if not junction_inert(sa, sb):
            res.count('pair_excluded_junction_tag')
            continue
        if a and a[-1][0] == 'lit' and any(f in a[-1][1] for f in ('<dtml-', '</dtml-', '<!--#')):
            # a ends in text holding an unterminated tag candidate: b may supply its terminator (a tag spanning the junction)
            res.count('pair_excluded_open_candidate')
            continue
        # the documented exception: the junction forms a line end (blanks + newline) directly after a block tag of a
        trail = None
        if last_is_block(a):
            trail = ''
        elif len(a) >= 2 and a[-1][0] == 'lit' and not a[-1][1].strip(' \t') and last_is_block(a[:-1]):
            trail = a[-1][1]
        if trail is not None and skip_eol(trail + sb) != trail + sb:
            res.count('pair_excluded_line_end_after_block_tag')
            continue
        ra, rb, rab = render(kind, sa), render(kind, sb), render(kind, sa + sb)
        res.evaluations += 1
        res.count('pair')
        res.nt(('pair', syn, sa[-20:], sb[:20]))
        if 'ok' in ra and 'ok' in rb and rab != {'ok': ra['ok'] + rb['ok']}:
            res.oracle_fail.append({'case': {'syntax': syn, 'a': sa, 'b': sb},
                                    'what': 'render(a+b) = %r but render(a)+render(b) = %r' % (rab, ra['ok'] + rb['ok'])})
        corr_cases.append((kind, sa + sb))
    # historical: give-up candidates in a (fixed: C01-scanner-giveup)
    for sa, sb in (('<dtml- ', '&dtml-x;'), ('<!--#var y ', '<dtml-var x>'), ('<dtml-1>', '&dtml-x;'), ('</dtml- ', '&dtml-x;'),
                   ('a<dtml-', 'b&dtml-x;'), ('a <dtml-', '<dtml-var x> b'), ('<dtml- 1 ', '&dtml-x; >'), ('<!--#1 ', '<dtml-var x> -->'),
                   ('</dtml- ', '<dtml-var x>'), ('<!--# 2', '&dtml-x; <!--#var y-->'), ('<dtml-.', '<dtml-if x>A</dtml-if>>')):
        ra, rb, rab = render('html', sa), render('html', sb), render('html', sa + sb)
        res.evaluations += 1
        res.nt(('giveup', sa))
        if 'ok' in ra and 'ok' in rb and rab != {'ok': ra['ok'] + rb['ok']}:
            res.oracle_fail.append({'case': {'syntax': 'html', 'a': sa, 'b': sb},
                                    'what': 'render(a+b) = %r but render(a)+render(b) = %r' % (rab, ra['ok'] + rb['ok'])})
        corr_cases.append(('html', sa + sb))
    compile_corr(res, corr_cases, have_driver)


def run(res, tier, have_driver):
    r = common.rng('C01')
    res.rule = ('abstract templates (all block tags, nesting <= 3, literals from a near-tag alphabet incl. line ends after '
                'blanks, CR LF, VT/NBSP before LF) printed in dtml / SSI / EPFS syntax and rendered with sentinel values: output '
                '== independent printer; tag-free sources render to themselves (HTML and String classes); render(a+b) == '
                'render(a)+render(b) for random pairs (junction-spanning tags and the documented line-end case excluded); '
                'non-trivial = sources containing a newline / near-tag character / pair junctions')
    if tier == 'quick':
        run_checks(res, r, 400, 1500, 1200, have_driver)
    else:
        run_checks(res, r, 6000, 30000, 20000, have_driver)
    res.sample({'example': 'see input_distribution'})
    res.assumptions += ['the hand-compiled scanners are validated against CPython re by the token correspondence, not proved '
                        'equivalent', 'rendering of the tags used by the oracle (sentinel var, fixed-truth if/unless, fixed-length '
                        'in, with, let, non-raising try) is taken from their documented meaning']
    res.partial.append('render_concat is checked by the oracle; the Lean side proves literal preservation through scanner and '
                       'builder (tokens_lossless, compile_literals, skipEol_spec) and in-order verbatim emission by the '
                       'interpreter (lit_verbatim, blocks_in_order), not yet their composition over a+b')


def search_more(res, tier):
    r = common.rng('C01-more')
    res2 = common.Result('C01')
    run_checks(res2, r, 3000, 10000, 10000, False)
    return res2.oracle_fail


def replay(path):
    with open(path) as f:
        d = json.load(f)
    print(json.dumps(d.get('first', d), indent=1, ensure_ascii=False)[:3000])
    return 1
