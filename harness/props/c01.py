"""C01 — text outside tags is reproduced verbatim, in order, and rendering composes.

Generator: abstract templates over every block tag (nesting <= 3) whose literals are drawn from an alphabet of near-tag
fragments ('<', '<d', '<!--', '&dt', '%', quotes, newlines, blanks before newlines …) and whose tags have a rendering known
to the generator (sentinel values, fixed truth values, fixed sequence lengths), printed in the three syntaxes.
Oracle (independent printer): the expected output is computed from the abstract structure, applying the documented rule
"one run of blanks ending in a newline is dropped directly after a block's opening, continuation or closing tag" itself;
tag-free sources must render to themselves; render(a + b) == render(a) + render(b) for pairs whose junction creates no tag
(unless b starts with such a line end right after a block tag ending a).
Literal text also holds *tag candidates that are not tags* (kept apart from the generator's tags by private-use marks that
are stripped before the source is used): nameless candidates, malformed entities, %( candidates without a name / format,
and named candidates that are never terminated -- '<dtml-var "' with an unbalanced quote, '<!--#var x' without '-->',
'%(x' without ')'.  Whether such a candidate is text is decided on the final source by the documented terminator rule
(cand_is_text), never by asking the scanner; sources where later text terminates a candidate are left out and counted.
Every candidate is also put, deterministically, in front of every kind of tag in every block context (battery).
Histories: the text rendered is that of the template's CURRENT source.  One object is edited (munge / manage_edit /
cook), a source seen before is compiled again by a new object and by the other class (HTML <-> String: the other
syntax's tags are plain text there); File / HTMLFile templates are created on a file, the file is rewritten (new object
on the same path, re-cook, unpickle), edited through edited_source / manage_edit, reverted (manage_default) and read
through the other file class.  Expected output at every step: the independent printer applied to the abstract template
that is the current source.
Correspondence: token streams and compiled trees (with all literal nodes) of the Lean scanner/builder model vs the real
parser on the same sources and on raw fragment soups.
"""
import json
import os
import pickle
import re
import shutil
import tempfile

import common
import parselib
import scanlib
import tmplgen

SENT = {'x': '«X»', 'y': '«Y»', 'z': '«Z»'}


def skip_eol(t):
    i = 0
    while i < len(t) and t[i] in ' \t':
        i += 1
    if i < len(t) and t[i] == '\n':
        return t[i + 1:]
    return t


# --------------------------------------------------------------------------- generator (tags with known rendering)

# text that LOOKS like the start of a tag but has no tag name: never a tag, reproduced verbatim — and a real tag
# behind it (before the next '>' / '-->') is still a tag
NAMELESS = ['<dtml-1', '<dtml- 1', '<dtml-.', '</dtml-1', '</dtml- 2', '<!--#1', '<!--# 1', '<!--#-']

# Tag candidates inside literal text.  In the abstract template a candidate is written  M0 kind fragment M1  (private-use
# characters, stripped before the source is handed to the library) so that its position in the printed source is known.
#   L  text whatever follows: no tag name at the name position (the fragment carries the non-letter), an entity whose body
#      is not a name / has no '-name' part, a %( candidate without a name or without a format character
#   Q  <dtml- / </dtml- candidate, text iff no '>' behind it is preceded by an even number of '"' counted from the candidate
#      (a '>' inside a quoted attribute value does not close a tag) — e.g. a stray '"' behind it and balanced quotes after
#   S  <!--# candidate, text iff no '-->' follows anywhere behind it
#   P  %( candidate, text iff no ')' follows anywhere behind it
M0, M1 = '\ue000', '\ue001'
MARK_RE = re.compile(M0 + '(.)([^' + M1 + ']*)' + M1, re.S)
CANDS = {
    'L': [f + g for f in NAMELESS for g in ('1', '.', '1 ')] +
         ['&dtml-x y;', '&dtml-;', '&dtml.x;', '&dtml-x ', '&dtml-x"y;', '&dtml.html_quote;',
          '%( x)s', '%()s', '%("x")s', '%(x) ', '%(x)#', '%(x)1 ', '%(x)\n', '%(if flag) [', '%(x)1.5 '],
    'Q': ['<dtml-"', '</dtml-"', '<dtml-var "', '<dtml-var expr="a > b', '<dtml-var expr="x', '</dtml-if "', '<dtml-in items"',
          '<dtml-if flag"', '<dtml-else "', '<dtml-var x', '</dtml-if', '<dtml-comment "', '</dtml-comment "', '</dtml-in "',
          '<dtml-var x"\'', '<dtml-call "x', '<dtml-var name="x" "', '<dtml-"""'],
    'S': ['<!--#var x ', '<!--#if flag', '<!--#/if', '<!--#end in ', '<!--#else', '<!--#comment', '<!--#var "x" --'],
    'P': ['%(x', '%(if flag', '%(x fmt="a', '%(/if', '%(x y'],
}
ALL_CANDS = [(k, f) for k in 'LQSP' for f in CANDS[k]]


def mark(kind, frag):
    return M0 + kind + frag + M1


def unmark(text):
    return MARK_RE.sub(lambda m: m.group(2), text)


def unmark_tree(x):
    if isinstance(x, str):
        return unmark(x)
    if isinstance(x, (list, tuple)):
        return type(x)(unmark_tree(y) for y in x)
    return x


def split_marks(msrc):
    """marked source -> (source, [(position, kind, fragment)])"""
    out, cands, n, i = [], [], 0, 0
    for m in MARK_RE.finditer(msrc):
        piece = msrc[i:m.start()]
        out.append(piece)
        n += len(piece)
        cands.append((n, m.group(1), m.group(2)))
        out.append(m.group(2))
        n += len(m.group(2))
        i = m.end()
    out.append(msrc[i:])
    return ''.join(out), cands


def open_to_end(src, n):
    """the documented terminator of a <dtml-…> tag is the first '>' outside double quotes: none behind n?"""
    quotes = 0
    for ch in src[n:]:
        if ch == '"':
            quotes += 1
        elif ch == '>' and quotes % 2 == 0:
            return False
    return True


def cand_is_text(kind, src, cand):
    """is the candidate (position, kind, fragment) plain text of `src` for class `kind` ('html' | 'epfs')?  Decided from
    the syntax rules alone."""
    p, k, frag = cand
    if k == 'L':
        return True
    if k == 'Q':
        return kind != 'html' or open_to_end(src, p + (7 if frag.startswith('</') else 6))
    if k == 'S':
        return kind != 'html' or src.find('-->', p + 5) < 0
    if k == 'P':
        return kind != 'epfs' or src.find(')', p + 2) < 0
    raise ValueError(k)


def cands_are_text(kind, src, cands):
    return all(cand_is_text(kind, src, c) for c in cands)


def lit_ok(t):
    """outside the marked candidates the text holds no tag opener (candidates begin with a complete opener and end in a
    character that begins none, so no opener straddles a mark)"""
    return all(tmplgen.inert(p) for p in MARK_RE.sub('\0', t).split('\0'))


def gen_cand(r):
    k = r.choice('LLLLQQQQSP')
    return mark(k, r.choice(CANDS[k]))


def gen_lit(r):
    if r.random() < 0.14:
        return gen_cand(r)
    if r.random() < 0.35:
        # a line end (possibly after blanks) — what the skipping rule is about
        return r.choice(['\n', ' \n', '\t\n', '  \n', '\n\n', ' \n x', '\r\n', ' \r\n', '\n ', ' x\n', '\r', '\x0b\n', '\xa0\n'])
    return tmplgen.gen_lit(r)


def merge_lits(nodes):
    merged = []
    for n in nodes:
        if n[0] == 'lit' and merged and merged[-1][0] == 'lit':
            merged[-1] = ('lit', merged[-1][1] + n[1])
        else:
            merged.append(n)
    return merged


def gen_body(r, depth, width=3):
    out = []
    for _ in range(r.randint(0, width)):
        t = gen_lit(r)
        if t and lit_ok(t):
            out.append(('lit', t))
        out.append(gen_node(r, depth))
    t = gen_lit(r)
    if t and lit_ok(t):
        out.append(('lit', t))
    # merge adjacent literals (the generator's notion of "one literal" must match the source)
    return [n for n in merge_lits(out) if n[0] != 'lit' or lit_ok(n[1])]


def gen_node(r, depth):
    kinds = ['var', 'var', 'call', 'comment']
    if depth > 0:
        kinds += ['if', 'if', 'unless', 'in', 'in', 'with', 'let', 'try', 'tryfin']
    k = r.choice(kinds)
    if k == 'var':
        return ('var', ('name', r.choice(['x', 'y', 'z'])), [])
    if k == 'call':
        return ('call', ('name', 'x'))
    if k == 'comment':
        t = gen_lit(r)
        return ('comment', [('lit', t if t and lit_ok(t) else 'c')])
    if k == 'if':
        conds = [(('name', r.choice(['flag', 'n1'])), gen_body(r, depth - 1, 2)) for _ in range(r.randint(1, 3))]
        els = gen_body(r, depth - 1, 2) if r.random() < 0.5 else None
        return ('if', conds, els)
    if k == 'unless':
        return ('unless', ('name', r.choice(['flag', 'n1'])), gen_body(r, depth - 1, 2))
    if k == 'in':
        els = gen_body(r, depth - 1, 1) if r.random() < 0.4 else None
        seq = r.choice(['items', 'items', 'none'])
        opts = []
        if seq == 'items' and r.random() < 0.45:
            opts = r.choice([[('size', '2'), ('start', '1')], [('size', '1'), ('start', '1'), ('next', None)],
                             [('size', '3'), ('start', '1'), ('previous', None)], [('size', '1'), ('start', '2'), ('previous', None)],
                             [('size', '1'), ('start', '2'), ('next', None)], [('size', '1'), ('start', '2')], [('reverse', None)]])
        return ('in', ('name', seq), opts, gen_body(r, depth - 1, 2), els)
    if k == 'with':
        return ('with', ('name', 'obj'), [], gen_body(r, depth - 1, 2))
    if k == 'let':
        return ('let', [('v0', 'x', False)], gen_body(r, depth - 1, 2))
    if k == 'try':
        els = gen_body(r, depth - 1, 1) if r.random() < 0.4 else None
        return ('try', gen_body(r, depth - 1, 2), [(r.choice(['KeyError', '']), gen_body(r, depth - 1, 1))], els, None)
    return ('try', gen_body(r, depth - 1, 2), [], None, gen_body(r, depth - 1, 1))


TRUTH = {'flag': True, 'n1': False}
SEQLEN = {'items': 2, 'none': 0}


def adjust(nodes, st):
    """static pass in source order: the literal directly after a block open / continuation / close tag loses one line end"""
    out = []
    for n in nodes:
        k = n[0]
        if k == 'lit':
            out.append(('lit', skip_eol(n[1]) if st['ab'] else n[1]))
            st['ab'] = False
        elif k in ('var', 'call', 'return'):
            out.append(n)
            st['ab'] = False
        elif k == 'comment':
            st['ab'] = True
            adjust(n[1], st)
            st['ab'] = True
            out.append(('comment', []))
        elif k == 'if':
            conds = []
            for t, body in n[1]:
                st['ab'] = True
                conds.append((t, adjust(body, st)))
            els = None
            if n[2] is not None:
                st['ab'] = True
                els = adjust(n[2], st)
            st['ab'] = True
            out.append(('if', conds, els))
        elif k in ('unless', 'with', 'let'):
            st['ab'] = True
            body = adjust(n[-1], st)
            st['ab'] = True
            out.append(n[:-1] + (body,))
        elif k == 'in':
            st['ab'] = True
            body = adjust(n[3], st)
            els = None
            if n[4] is not None:
                st['ab'] = True
                els = adjust(n[4], st)
            st['ab'] = True
            out.append(('in', n[1], n[2], body, els))
        elif k == 'try':
            st['ab'] = True
            body = adjust(n[1], st)
            hs = []
            for names, hb in n[2]:
                st['ab'] = True
                hs.append((names, adjust(hb, st)))
            els = fin = None
            if n[3] is not None:
                st['ab'] = True
                els = adjust(n[3], st)
            if n[4] is not None:
                st['ab'] = True
                fin = adjust(n[4], st)
            st['ab'] = True
            out.append(('try', body, hs, els, fin))
        else:
            raise ValueError(k)
    return out


def evaluate(nodes):
    out = []
    for n in nodes:
        k = n[0]
        if k == 'lit':
            out.append(n[1])
        elif k == 'var':
            out.append(SENT[n[1][1]])
        elif k in ('call', 'comment'):
            pass
        elif k == 'if':
            for t, body in n[1]:
                if TRUTH[t[1]]:
                    out.append(evaluate(body))
                    break
            else:
                if n[2] is not None:
                    out.append(evaluate(n[2]))
        elif k == 'unless':
            if not TRUTH[n[1][1]]:
                out.append(evaluate(n[2]))
        elif k == 'in':
            cnt = SEQLEN[n[1][1]]
            o = dict(n[2])
            if cnt and ('previous' in o or 'next' in o):
                # the body is rendered once if there is a previous / next batch, otherwise the else body
                start, size = int(o['start']), int(o['size'])
                exists = (start > 1) if 'previous' in o else (start + size - 1 < cnt)
                if exists:
                    out.append(evaluate(n[3]))
                elif n[4] is not None:
                    out.append(evaluate(n[4]))
            elif cnt:
                if 'size' in o:
                    cnt = max(0, min(cnt, int(o['start']) - 1 + int(o['size'])) - (int(o['start']) - 1))
                out.append(evaluate(n[3]) * cnt)
            elif n[4] is not None:
                out.append(evaluate(n[4]))
        elif k in ('with', 'let'):
            out.append(evaluate(n[-1]))
        elif k == 'try':
            out.append(evaluate(n[1]))
            if n[3] is not None:
                out.append(evaluate(n[3]))
            if n[4] is not None:
                out.append(evaluate(n[4]))
        else:
            raise ValueError(k)
    return ''.join(out)


def expected(tmpl):
    return evaluate(adjust(unmark_tree(tmpl), {'ab': False}))


class O:
    def __init__(self, i):
        self.i = i


def namespace():
    ns = dict(SENT)
    ns.update(flag=1, n1=0, items=[O(1), O(2)], none=[], obj=O(3))
    return ns


def outcome(fn):
    try:
        return {'ok': fn()}
    except Exception as e:  # noqa
        return {'raise': '%s: %s' % (type(e).__name__, str(e)[:200])}


def render(kind, src):
    from DocumentTemplate import HTML, String
    cls = HTML if kind == 'html' else String
    ns = namespace()
    return outcome(lambda: cls(src)(**ns))


def last_is_block(tmpl):
    return bool(tmpl) and tmpl[-1][0] not in ('lit', 'var', 'call', 'return')


def junction_inert(sa, sb):
    j = sa[-8:] + sb[:8]
    # no tag opener may start in a and end in b
    for o in tmplgen.OPENERS:
        p = j.find(o)
        while p >= 0:
            if p < len(sa[-8:]) < p + len(o):
                return False
            p = j.find(o, p + 1)
    return True


def printed(tmpl, syn, r):
    """(class kind, source, candidates) of the marked abstract template"""
    kind, msrc = tmplgen.render_source(tmpl, syn, r)
    src, cands = split_marks(msrc)
    return kind, src, cands


# --------------------------------------------------------------------------- tag-free sources

PLAIN = ['<', '<d', '<dtml', '<!--', '<!-', '&dt', '&dtml', '&', '%', '% (', ';', '>', '-->', '--', '"', "'", '\n', ' \n',
         '  ', '\t\n', ' ', 'ſ', 'K', 'text', 'Hello', 'a=b', '/', ']', ')', '(', '[', '!', '1', 'é', '\U0001F600', '<b>',
         '</b>', '&amp;', 'end', '\r\n', '<dtml', '</dtml', '&dtml', '<!-', 'dtml-var x>', '%%', '%s', '% (x)s', '(x)s']


def gen_plain(r):
    """tag-free text (marked: it may hold candidates that are not tags)"""
    for _ in range(20):
        parts = [r.choice(PLAIN) for _ in range(r.randint(0, 12))]
        if r.random() < 0.3:
            for _ in range(r.randint(1, 2)):
                parts.insert(r.randint(0, len(parts)), gen_cand(r))
        t = ''.join(parts)
        if lit_ok(t):
            return t
    return 'plain'


def text_only_for(kind, msrc):
    """the (marked) source holds no tag of class `kind`: only marked candidates that are text there and text without
    an opener of that class"""
    src, cands = split_marks(msrc)
    rest = MARK_RE.sub('\0', msrc)
    openers = ['%('] if kind == 'epfs' else [o for o in tmplgen.OPENERS if o != '%(']
    return not any(o in rest for o in openers) and cands_are_text(kind, src, cands)


# --------------------------------------------------------------------------- the check

def compile_corr(res, cases, have_driver):
    """token streams and compiled trees of the model vs the real parser"""
    if not have_driver:
        return
    resp = common.run_driver([{'op': 'compile', 'syntax': k, 'src': s} for k, s in cases])
    toks = common.run_driver([{'op': 'tokens', 'syntax': k, 'src': s} for k, s in cases])
    for (kind, src), rp, tp in zip(cases, resp, toks):
        rr = parselib.compile_real(kind, src)
        if rr['status'] in ('timeout', 'recursion', 'other'):
            continue
        res.corr_checked += 1
        m = rp.get('ok')
        if m is None:
            res.harness_errors.append('driver: %r' % (rp,))
            return
        impl_ok = rr['status'] == 'ok'
        model_ok = m['status'] == 'ok' and all(parselib.expr_ok(s) for s, _ in m['exprs'])
        if impl_ok != model_ok:
            res.corr_mismatch.append({'case': {'syntax': kind, 'src': src}, 'impl': rr['status'], 'model': m['status'],
                                      'diff': 'acceptance'})
        elif impl_ok:
            a = parselib.norm(rr['blocks'])
            b = parselib.norm_model(m['tree'])
            if a != b:
                res.corr_mismatch.append({'case': {'syntax': kind, 'src': src}, 'impl': a, 'model': b,
                                          'diff': 'compiled tree (literal nodes included)'})
        try:
            real = scanlib.real_tokens(kind, src)
        except Exception as e:  # noqa
            res.oracle_fail.append({'case': {'syntax': kind, 'src': src}, 'what': 'scanner raised %r' % (e,)})
            continue
        if tp.get('ok') != real:
            res.corr_mismatch.append({'case': {'syntax': kind, 'src': src}, 'impl': real, 'model': tp.get('ok'),
                                      'diff': 'tokens'})


def check_template(res, r, t, corr_cases, label='tmpl'):
    """the marked abstract template in the three syntaxes against the independent printer"""
    exp = expected(t)
    for syn in ('dtml', 'ssi', 'epfs'):
        kind, src, cands = printed(t, syn, r)
        if not cands_are_text(kind, src, cands):
            # later text terminates a named candidate: by the syntax rules it IS a tag (spanning the text in between)
            res.count(label + '_excluded_candidate_terminated')
            continue
        got = render(kind, src)
        res.evaluations += 1
        res.count('syntax=' + syn)
        if cands:
            res.count(label + '_with_candidates')
            for c in cands:
                if c[1] != 'L' and (kind == 'html') == (c[1] in 'QS'):
                    res.count('open_candidate_%s_%s' % (c[1], 'before_a_tag' if has_opener_behind(kind, src, c) else 'in_tail'))
        if '\n' in src or cands:
            res.nt((syn, src))
        if got != {'ok': exp}:
            res.oracle_fail.append({'case': {'syntax': syn, 'src': src},
                                    'what': 'expected %r (literals verbatim incl. tag candidates that are no tags, one line end '
                                            'dropped after block tags); got %r' % (exp, got)})
        corr_cases.append((kind, src))


def has_opener_behind(kind, src, cand):
    rest = src[cand[0] + len(cand[2]):]
    return any(o in rest for o in (['%('] if kind == 'epfs' else [o for o in tmplgen.OPENERS if o != '%(']))


# small templates of every tag kind put behind each candidate
BATTERY_TAGS = [
    [('var', ('name', 'x'), [])],
    [('var', ('name', 'y'), [('html_quote', None)])],           # printed as &dtml-y; now and then
    [('if', [(('name', 'flag'), [('lit', '\n  yes <b>\n')])], [('lit', '\n  no\n')]), ('lit', '\nend\n')],
    [('if', [(('name', 'n1'), [('lit', 'no')]), (('name', 'flag'), [('lit', 'elif')])], [('lit', 'else')])],
    [('in', ('name', 'items'), [], [('lit', '['), ('var', ('name', 'z'), []), ('lit', ']')], None), ('lit', '.\n')],
    [('comment', [('lit', 'hidden')]), ('lit', 'shown\n')],
    [('unless', ('name', 'n1'), [('lit', 'u')])],
    [('with', ('name', 'obj'), [], [('var', ('name', 'x'), [])])],
    [('let', [('v0', 'x', False)], [('lit', 'l')])],
    [('try', [('lit', 't')], [('', [('lit', 'h')])], [('lit', 'e')], None)],
    [('call', ('name', 'x')), ('lit', 'called')],
]


def battery(res, r, corr_cases, stride=1):
    """every candidate in front of every kind of tag, at top level and inside block bodies"""
    i = 0
    for k, frag in ALL_CANDS:
        for tags in BATTERY_TAGS:
            i += 1
            if i % stride:
                continue
            for ctx in ('top', 'in', 'if', 'else', 'two'):
                lit = ('lit', r.choice(['', 'A ', '"a" ', '\n']) + mark(k, frag) + r.choice(['', ' B\n', ' ', ';', '\n']))
                body = [lit] + tags + [('lit', ' tail')]
                if ctx == 'two':
                    k2, f2 = r.choice(ALL_CANDS)
                    body = [('lit', mark(k2, f2) + ' ')] + body
                if not all(n[0] != 'lit' or lit_ok(n[1]) for n in merge_lits(body)):
                    continue
                body = merge_lits(body)
                if ctx == 'in':
                    t = [('in', ('name', 'items'), [], body, None)]
                elif ctx == 'if':
                    t = [('lit', 'p'), ('if', [(('name', 'flag'), body)], [('lit', 'not this')])]
                elif ctx == 'else':
                    t = [('if', [(('name', 'n1'), [('lit', 'not this')])], body), ('lit', 'q')]
                else:
                    t = body
                check_template(res, r, t, corr_cases, 'battery')


# --------------------------------------------------------------------------- histories: the CURRENT source is rendered

def nl_tree(x):
    """what reading a text file does to the source (universal newlines): CR LF and CR become LF"""
    if isinstance(x, str):
        return x.replace('\r\n', '\n').replace('\r', '\n')
    if isinstance(x, (list, tuple)):
        return type(x)(nl_tree(y) for y in x)
    return x


class Version:
    """one source text with its independently computed rendering"""

    def __init__(self, kind, msrc, exp):
        self.kind = kind
        self.msrc = msrc
        self.src, self.cands = split_marks(msrc)
        self.exp = exp


def draw_version(r, pool, syn, filemode):
    for _ in range(12):
        c = r.random()
        if c < 0.2:
            t = [('lit', gen_plain(r))]
            if not t[0][1]:
                continue
        elif c < 0.45:
            # the concatenation of two templates, as one abstract template (the printer applies the line-end rule at the joint)
            t = merge_lits(list(r.choice(pool)) + list(r.choice(pool)))
            if not all(n[0] != 'lit' or lit_ok(n[1]) for n in t):
                continue
        else:
            t = r.choice(pool)
        if filemode:
            t = nl_tree(t)
        kind, msrc = tmplgen.render_source(t, syn, r)
        v = Version(kind, msrc, expected(t))
        if v.src and cands_are_text(kind, v.src, v.cands):
            return v
    return None


def write_file(path, text):
    with open(path, 'w', newline='') as f:     # no newline translation: the file holds exactly `text`
        f.write(text)


def run_histories(res, r, n, pool):
    from DocumentTemplate import HTML, String, File, HTMLFile
    tmp = tempfile.mkdtemp(prefix='c01hist')
    try:
        for h in range(n):
            syn = r.choice(['dtml', 'ssi', 'epfs'])
            filemode = r.random() < 0.6
            vs = [draw_version(r, pool, syn, filemode) for _ in range(5)]
            if any(v is None for v in vs):
                res.count('history_skipped')
                continue
            log = []
            ns = namespace()
            state = {'bad': False}

            def step(what, obj, v, exp=None):
                exp = v.exp if exp is None else exp
                log.append(what)
                got = outcome(lambda: obj(**ns))
                res.evaluations += 1
                res.count('history_step')
                res.count('history: ' + what.split(' [')[0])
                if got != {'ok': exp} and not state['bad']:
                    state['bad'] = True
                    res.oracle_fail.append({
                        'case': {'syntax': syn, 'class': type(obj).__name__, 'history': list(log),
                                 'sources': [x.src for x in vs], 'current_source': v.src},
                        'what': 'after %r the template rendered %r; its current source renders to %r (independent printer)'
                                % (what, got, exp)})

            html = syn != 'epfs'
            res.nt(('history', syn, filemode, vs[0].src[:30], vs[1].src[:30]))
            try:
                if not filemode:
                    cls, other, okind = (HTML, String, 'epfs') if html else (String, HTML, 'html')
                    res.count('history_string_class')
                    o = cls(vs[0].src)
                    step('new %s(v0)' % cls.__name__, o, vs[0])
                    step('render again', o, vs[0])
                    o.munge(vs[1].src)
                    step('munge(v1)', o, vs[1])
                    o.manage_edit(vs[2].src)
                    step('manage_edit(v2)', o, vs[2])
                    o.cook()
                    step('cook() again', o, vs[2])
                    step('another new object on v0, compiled before', cls(vs[0].src), vs[0])
                    step('another new object on v1, compiled before', cls(vs[1].src), vs[1])
                    o.munge(vs[0].src)
                    step('munge(v0): back to the first source', o, vs[0])
                    for i in (0, 3):
                        if text_only_for(okind, vs[i].msrc):
                            step('the other class on v%d: its tags are plain text there' % i, other(vs[i].src), vs[i], vs[i].src)
                    o.raw = vs[4].src      # the documented way before munge existed: assign, then cook
                    o.cook()
                    step('raw = v4; cook()', o, vs[4])
                else:
                    cls, other, okind = (HTMLFile, File, 'epfs') if html else (File, HTMLFile, 'html')
                    res.count('history_file_class')
                    path = os.path.join(tmp, 'h%d.dtml' % h)
                    write_file(path, vs[0].src)
                    f = cls(path)
                    step('new %s(path), file holds v0' % cls.__name__, f, vs[0])
                    step('render again', f, vs[0])
                    write_file(path, vs[1].src)
                    step('file rewritten with v1; new object on the same path', cls(path), vs[1])
                    f.cook()
                    step('first object, cook() after the rewrite', f, vs[1])
                    write_file(path, vs[2].src)
                    g = pickle.loads(pickle.dumps(f))
                    step('file rewritten with v2; first object pickled and loaded (re-reads the file)', g, vs[2])
                    if text_only_for(okind, vs[2].msrc):
                        step('the other file class on the same path: v2 holds no tag of its syntax', other(path), vs[2], vs[2].src)
                    f.edited_source = vs[3].src
                    f.cook()
                    step('edited_source = v3; cook()', f, vs[3])
                    if html:
                        f.manage_edit(vs[4].src)          # edited already: edits in place
                        step('manage_edit(v4) of the edited template', f, vs[4])
                        f.manage_default()
                    else:
                        f.edited_source = ''
                        f.cook()
                    step('reverted to the file (v2)', f, vs[2])
                    path2 = os.path.join(tmp, 'h%d-copy.dtml' % h)
                    write_file(path2, vs[0].src)
                    step('another file holding v0 again', cls(path2), vs[0])
            except UnicodeEncodeError:
                res.count('history_skipped_unencodable')
            except Exception as e:  # noqa
                if not state['bad']:
                    res.oracle_fail.append({'case': {'syntax': syn, 'history': list(log), 'sources': [x.src for x in vs]},
                                            'what': 'operation after %r raised %s: %s' % (log[-1:] or ['start'], type(e).__name__, e)})
    finally:
        shutil.rmtree(tmp, ignore_errors=True)


def run_checks(res, r, n_tmpl, n_plain, n_pairs, have_driver, n_hist=0, battery_stride=1):
    corr_cases = []
    tmpls = []
    for _ in range(n_tmpl):
        t = gen_body(r, r.choice([1, 2, 3, 3]), 3)
        tmpls.append(t)
        check_template(res, r, t, corr_cases)
    battery(res, r, corr_cases, battery_stride)
    # tag-free sources render to themselves
    for _ in range(n_plain):
        t, cands = split_marks(gen_plain(r))
        for kind in ('html', 'epfs'):
            if not cands_are_text(kind, t, cands):
                res.count('tagfree_excluded_candidate_terminated')
                continue
            got = render(kind, t)
            res.evaluations += 1
            res.count('tagfree')
            if cands:
                res.count('tagfree_with_candidates')
            if any(c in t for c in '<&%'):
                res.nt(('plain', kind, t))
            if got != {'ok': t}:
                res.oracle_fail.append({'case': {'syntax': kind, 'src': t},
                                        'what': 'a source without tags rendered to %r instead of itself' % (got,)})
            corr_cases.append((kind, t))
    # rendering composes
    for _ in range(n_pairs):
        a, b = r.choice(tmpls), r.choice(tmpls)
        syn = r.choice(['dtml', 'ssi', 'epfs'])
        kind, sa, ca = printed(a, syn, r)
        _, sb, cb = printed(b, syn, r)
        if not junction_inert(sa, sb):
            res.count('pair_excluded_junction_tag')
            continue
        # a candidate of a (or b) that text of b terminates is a tag spanning the junction: all must stay text in a, b and a+b
        cab = ca + [(p + len(sa), k, f) for p, k, f in cb]
        if not (cands_are_text(kind, sa, ca) and cands_are_text(kind, sb, cb) and cands_are_text(kind, sa + sb, cab)):
            res.count('pair_excluded_candidate_terminated')
            continue
        # the documented exception: the junction forms a line end (blanks + newline) directly after a block tag of a
        ua = unmark_tree(a)
        trail = None
        if last_is_block(ua):
            trail = ''
        elif len(ua) >= 2 and ua[-1][0] == 'lit' and not ua[-1][1].strip(' \t') and last_is_block(ua[:-1]):
            trail = ua[-1][1]
        if trail is not None and skip_eol(trail + sb) != trail + sb:
            res.count('pair_excluded_line_end_after_block_tag')
            continue
        ra, rb, rab = render(kind, sa), render(kind, sb), render(kind, sa + sb)
        res.evaluations += 1
        res.count('pair')
        if cab:
            res.count('pair_with_candidates')
        res.nt(('pair', syn, sa[-20:], sb[:20]))
        if 'ok' in ra and 'ok' in rb and rab != {'ok': ra['ok'] + rb['ok']}:
            res.oracle_fail.append({'case': {'syntax': syn, 'a': sa, 'b': sb},
                                    'what': 'render(a+b) = %r but render(a)+render(b) = %r' % (rab, ra['ok'] + rb['ok'])})
        corr_cases.append((kind, sa + sb))
    # historical: give-up candidates in a (fixed: C01-scanner-giveup)
    for sa, sb in (('<dtml- ', '&dtml-x;'), ('<!--#var y ', '<dtml-var x>'), ('<dtml-1>', '&dtml-x;'), ('</dtml- ', '&dtml-x;'),
                   ('a<dtml-', 'b&dtml-x;'), ('a <dtml-', '<dtml-var x> b'), ('<dtml- 1 ', '&dtml-x; >'), ('<!--#1 ', '<dtml-var x> -->'),
                   ('</dtml- ', '<dtml-var x>'), ('<!--# 2', '&dtml-x; <!--#var y-->'), ('<dtml-.', '<dtml-if x>A</dtml-if>>')):
        ra, rb, rab = render('html', sa), render('html', sb), render('html', sa + sb)
        res.evaluations += 1
        res.nt(('giveup', sa))
        if 'ok' in ra and 'ok' in rb and rab != {'ok': ra['ok'] + rb['ok']}:
            res.oracle_fail.append({'case': {'syntax': 'html', 'a': sa, 'b': sb},
                                    'what': 'render(a+b) = %r but render(a)+render(b) = %r' % (rab, ra['ok'] + rb['ok'])})
        corr_cases.append(('html', sa + sb))
    # object histories
    run_histories(res, r, n_hist, tmpls)
    compile_corr(res, corr_cases, have_driver)


def run(res, tier, have_driver):
    r = common.rng('C01')
    res.rule = ('abstract templates (all block tags, nesting <= 3, literals from a near-tag alphabet incl. line ends after '
                'blanks, CR LF, VT/NBSP before LF) printed in dtml / SSI / EPFS syntax and rendered with sentinel values: output '
                '== independent printer; literals also hold tag candidates that are no tags (nameless, malformed entities, %( '
                'without name / format, and named candidates never terminated: unbalanced double quote before every later ">", '
                'no "-->", no ")"), their being text decided on the final source by the syntax rules (cases where later text '
                'terminates one are excluded and counted); battery: each of the candidates x 11 tag kinds x {top level, in body, '
                'if body, else body, behind another candidate} x 3 syntaxes; tag-free sources (with such candidates) render to '
                'themselves (HTML and String classes); render(a+b) == render(a)+render(b) for random pairs (junction-spanning '
                'tags and the documented line-end case excluded); histories: one object edited by munge / manage_edit / raw + '
                'cook, sources compiled before compiled again by new objects and by the other class (other syntax = text), '
                'File / HTMLFile on a file that is rewritten (new object on the same path, cook, unpickle), edited_source, '
                'HTMLFile.manage_edit, manage_default, the other file class on the same path, concatenated sources: every '
                'rendering == independent printer on the CURRENT source; non-trivial = sources containing a newline / '
                'candidate / near-tag character / pair junctions / histories')
    if tier == 'quick':
        run_checks(res, r, 400, 1500, 2000, have_driver, 250)
    else:
        run_checks(res, r, 6000, 30000, 20000, have_driver, 4000)
    res.sample({'example': 'see input_distribution'})
    res.assumptions += ['the hand-compiled scanners are validated against CPython re by the token correspondence, not proved '
                        'equivalent', 'rendering of the tags used by the oracle (sentinel var, fixed-truth if/unless, fixed-length '
                        'in, with, let, non-raising try) is taken from their documented meaning',
                        'a file template reads its file in text mode: CR LF / CR in the file arrive as LF (the oracle applies the '
                        'same translation to the abstract template before printing it)']
    res.partial.append('render_concat is checked by the oracle; the Lean side proves literal preservation through scanner and '
                       'builder (tokens_lossless, compile_literals, skipEol_spec) and in-order verbatim emission by the '
                       'interpreter (lit_verbatim, blocks_in_order), not yet their composition over a+b')
    res.partial.append('template object histories (edits, file templates, compiled forms of earlier sources) are decided by the '
                       'oracle only; the Lean model has no notion of a template object for this property')


def search_more(res, tier):
    r = common.rng('C01-more')
    res2 = common.Result('C01')
    run_checks(res2, r, 3000, 10000, 10000, False, 1500)
    return res2.oracle_fail


def replay(path):
    with open(path) as f:
        d = json.load(f)
    print(json.dumps(d.get('first', d), indent=1, ensure_ascii=False)[:3000])
    return 1
