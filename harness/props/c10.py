"""C10 — dtml-in visits each element once, in order, with correct sequence variables.

Generator: sequences of length 0..7 of objects / mappings / 2-tuples / strings / numbers, given as list, tuple, iterator,
generator or a lazy sequence object, rendered with combinations of mapping / no_push_item / prefix / sort / reverse /
batch (size, start); the body prints one line per iteration listing every documented variable that applies to the item
kind; probes after the end tag show that nothing the tag bound is still visible; an else body marks empty sequences.
Oracle: the documented values computed independently from the element positions.
Second generator (`histories`): compiled documents of several dtml-in tags over one name (some nested over the same
sequence), rendered repeatedly over data sets the caller keeps (same document + same data again, same document + other
data, renderings after a failed rendering), with the remaining option spellings (sort keys with /cmp/desc and two keys,
sort_expr, reverse_expr, every combination of start / end / size / orphan / overlap as literals or variables, inside and
beyond the sequence) and x values that are equal but print differently; every rendering is compared with the documented
text and the caller's sequences must be left as they were.
Correspondence: the unbatched, unsorted subset over lists / tuples on the Lean interpreter model (op "render").
Round 7 widening.  (a) SEQUENCE ADAPTATION: the sequence may be anything `sequence_ensure_subscription` has to adapt or pass
through: one-shot iterators of every PEP 424 behaviour (no hint, exact hint, upper bound of a filtering stream, lower bound,
half, always 0, too large, NotImplemented, TypeError), builtin iterator objects (filter / map / chain / islice / reversed /
an iterator handed over mid-stream), re-iterable objects with only __iter__, with __iter__ + __len__ (dict views), with
only __getitem__ (legacy protocol), deque / UserList; a deterministic sweep container x item kind x length x option set
runs in both tiers (small option set in quick, all in thorough).  (b) ELEMENT NAMES: elements carry attributes / keys
whose names are drawn from every class of name the tag grammar lets a template write (identifiers, names with '-', with
'.', ':', leading digits, non-ASCII, keywords, names that merely look like sequence variables), present on some elements
only, with falsy values, with and without an outer variable of the same name; objects serve them from the instance
dict, from __getattr__, from the class or from properties.  Oracle: pushed element answers, else the enclosing namespace,
else the `missing` text; after the end tag the outer value (or nothing) again.  The plain subset of (b) is inside the
Lean model (InstanceDict lookup is by arbitrary key) and goes through the correspondence.
Round 7b.  (c) ELEMENT SHAPES (`element_shapes`): elements that are or merely resemble pairs (tuples of every length, namedtuple
rows, tuple / list / str subclasses, bytes, dicts, sized objects of length two), alone and mixed; "the element" must be one
and the same object for sequence-item, <prefix>_item, expressions and attribute lookup.  Outside the Lean model (it has one
tuple type), decided by the independent oracle only.
"""
import collections
import itertools
import json

import common
import interp
import proggen

FIXED = ['index', 'number', 'letter', 'Letter', 'roman', 'Roman', 'even', 'odd', 'start', 'end', 'length']


def to_roman(n):
    out = ''
    for v, s in ((1000, 'M'), (900, 'CM'), (500, 'D'), (400, 'CD'), (100, 'C'), (90, 'XC'), (50, 'L'), (40, 'XL'),
                 (10, 'X'), (9, 'IX'), (5, 'V'), (4, 'IV'), (1, 'I')):
        while n >= v:
            out += s
            n -= v
    return out


def body_blocks(kind, opts):
    """the per-iteration line for this item kind"""
    def v(n, missing=None):
        return ['var', ['n', n], False, missing, None]
    bs = []
    for f in FIXED:
        bs += [v('sequence-' + f), ['lit', '|']]
    if kind in ('obj', 'str', 'int', 'tuple', 'mixed'):
        bs += [['lit', 'item='], v('sequence-item'), ['lit', '|']]
    if kind in ('tuple', 'tuplemap'):
        bs += [['lit', 'key='], v('sequence-key'), ['lit', '|']]
    if kind in ('obj', 'map', 'tuple', 'tuplemap', 'mixedmap'):
        bs += [['lit', 'var='], v('sequence-var-x'), ['lit', '|f='], v('first-x'), ['lit', '|l='], v('last-x'), ['lit', '|']]
    bs += [['lit', 'x='], v('x', 'NOPUSH'), ['lit', '|']]
    for nm in opts.get('names') or ():
        bs += [['lit', 'n:'], v(nm, 'NOPUSH'), ['lit', '|']]
        if nm in (opts.get('outer') or {}):
            # the same name through the namespace object of an expression: _['name'] (always answered: by the element or
            # by the enclosing namespace)
            bs += [['lit', 'u:'], ['var', ['e', ['under', nm]], False, None, None], ['lit', '|']]
    if opts.get('prefix'):
        p = opts['prefix']
        for f in FIXED:
            bs += [v(p + '_' + f), ['lit', '|']]
        if kind in ('obj', 'str', 'int', 'tuple', 'mixed'):
            bs += [['lit', 'pitem='], v(p + '_item'), ['lit', '|']]
        if kind in ('tuple', 'tuplemap'):
            bs += [['lit', 'pkey='], v(p + '_key'), ['lit', '|']]
    bs.append(['lit', ';'])
    return bs


def jstr(vv):
    if isinstance(vv, dict):
        if 's' in vv:
            return vv['s']
        if 'o' in vv:
            return 'obj%d' % vv['o']
    return str(vv)


def ekind(item, kind):
    """the kind of this element: in a mixed sequence every element has its own"""
    if kind == 'mixed':
        if isinstance(item, dict):
            return 'tuple' if 't' in item else 'obj' if 'o' in item else 'str'
        return 'int'
    if kind == 'mixedmap':
        return 'tuplemap' if 't' in item else 'map'
    return kind


def attrs_of(item, kind):
    """the (name, value) pairs the element offers to the body: attributes of an object, keys of a mapping"""
    if kind == 'obj':
        return dict(item['a'])
    if kind == 'map':
        return dict(item['d'])
    if kind == 'tuple':
        return dict(item['t'][1]['a'])
    if kind == 'tuplemap':
        return dict(item['t'][1]['d'])
    return {}


def xval(item, kind):
    if kind == 'obj':
        return dict(item['a'])['x']
    if kind == 'map':
        return dict(item['d'])['x']
    if kind == 'tuple':
        return dict(item['t'][1]['a'])['x']
    if kind == 'tuplemap':
        return dict(item['t'][1]['d'])['x']
    return None


def expected(items, kind, opts, order=None, window=None):
    """documented output; `order` (displayed order as indices into items) and `window` (lo, hi: displayed positions of
    that order) override what the simple option set of the first generator says"""
    n = len(items)
    if n == 0:
        return 'EMPTY' if opts.get('else') else ''
    if order is None:
        order = list(range(n))
        if opts.get('sort'):
            order.sort(key=lambda i: jx(xval(items[i], kind)))
        if opts.get('reverse'):
            order.reverse()
    seq = [items[i] for i in order]
    lo, hi = 0, n
    if window is not None:
        lo, hi = window
    elif opts.get('size'):
        start = opts.get('start', 1)
        lo = start - 1
        hi = min(lo + opts['size'], n)
    out = []
    for i in range(lo, hi):
        it = seq[i]
        first, last = i == lo, i == hi - 1
        cells = [i, i + 1, chr(97 + i), chr(65 + i), to_roman(i + 1).lower(), to_roman(i + 1), i % 2 == 0, i % 2,
                 1 if first else 0, 1 if last else 0, n]
        line = ''.join('%s|' % c for c in cells)
        ek = ekind(it, kind)
        item = it['t'][1] if ek in ('tuple', 'tuplemap') else it
        if kind in ('obj', 'str', 'int', 'tuple', 'mixed'):
            line += 'item=%s|' % jstr(item)
        if kind in ('tuple', 'tuplemap'):
            line += 'key=%s|' % jstr(it['t'][0])
        if kind in ('obj', 'map', 'tuple', 'tuplemap', 'mixedmap'):
            x = xval(it, ek)
            f = 1 if first else (x != xval(seq[i - 1], ekind(seq[i - 1], kind)))
            la = 1 if last else (x != xval(seq[i + 1], ekind(seq[i + 1], kind)))
            line += 'var=%s|f=%s|l=%s|' % (jstr(x), f, la)
        pushed = ek in ('obj', 'map', 'tuple', 'tuplemap') and not opts.get('noPush')
        line += 'x=%s|' % (jstr(xval(it, ek)) if pushed else 'NOPUSH')
        for nm in opts.get('names') or ():
            # the element (when pushed) answers first, then the enclosing namespace, then nobody
            own = attrs_of(it, ek) if pushed else {}
            if nm in own:
                cell = jstr(own[nm])
            else:
                cell = (opts.get('outer') or {}).get(nm, 'NOPUSH')
            line += 'n:%s|' % cell
            if nm in (opts.get('outer') or {}):
                line += 'u:%s|' % cell
        if opts.get('prefix'):
            line += ''.join('%s|' % c for c in cells)
            if kind in ('obj', 'str', 'int', 'tuple', 'mixed'):
                line += 'pitem=%s|' % jstr(item)
            if kind in ('tuple', 'tuplemap'):
                line += 'pkey=%s|' % jstr(it['t'][0])
        out.append(line + ';')
    return ''.join(out)


def jx(v):
    return v['s'] if isinstance(v, dict) else v


# Names an element may offer to the body.  The tag grammar takes any run of characters other than blanks, '=' and '"' as a
# name, and getattr / mapping keys accept any string, so every class of such names is generated.  Left out: names that
# start with '_' (private by C05), names that are option names of dtml-var (finding C07-var-named-var), and names inside the
# sequence variables' own grammar (sequence-*, first-*, last-*, previous-*, next-*, <statistic>-*): there the property
# text promises both "the documented value" and "the element's attribute" and does not say which wins.
NAME_CLASSES = {
    'identifier': ['z', 'nm_1', 'Zip9', 'w'],
    'dashed': ['e-mail', 'zip-code', 'a-b-c', 'content-type', 'x-y', 'x-', 'Accept-Language'],
    'looks_like_sequence_variable': ['zip-number', 'row-key', 'my-item', 'doc-items', 'x-length', 'a-index', 'b-var-x',
                                     'seq-roman', 'sequence_item'],
    'punctuated': ['a.b', 'w:h', 'km/h', 'p+q', 'm@n'],
    'not_an_identifier': ['2nd', '9', 'class', 'None', 'gr\u00f6\u00dfe', '\u03bb'],
}
NAME_POOL = [(c, nm) for c, nms in sorted(NAME_CLASSES.items()) for nm in nms]


def draw_names(r, k=None):
    """0..2 extra names of different classes"""
    if k is None:
        k = r.choice([0, 1, 1, 2])
    return [nm for c, nm in r.sample(NAME_POOL, k)]


def name_class(nm):
    return [c for c, n in NAME_POOL if n == nm][0]


def draw_outer(r, names):
    """outer variables of the same names as (some of) the element names"""
    return {nm: 'OUT%d' % i for i, nm in enumerate(names) if r.random() < 0.45}


def extra_attrs(r, names, i):
    """the extra (name, value) pairs of element i: a name is present on most elements only; values may be falsy"""
    out = []
    for j, nm in enumerate(names):
        if r.random() < 0.8:
            out.append([nm, r.choice([{'s': 'v%d_%d' % (j, i)}, {'s': 'v%d_%d' % (j, i)}, 7 + i, 0, {'s': ''}])])
    return out


MIXED = {'mixed': ('obj', 'tuple', 'str', 'int'), 'mixedmap': ('map', 'tuplemap')}


def gen_items(r, kind, n, names=()):
    """n elements of the kind; in the kinds `mixed` (objects, (key, object) pairs, strings, numbers: no `mapping`) and
    `mixedmap` (mappings and (key, mapping) pairs: with `mapping`) every element draws its own kind"""
    items = []
    strs = r.random() < 0.4
    for i in range(n):
        x = {'s': r.choice(['a', 'b', 'b', 'c'])} if strs else r.choice([1, 2, 2, 3])
        ek = r.choice(MIXED[kind]) if kind in MIXED else kind
        if ek == 'obj':
            items.append({'o': 100 + i, 'a': [['x', x], ['y', i]] + extra_attrs(r, names, i)})
        elif ek == 'map':
            items.append({'d': [['x', x], ['y', i]] + extra_attrs(r, names, i)})
        elif ek == 'tuple':
            items.append({'t': [r.choice([{'s': 'k%d' % i}, i * 10]),
                                {'o': 100 + i, 'a': [['x', x]] + extra_attrs(r, names, i)}]})
        elif ek == 'tuplemap':
            items.append({'t': [r.choice([{'s': 'k%d' % i}, i * 10]),
                                {'d': [['x', x], ['y', i]] + extra_attrs(r, names, i)}]})
        elif ek == 'str':
            items.append({'s': r.choice(['s%d' % i, 'x', ''])})
        else:
            items.append(r.choice([0, 5, -1, i]))
    return items


def make(r, kind, n, opts):
    items = gen_items(r, kind, n, opts.get('names') or ())
    inopts = {}
    if kind in ('map', 'tuplemap', 'mixedmap'):
        inopts['mapping'] = True
    if opts.get('noPush'):
        inopts['noPush'] = True
    if opts.get('prefix'):
        inopts['prefix'] = opts['prefix']
    body = body_blocks(kind, opts)
    if opts.get('boom') is not None:
        # the body raises at element `boom`; the exception is handled OUTSIDE the loop, inside an enclosing dtml-let
        body = body + [['cond', [[['e', ['eq', ['under', 'sequence-index'], ['lit', opts['boom']]]],
                                  [['raise', 'KeyError', None, [['lit', 'm']]]]]], None]]
    loop = ['in', ['n', 'seq'], inopts, body, [['lit', 'EMPTY']] if opts.get('else') else None]
    tail = [['lit', '#'], ['var', ['n', 'sequence-item'], False, 'GONE', None],
            ['var', ['n', 'x'], False, 'GONE', None], ['var', ['n', 'sequence-index'], False, 'GONE', None]]
    # after the end tag the element names are whatever the enclosing namespace says again
    tail += [['var', ['n', nm], False, 'GONE', None] for nm in opts.get('names') or ()]
    if opts.get('boom') is not None:
        blocks = [['let', [['outerv', ['e', ['lit', 1]]]], [['try', [loop], [['', [['lit', 'CAUGHT']]]], None]] + tail],
                  ['var', ['n', 'outerv'], False, 'GONE', None]]
    else:
        blocks = [loop] + tail
    return items, blocks


def tail_expected(opts):
    return ('#GONEGONEGONE' + ''.join((opts.get('outer') or {}).get(nm, 'GONE') for nm in opts.get('names') or ())
            + ('GONE' if opts.get('boom') is not None else ''))


def source_for(blocks, opts):
    """the DTML source, with the options the JSON program form does not carry"""
    src = proggen.print_blocks(blocks)
    extra = ''
    if opts.get('sort'):
        extra += ' sort=x'
    if opts.get('reverse'):
        extra += ' reverse'
    if opts.get('size'):
        extra += ' size=%d start=%d orphan=0' % (opts['size'], opts.get('start', 1))
    return src.replace('<dtml-in seq', '<dtml-in seq' + extra, 1)


def nested_case(r):
    """two nested loops: the prefixed names of the outer loop must keep denoting the OUTER element inside an inner loop that
    has another prefix or none; a later loop must not answer names with a prefix it was not given"""
    po = r.choice(['po', 'out'])
    pi = r.choice([None, None, 'pi', 'inn'])
    n1, n2 = r.randint(1, 3), r.randint(1, 3)
    outer = gen_items(r, 'obj', n1)
    inner = [{'o': 200 + i, 'a': [['z', i]]} for i in range(n2)]
    names = r.sample(['item', 'index', 'number', 'letter', 'Letter', 'roman', 'Roman', 'even', 'odd', 'length', 'start', 'end'],
                     r.randint(2, 4))

    def v(n, missing=None):
        return ['var', ['n', n], False, missing, None]
    ibody = []
    for nm in names:
        ibody += [v(po + '_' + nm), ['lit', ',']]
        if pi:
            ibody += [v(pi + '_' + nm), ['lit', ',']]
        ibody += [v('sequence-' + nm), ['lit', ',']]
    ibody.append(['lit', ';'])
    iopts = {'prefix': pi} if pi else {}
    later = [v(po + '_' + nm, 'UNDEF') for nm in names[:2]] + [['lit', ';']]
    warm = [['in', ['n', 'seq'], {'prefix': po}, [v(po + '_' + nm) for nm in names], None]] if r.random() < 0.5 else []
    blocks = warm + [['lit', '['], ['in', ['n', 'seq'], {'prefix': po}, [['in', ['n', 'seq2'], iopts, ibody, None], ['lit', '|']], None],
              ['lit', ']'], ['in', ['n', 'seq2'], {}, later, None]]

    def cell(nm, i, n, it):
        return {'item': jstr(it), 'index': i, 'number': i + 1, 'letter': chr(97 + i), 'Letter': chr(65 + i),
                'roman': to_roman(i + 1).lower(), 'Roman': to_roman(i + 1), 'even': i % 2 == 0, 'odd': i % 2, 'length': n,
                'start': 1 if i == 0 else 0, 'end': 1 if i == n - 1 else 0}[nm]
    exp = ''
    if warm:
        for i, it in enumerate(outer):
            exp += ''.join(str(cell(nm, i, n1, it)) for nm in names)
    exp += '['
    for i, it in enumerate(outer):
        for j, jt in enumerate(inner):
            for nm in names:
                exp += '%s,' % cell(nm, i, n1, it)
                if pi:
                    exp += '%s,' % cell(nm, j, n2, jt)
                exp += '%s,' % cell(nm, j, n2, jt)
            exp += ';'
        exp += '|'
    exp += ']'
    for j in range(n2):
        exp += 'UNDEF' * len(names[:2]) + ';'
    case = {'templates': [{'blocks': blocks, 'globals': [], 'vars': [], 'source': proggen.print_blocks(blocks)}], 'main': 0,
            'clients': [], 'mapping': [], 'kw': [['seq', {'l': outer}], ['seq2', {'l': inner}]],
            'classes': proggen.class_table(), 'denied': [], 'guard': False, 'utf8': True}
    return case, exp, (po, pi, tuple(names))


class Lazy:
    """a sequence object with __getitem__ / __len__ only"""

    def __init__(self, data):
        self._d = data

    def __getitem__(self, i):
        return self._d[i]

    def __len__(self):
        return len(self._d)


class OnlyIter:
    """re-iterable, nothing else: every __iter__ starts a new pass"""

    def __init__(self, data):
        self._d = data

    def __iter__(self):
        return iter(list(self._d))


class SizedIter(OnlyIter):
    """__iter__ and a true __len__ but no subscription (what sets and dict views offer)"""

    def __len__(self):
        return len(self._d)


class OnlyGetitem:
    """the legacy sequence protocol: __getitem__ from 0 until IndexError, no __len__, no __iter__"""

    def __init__(self, data):
        self._d = data

    def __getitem__(self, i):
        if not isinstance(i, int) or i < 0:
            raise IndexError(i)
        return self._d[i]


HINT_POLICIES = ('exact', 'upper', 'lower', 'half', 'zero', 'over', 'notimpl', 'typeerror')


class HintedIter:
    """A one-shot iterator with a PEP 424 length hint ("may be inexact").  It walks over candidates of which only some
    are delivered (a filtering stream); `policy` says what it reports about the number still to come:
    exact | upper (candidates not looked at yet) | lower (1 while anything is left) | half | zero | over (2 too many) |
    notimpl (NotImplemented) | typeerror (raises TypeError, which length_hint treats like no hint)."""

    def __init__(self, data, policy):
        self._c = []
        for i, e in enumerate(data):
            self._c += [(False, None)] * (i % 2) + [(True, e)]      # a dropped candidate before every second element
        self._c.append((False, None))                               # and one at the very end
        self._pos = 0
        self._policy = policy

    def __iter__(self):
        return self

    def __next__(self):
        while self._pos < len(self._c):
            keep, e = self._c[self._pos]
            self._pos += 1
            if keep:
                return e
        raise StopIteration

    def __length_hint__(self):
        left = sum(1 for keep, e in self._c[self._pos:] if keep)
        p = self._policy
        if p == 'exact':
            return left
        if p == 'upper':
            return len(self._c) - self._pos
        if p == 'lower':
            return min(left, 1)
        if p == 'half':
            return left // 2
        if p == 'zero':
            return 0
        if p == 'over':
            return left + 2
        if p == 'notimpl':
            return NotImplemented
        raise TypeError('no hint')


_DROP = object()

# containers the caller can hand to several renderings (the object itself is kept) / one-shot iterators (re-made per rendering)
REUSABLE = ('list', 'tuple', 'lazy', 'deque', 'userlist', 'onlyiter', 'sizediter', 'onlygetitem', 'dictvalues')
ONESHOT = ('iter', 'gen', 'filter', 'map', 'chain', 'islice', 'reversed', 'midstream', 'tupleiter', 'valuesiter') + tuple(
    'hint_' + p for p in HINT_POLICIES)
PAIRS_ONLY = ('dictitems', 'itemsiter')          # 2-tuple elements with distinct hashable keys only
CONTAINERS = REUSABLE + ONESHOT


def containers_for(kind):
    return CONTAINERS + (PAIRS_ONLY if kind in ('tuple', 'tuplemap') else ())


def container(kind, data):
    data = list(data)
    if kind == 'list':
        return data
    if kind == 'tuple':
        return tuple(data)
    if kind == 'iter':
        return iter(data)
    if kind == 'gen':
        return (x for x in data)
    if kind == 'lazy':
        return Lazy(data)
    if kind == 'deque':
        return collections.deque(data)
    if kind == 'userlist':
        return collections.UserList(data)
    if kind == 'onlyiter':
        return OnlyIter(data)
    if kind == 'sizediter':
        return SizedIter(data)
    if kind == 'onlygetitem':
        return OnlyGetitem(data)
    if kind == 'dictvalues':
        return dict(enumerate(data)).values()
    if kind == 'valuesiter':
        return iter(dict(enumerate(data)).values())
    if kind == 'dictitems':
        return dict(data).items()
    if kind == 'itemsiter':
        return iter(dict(data).items())
    if kind == 'tupleiter':
        return iter(tuple(data))
    if kind == 'filter':
        mixed = []
        for i, e in enumerate(data):
            mixed += [_DROP] * (i % 2) + [e]
        return filter(lambda e: e is not _DROP, mixed + [_DROP])
    if kind == 'map':
        return map(lambda e: e, data)
    if kind == 'chain':
        return itertools.chain(data[:len(data) // 2], iter(data[len(data) // 2:]))
    if kind == 'islice':
        return itertools.islice(data + [_DROP, _DROP], len(data))
    if kind == 'reversed':
        return reversed(data[::-1])
    if kind == 'midstream':
        it = iter([_DROP] + data)                # an iterator the caller has already taken something from
        next(it)
        return it
    if kind.startswith('hint_'):
        return HintedIter(data, kind[5:])
    raise ValueError(kind)


def contents(kind, held):
    """what a reusable container holds now"""
    if kind in ('lazy', 'onlyiter', 'sizediter', 'onlygetitem'):
        return list(held._d)
    return list(held)


# how an object element serves its attributes
FLAVOURS = ('dict', 'getattr', 'class', 'property')


class _Rec:
    def __str__(self):
        return 'obj%d' % self._oid


class GetattrRec(_Rec):
    """the attributes are columns served by __getattr__ (rows of result sets; the library's own DictInstance)"""

    def __init__(self, oid, attrs):
        self.__dict__['_oid'] = oid
        self.__dict__['_cols'] = dict(attrs)

    def __getattr__(self, name):
        try:
            return self.__dict__['_cols'][name]
        except KeyError:
            raise AttributeError(name)

    def _snap(self):
        return tuple(sorted((k, repr(x)) for k, x in self._cols.items())) + tuple(sorted(
            k for k in self.__dict__ if k not in ('_oid', '_cols')))


def class_rec(oid, attrs):
    """the attributes live on the object's class, none in the instance"""
    cls = type('ClassRec', (_Rec,), dict(attrs, _oid=oid, _names=tuple(sorted(attrs)), _snap=lambda self: tuple(
        (k, repr(getattr(self, k))) for k in self._names) + tuple(sorted(self.__dict__))))
    return cls()


def property_rec(oid, attrs):
    """the attributes are computed: read-only properties"""
    d = {k: property(lambda self, v=v: v) for k, v in attrs.items()}
    cls = type('PropertyRec', (_Rec,), dict(d, _oid=oid, _names=tuple(sorted(attrs)), _snap=lambda self: tuple(
        (k, repr(getattr(self, k))) for k in self._names) + tuple(sorted(self.__dict__))))
    return cls()


def make_obj(flavour, oid, attrs):
    if flavour == 'getattr':
        return GetattrRec(oid, attrs)
    if flavour == 'class':
        return class_rec(oid, attrs)
    if flavour == 'property':
        return property_rec(oid, attrs)
    return proggen.Obj(oid, attrs)


def run_direct(src, items, cont, outer=None, flavour='dict', shared=False):
    from DocumentTemplate import HTML
    world = proggen.World()
    data = [to_py2(world, it, flavour) for it in items]
    try:
        return {'ok': (shared_template(src) if shared else HTML(src))(seq=container(cont, data), **(outer or {}))}
    except Exception as e:  # noqa
        return {'raise': type(e).__name__, 'msg': str(e)[:200]}


# ---------------------------------------------------------------------------------------------------------------------
# Second generator: HISTORIES of renderings.
#
# A history has 1..2 data sets (sequences that live as long as the history: the caller's own list / tuple / lazy sequence
# object is handed to every rendering; iterators are re-created over the same element objects), 1..3 compiled documents
# and 1..5 renderings (document, data set, per-rendering variables).  A document consists of 1..3 dtml-in tags over the
# SAME name `seq` (name form or expr="seq"), some of them nested inside an outer loop over the same sequence.  The tags
# use the option spellings the first generator does not: sort= with /cmp/desc and two keys, sort_expr (literal or a
# variable that changes from rendering to rendering), reverse / reverse_expr (true, false, variable), and every
# combination of the batch parameters start / end / size / orphan / overlap given as literals, as integer variables or as
# numeric strings, with values inside and beyond the sequence.  A rendering may fail in the body of element k (variable
# `boomat`); the history goes on afterwards.
#
# Oracle: every rendering of the history must give the documented text, computed from the element positions of the data
# set as the caller built it (never from an earlier output); afterwards the caller's sequences must hold the same
# elements in the same order with the same contents.  Where the documentation leaves one bound of a batch window open
# (default size, orphans, start beyond the sequence, end before start) that bound -- and nothing else -- is read from the
# displayed sequence-index values; everything printed for the displayed elements is still the documented value.

OBJK = ('obj', 'map', 'tuple', 'tuplemap')
TAIL = '#GONEGONEGONE'
TAIL_SRC = ('#<dtml-var sequence-item missing="GONE"><dtml-var x missing="GONE">'
            '<dtml-var sequence-index missing="GONE">')
BOOM_SRC = '<dtml-if "_[\'sequence-index\'] == boomat"><dtml-raise KeyError>m</dtml-raise></dtml-if>'
SORT_SPECS = ['x', 'x', 'y', 'x/cmp/desc', 'y/cmp/desc', 'x/cmp/asc', 'x,y']
BATCH_COMBOS = [('start', 'size'), ('size',), ('start', 'end'), ('start', 'end'), ('end',), ('start',),
                ('start', 'size', 'orphan'), ('size', 'orphan'), ('start', 'end', 'size'), ('end', 'size'),
                ('start', 'size', 'overlap'), ('start', 'end', 'orphan', 'overlap')]
LABEL_VAR = {'obj': 'sequence-item', 'str': 'sequence-item', 'int': 'sequence-item', 'tuple': 'sequence-key',
             'tuplemap': 'sequence-key', 'map': 'sequence-var-y', 'mixed': 'sequence-item', 'mixedmap': 'sequence-var-y'}
_SHARED = {}


def shared_template(src):
    """compiled documents are shared by all histories of a run: equal source = the same compiled object"""
    from DocumentTemplate import HTML
    t = _SHARED.get(src)
    if t is None:
        t = _SHARED[src] = HTML(src)
    return t


def gen_items2(r, kind, n, names=()):
    """like gen_items; every structured element has x (with ties) and y (a permutation: all distinct); x may mix values
    that are equal but print differently (1, 1.0, True)"""
    flavour = r.choice(['int', 'int', 'str', 'mixed'])
    ys = list(range(n))
    r.shuffle(ys)
    items = []
    for i in range(n):
        if flavour == 'str':
            x = {'s': r.choice(['a', 'b', 'b', 'c'])}
        elif flavour == 'mixed':
            x = r.choice([1, 1.0, True, 2, 2.0, 3])
        else:
            x = r.choice([1, 2, 2, 3])
        attrs = [['x', x], ['y', ys[i]]] + extra_attrs(r, names, i)
        key = r.choice([{'s': 'k%d' % i}, i * 10])
        ek = r.choice(MIXED[kind]) if kind in MIXED else kind
        if ek == 'obj':
            items.append({'o': 100 + i, 'a': attrs})
        elif ek == 'map':
            items.append({'d': attrs})
        elif ek == 'tuple':
            items.append({'t': [key, {'o': 100 + i, 'a': attrs}]})
        elif ek == 'tuplemap':
            items.append({'t': [key, {'d': attrs}]})
        elif ek == 'str':
            items.append({'s': r.choice(['s%d' % i, 'x', ''])})
        else:
            items.append(r.choice([0, 5, -1, i]))
    return items


def to_py2(world, v, flavour='dict'):
    if isinstance(v, float):
        return v
    if isinstance(v, dict):
        if 't' in v:
            return tuple(to_py2(world, x, flavour) for x in v['t'])
        if 'd' in v:
            return {k: to_py2(world, x, flavour) for k, x in v['d']}
        if 'o' in v:
            return make_obj(flavour, v['o'], {k: to_py2(world, x, flavour) for k, x in v['a']})
    return proggen.to_py(world, v)


def fval(item, kind, field):
    if kind == 'obj':
        return dict(item['a'])[field]
    if kind == 'map':
        return dict(item['d'])[field]
    if kind == 'tuple':
        return dict(item['t'][1]['a'])[field]
    return dict(item['t'][1]['d'])[field]


def label(item, kind):
    if kind in ('tuple', 'tuplemap'):
        return jstr(item['t'][0])
    if kind == 'map':
        return jstr(fval(item, kind, 'y'))
    if kind == 'mixedmap':
        return jstr(fval(item, ekind(item, kind), 'y'))
    if kind == 'mixed' and ekind(item, kind) == 'tuple':
        return jstr(item['t'][1])
    return jstr(item)


def display_order(items, kind, spec, rev):
    """documented order: stable sort by the named keys (a /desc key: descending, ties in sequence order), then reversed"""
    order = list(range(len(items)))
    if spec:
        fields = spec.split(',')
        if len(fields) > 1:
            order.sort(key=lambda i: tuple(jx(fval(items[i], kind, f)) for f in fields))
        else:
            parts = fields[0].split('/')
            order.sort(key=lambda i: jx(fval(items[i], kind, parts[0])), reverse=parts[-1] == 'desc' and len(parts) == 3)
    if rev:
        order.reverse()
    return order


def doc_window(n, b):
    """the displayed window (lo, hi: 0-based, half open) as far as the documentation fixes it; None = left open.
    start = number of the first element shown, end = number of the last element shown (never beyond the sequence),
    size = number of elements shown at once."""
    s, e, z, orph = b.get('start'), b.get('end'), b.get('size'), b.get('orphan') or 0
    lo = hi = None
    if s is None:
        if e is None:
            lo = 0
    elif 1 <= s <= n:
        lo = s - 1
    if e is not None:
        if s is None or (s <= n and s <= e):
            hi = min(e, n)
    elif z is not None and lo is not None and not orph:
        hi = min(lo + z, n)
    if s is None and e is not None and z is not None and not orph:
        lo = max(hi - z, 0)                 # the `size` elements that end with element number `end`
    return lo, hi


def draw_param(r, p, n, nested=False):
    n = max(n, 1)
    if p == 'start':
        if nested:
            return 1
        return r.randint(1, n) if r.random() < 0.75 else r.randint(1, n + 3)
    if p == 'end':
        return r.randint(1, n + 4)
    if p == 'size':
        return r.randint(1, n + 1)
    if p == 'orphan':
        return r.randint(0, 3)
    return r.randint(0, 2)


def gen_seg(r, kind, p_batch, nested=False):
    o = {'seqref': 'expr' if r.random() < 0.25 else 'name'}
    if r.random() < 0.25:
        o['noPush'] = True
    if r.random() < 0.4:
        o['prefix'] = r.choice(['pf', 'it'])
    if r.random() < 0.4:
        o['else'] = True
    if kind in OBJK and r.random() < 0.4:
        o['sort'] = [r.choice(['attr', 'attr', 'expr', 'var']), r.choice(SORT_SPECS)]
    if r.random() < 0.5:
        o['rev'] = r.choice(['attr', 'attr', 'expr1', 'expr0', 'var'])
    if r.random() < p_batch:
        combo = r.choice([('size',), ('start', 'end')]) if nested else r.choice(BATCH_COMBOS)
        via = r.choice(['lit', 'lit', 'var', 'strvar'])
        o['batch'] = {'params': list(combo), 'via': via,
                      'vals': {p: draw_param(r, p, 6, nested) for p in combo} if via == 'lit' else None}
    seg = {'o': o}
    if nested:
        outer = {'seqref': 'expr' if r.random() < 0.25 else 'name', 'noPush': True}
        if kind in OBJK and r.random() < 0.3:
            outer['sort'] = [r.choice(['attr', 'expr']), r.choice(SORT_SPECS)]
        if r.random() < 0.4:
            outer['rev'] = r.choice(['attr', 'expr1'])
        seg['outer'] = outer
    return seg


def in_attrs(kind, o, si):
    a = ['seq' if o.get('seqref', 'name') == 'name' else 'expr="seq"']
    if kind in ('map', 'tuplemap', 'mixedmap'):
        a.append('mapping')
    if o.get('noPush'):
        a.append('no_push_item')
    if o.get('prefix'):
        a.append('prefix=%s' % o['prefix'])
    if o.get('sort'):
        via, spec = o['sort']
        a.append({'attr': 'sort="%s"' % spec, 'expr': 'sort_expr="\'%s\'"' % spec, 'var': 'sort_expr="sk"'}[via])
    if o.get('rev'):
        a.append({'attr': 'reverse', 'expr1': 'reverse_expr="1"', 'expr0': 'reverse_expr="0"',
                  'var': 'reverse_expr="rv"'}[o['rev']])
    b = o.get('batch')
    if b:
        for p in b['params']:
            a.append('%s=%d' % (p, b['vals'][p]) if b['via'] == 'lit' else '%s=b%d_%s' % (p, si, p))
    return ' '.join(a)


def seg_src(kind, seg, si):
    o = seg['o']
    body = proggen.print_blocks(body_blocks(kind, o)) + (BOOM_SRC if o.get('boom') else '')
    loop = '<dtml-in %s>%s%s</dtml-in>' % (in_attrs(kind, o, si), body, '<dtml-else>EMPTY' if o.get('else') else '')
    if seg.get('outer'):
        loop = ('<dtml-in %s>o<dtml-var sequence-number>=<dtml-var %s>:%s/<dtml-var sequence-number>;</dtml-in>'
                % (in_attrs(kind, seg['outer'], si), LABEL_VAR[kind], loop))
    return loop + TAIL_SRC


def eff_sort(o, env):
    if not o.get('sort'):
        return None
    via, spec = o['sort']
    return env['sk'] if via == 'var' else spec


def eff_rev(o, env):
    rev = o.get('rev')
    if rev == 'var':
        return bool(env['rv'])
    return rev in ('attr', 'expr1')


def eff_batch(o, env, si):
    b = o.get('batch')
    if not b:
        return None
    if b['via'] == 'lit':
        return dict(b['vals'])
    return {p: int(env['b%d_%s' % (si, p)]) for p in b['params']}


def shown_window(got_seg):
    """first / one-past-last sequence-index the engine displayed in this segment's output (None, None if unreadable)"""
    try:
        lines = got_seg.rsplit('#', 1)[0].split(';')[:-1]
        idx = [int(ln.split('|', 1)[0]) for ln in lines]
        if not idx:
            return None, None
        return idx[0], idx[-1] + 1
    except Exception:  # noqa
        return None, None


def seg_expected(seg, si, items, kind, env, got_seg, stats):
    """('ok', text) | ('raise', class name) | ('bad', reason)"""
    o = seg['o']
    n = len(items)
    if n == 0:
        if seg.get('outer'):
            return 'ok', TAIL
        return 'ok', ('EMPTY' if o.get('else') else '') + TAIL
    order = display_order(items, kind, eff_sort(o, env), eff_rev(o, env))
    lo, hi = 0, n
    b = eff_batch(o, env, si)
    if b is not None:
        lo, hi = doc_window(n, b)
        if b.get('end') is not None and b['end'] > n:
            stats['batch_end_beyond_length'] = stats.get('batch_end_beyond_length', 0) + 1
        if b.get('start') is not None and b['start'] > n:
            stats['batch_start_beyond_length'] = stats.get('batch_start_beyond_length', 0) + 1
        if lo is None or hi is None:
            stats['window=one_bound_from_output'] = stats.get('window=one_bound_from_output', 0) + 1
            if got_seg is None:
                return 'bad', 'a non-empty sequence must be rendered'
            glo, ghi = shown_window(got_seg)
            if glo is None:
                return 'bad', 'no element of a non-empty sequence is displayed (or the output cannot be read)'
            lo = glo if lo is None else lo
            hi = ghi if hi is None else hi
            if not (0 <= lo < hi <= n):
                return 'bad', 'displayed window %r..%r contradicts the given start / end (positions %r..%r)' % (
                    glo, ghi, lo, hi)
        else:
            stats['window=documented'] = stats.get('window=documented', 0) + 1
    if o.get('boom') and lo <= env['boomat'] < hi:
        return 'raise', 'KeyError'
    inner = expected(items, kind, o, order=order, window=(lo, hi))
    if seg.get('outer'):
        oorder = display_order(items, kind, eff_sort(seg['outer'], env), eff_rev(seg['outer'], env))
        text = ''.join('o%d=%s:%s/%d;' % (i + 1, label(items[j], kind), inner, i + 1) for i, j in enumerate(oorder))
        return 'ok', text + TAIL
    return 'ok', inner + TAIL


def gen_history(r, focus):
    kind = r.choice(['obj', 'obj', 'map', 'tuple', 'tuplemap', 'str', 'int', 'mixed', 'mixedmap'])
    cont = r.choice(['list', 'list', 'list', 'tuple', 'lazy', 'iter', 'gen'])
    if r.random() < 0.3:
        cont = r.choice(containers_for(kind))
    reusable = cont in REUSABLE
    lens = [r.choice([1, 2, 3, 3, 4, 5, 7])] + [r.choice([0, 1, 2, 3, 4, 6, 8]) for _ in range(r.choice([0, 1, 1]))]
    names = draw_names(r)
    outer = draw_outer(r, names)
    flavour = r.choice(FLAVOURS) if r.random() < 0.5 else 'dict'
    datasets = [gen_items2(r, kind, n, names) for n in lens]
    docs = []
    for di in range(1 if focus == 'batch' else r.choice([1, 1, 2, 3])):
        nseg = r.choice([1, 1, 2, 2, 3]) if (reusable and focus != 'batch') else 1
        segs = [gen_seg(r, kind, 0.9 if focus == 'batch' else 0.25, nested=reusable and focus != 'batch' and r.random() < 0.25)
                for _ in range(nseg)]
        if r.random() < 0.3 and not segs[0].get('outer') and not segs[0]['o'].get('batch'):
            segs[0]['o']['boom'] = True
        for seg in segs:
            # the body of every tag also asks for (some of) the element names of this history
            seg['o']['names'] = [nm for nm in names if r.random() < 0.8]
            seg['o']['outer'] = outer
        docs.append({'segs': segs})
    steps = []
    for k in range(r.randint(1, 2) if focus == 'batch' else r.randint(2, 5)):
        if steps and r.random() < 0.45:
            ti, di = steps[-1][0], steps[-1][1]          # the same document over the same data again
        else:
            ti, di = r.randrange(len(docs)), r.randrange(len(datasets))
        n = len(datasets[di])
        env = {'sk': r.choice(SORT_SPECS), 'rv': r.choice([0, 1]), 'boomat': -1}
        if docs[ti]['segs'][0]['o'].get('boom') and n and r.random() < 0.35:
            env['boomat'] = r.randrange(n)
        for si, seg in enumerate(docs[ti]['segs']):
            b = seg['o'].get('batch')
            if b and b['via'] != 'lit':
                for p in b['params']:
                    v = draw_param(r, p, n, bool(seg.get('outer')))
                    env['b%d_%s' % (si, p)] = str(v) if b['via'] == 'strvar' else v
        steps.append([ti, di, env])
    return {'kind': kind, 'container': cont, 'datasets': datasets, 'docs': docs, 'outer': outer, 'flavour': flavour,
            'templates': ['\n'.join(seg_src(kind, seg, si) for si, seg in enumerate(d['segs'])) for d in docs],
            'steps': steps}


def snapshot(data):
    def one(v):
        if isinstance(v, tuple):
            return ('t',) + tuple(one(x) for x in v)
        if isinstance(v, dict):
            return ('d',) + tuple(sorted((k, repr(x)) for k, x in v.items()))
        if isinstance(v, proggen.Obj):
            return ('o',) + tuple(sorted((k, repr(x)) for k, x in v.__dict__.items()))
        if isinstance(v, _Rec):
            return ('r',) + v._snap()
        return repr(v)
    return [one(v) for v in data]


def run_history(h):
    """render the history on the real code; returns (outputs, what happened to the caller's data)"""
    world = proggen.World()
    pydata = [[to_py2(world, it, h.get('flavour', 'dict')) for it in items] for items in h['datasets']]
    reusable = h['container'] in REUSABLE
    held = [container(h['container'], d) if reusable else None for d in pydata]
    before = [snapshot(d) for d in pydata]
    tmpls = [shared_template(src) for src in h['templates']]
    outs = []
    for ti, di, env in h['steps']:
        seq = held[di] if reusable else container(h['container'], pydata[di])
        try:
            outs.append({'ok': tmpls[ti](seq=seq, **dict(h.get('outer') or {}, **env))})
        except Exception as e:  # noqa
            outs.append({'raise': type(e).__name__, 'msg': str(e)[:200]})
    damage = []
    for di, d in enumerate(pydata):
        if reusable:
            now = contents(h['container'], held[di])
            if len(now) != len(d) or any(a is not b for a, b in zip(now, d)):
                damage.append('data set %d: the caller\'s %s no longer holds its elements in the order the caller gave '
                              'them' % (di, h['container']))
        if snapshot(d) != before[di]:
            damage.append('data set %d: elements of the caller\'s sequence were modified' % di)
    return outs, damage


def check_history(h, outs, damage, stats):
    """list of failure descriptions"""
    bad = []
    for k, ((ti, di, env), got) in enumerate(zip(h['steps'], outs)):
        doc, items = h['docs'][ti], h['datasets'][di]
        got_segs = None
        if 'ok' in got:
            got_segs = got['ok'].split('\n')
            if len(got_segs) != len(doc['segs']):
                got_segs = None
        exp_parts, verdict = [], None
        for si, seg in enumerate(doc['segs']):
            tag, val = seg_expected(seg, si, items, h['kind'], env, got_segs[si] if got_segs else None, stats)
            if tag == 'raise':
                verdict = {'raise': val}
                break
            if tag == 'bad':
                verdict = {'bad': 'dtml-in tag %d: %s' % (si, val)}
                break
            exp_parts.append(val)
        if verdict is None:
            verdict = {'ok': '\n'.join(exp_parts)}
        if 'bad' in verdict:
            bad.append('rendering %d (document %d, data set %d, variables %r): %s; the engine gives %r' % (
                k, ti, di, env, verdict['bad'], got))
        elif 'raise' in verdict:
            if got.get('raise') != verdict['raise']:
                bad.append('rendering %d (document %d, data set %d, variables %r): the body raises %s at element %d; '
                           'the engine gives %r' % (k, ti, di, env, verdict['raise'], env['boomat'], got))
        elif got != verdict:
            bad.append('rendering %d (document %d, data set %d, variables %r): documented values give %r; the engine '
                       'gives %r' % (k, ti, di, env, verdict['ok'], got))
    return bad + damage


def seg_sig(seg):
    o = seg['o']
    b = o.get('batch')
    return (bool(seg.get('outer')), o.get('seqref'), bool(o.get('noPush')), bool(o.get('prefix')),
            tuple(o['sort']) if o.get('sort') else None, o.get('rev'),
            (tuple(b['params']), b['via']) if b else None, bool(o.get('boom')))


def histories(res, tier):
    r = common.rng('C10/histories')
    stats = {}
    plan = [('batch', 350 if tier == 'quick' else 6000), ('history', 450 if tier == 'quick' else 8000)]
    for focus, count in plan:
        for _ in range(count):
            h = gen_history(r, focus)
            outs, damage = run_history(h)
            bad = check_history(h, outs, damage, stats)
            res.evaluations += len(h['steps'])
            res.count('history_focus=' + focus)
            res.count('history_renderings', len(h['steps']))
            res.count('history_kind=' + h['kind'])
            res.count('history_container=' + h['container'])
            res.count('history_flavour=' + h['flavour'])
            for d in h['docs']:
                for seg in d['segs']:
                    for nm in seg['o']['names']:
                        res.count('history_name_class=' + name_class(nm))
            pairs = [(s[0], s[1]) for s in h['steps']]
            res.count('history_same_document_same_data_again', len(pairs) - len(set(pairs)))
            res.count('history_same_document_other_data',
                      sum(1 for t in {p[0] for p in pairs} if len({p[1] for p in pairs if p[0] == t}) > 1))
            res.count('history_failed_rendering_then_more', sum(1 for s in h['steps'][:-1] if s[2]['boomat'] >= 0))
            for d in h['docs']:
                res.count('history_tags_per_document=%d' % len(d['segs']))
                for seg in d['segs']:
                    o = seg['o']
                    if seg.get('outer'):
                        res.count('history_nested_over_same_sequence')
                    if o.get('batch'):
                        res.count('batch=' + '+'.join(o['batch']['params']))
                        res.count('batch_via=' + o['batch']['via'])
                    if o.get('sort'):
                        res.count('sort_via=' + o['sort'][0])
                    if o.get('rev'):
                        res.count('reverse_via=' + o['rev'])
            res.nt(('history', h['kind'], h['container'], len(h['steps']) > 1,
                    tuple(tuple(seg_sig(s) for s in d['segs']) for d in h['docs'])))
            if bad:
                res.oracle_fail.append({'case': {'kind': h['kind'], 'container': h['container'],
                                                 'objects serve attributes from': h['flavour'],
                                                 'outer variables': h['outer'],
                                                 'templates': h['templates'], 'datasets': h['datasets'],
                                                 'renderings (document, data set, variables)': h['steps']},
                                        'what': bad[0], 'more': bad[1:4]})
            elif len(res.samples) < 5 and len(h['steps']) > 1 and focus == 'history':
                res.sample({'templates': [t[:300] for t in h['templates']], 'datasets': [d[:2] for d in h['datasets']],
                            'container': h['container'], 'renderings': h['steps'], 'outputs': [str(x)[:200] for x in outs]})
    # replay: a wrong rendering first, a damaged caller sequence after those
    res.oracle_fail.sort(key=lambda f: 0 if f['what'].startswith(('rendering', 'documented')) else 1)
    for k, v in stats.items():
        res.count(k, v)


# ---------------------------------------------------------------------------------------------------------------------
# Third generator: ELEMENT SHAPES.
#
# "sequence-item and sequence-key are the element (2-tuples split into key and item)": the only elements that are taken
# apart are two-element tuples; every other element -- also one that merely looks like a pair (a list / str / bytes / dict /
# sized object of length two), a tuple of another length, or a record whose class derives from tuple (namedtuple rows,
# class Pair(tuple)) of any length -- is used as ONE element.  Whatever the tag regards as "the element" must be the same
# object everywhere: sequence-item, <prefix>_item, `_['sequence-item']` in an expression, and the object whose attributes
# the body sees.  The elements of this generator carry an attribute `ttl` of their own AND hold, at position 1, an inner
# object with another `ttl`, so that every mixture of the two readings shows.
#
# Oracle (plain Python, no library code): plain 2-tuples -> item = el[1]; every non-tuple and every tuple of another length
# -> item = el.  For instances of tuple SUBCLASSES of length two the property text can be read both ways (is a two-column
# namedtuple a "2-tuple"?), so both readings are computed and the output must equal one of them as a whole; and one reading
# must hold for all renderings of the run (a library that splits such rows in one place and not in another is wrong under
# either reading).  Identity is observed through a caller-supplied function `ident` (index of the object among the
# caller's elements by `is`, or in<i> for the object at position 1 of element i).

Row1 = collections.namedtuple('Row1', 'ttl')
Row2 = collections.namedtuple('Row2', 'key ttl')
Row2b = collections.namedtuple('Row2b', 'ttl other')
Row3 = collections.namedtuple('Row3', 'key ttl n')


class SubTuple(tuple):
    """a tuple subclass whose instances have attributes of their own"""


class SlotTuple(tuple):
    """a tuple subclass with a class-level attribute only"""
    __slots__ = ()
    ttl = 'slot'


class SubList(list):
    pass


class SubStr(str):
    pass


class Sized2:
    """not a sequence type at all, but len() == 2 and subscriptable"""

    def __init__(self, a, b):
        self._ab = (a, b)

    def __len__(self):
        return 2

    def __getitem__(self, i):
        return self._ab[i]


class Inner:
    def __init__(self, i):
        self.ttl = 'in%d' % i

    def __str__(self):
        return 'inner'


def _with_ttl(o, i):
    o.ttl = 'el%d' % i
    return o


# shape -> (reading, maker(i, key, inner)); reading: 'split' (plain 2-tuple), 'whole', 'either' (tuple subclass, length 2)
SHAPES = {
    'tuple2': ('split', lambda i, k, inner: (k, inner)),
    'tuple2str': ('split', lambda i, k, inner: (k, 'str%d' % i)),
    'tuple0': ('whole', lambda i, k, inner: ()),
    'tuple1': ('whole', lambda i, k, inner: (inner,)),
    'tuple3': ('whole', lambda i, k, inner: (k, inner, i)),
    'namedtuple1': ('whole', lambda i, k, inner: Row1('nt%d' % i)),
    'namedtuple2': ('either', lambda i, k, inner: Row2(k, 'nt%d' % i)),
    'namedtuple2b': ('either', lambda i, k, inner: Row2b('nt%d' % i, inner)),
    'namedtuple3': ('whole', lambda i, k, inner: Row3(k, 'nt%d' % i, i)),
    'subtuple0': ('whole', lambda i, k, inner: _with_ttl(SubTuple(()), i)),
    'subtuple1': ('whole', lambda i, k, inner: _with_ttl(SubTuple((inner,)), i)),
    'subtuple2': ('either', lambda i, k, inner: _with_ttl(SubTuple((k, inner)), i)),
    'subtuple3': ('whole', lambda i, k, inner: _with_ttl(SubTuple((k, inner, i)), i)),
    'slottuple2': ('either', lambda i, k, inner: SlotTuple((k, inner))),
    'list2': ('whole', lambda i, k, inner: [k, inner]),
    'sublist2': ('whole', lambda i, k, inner: _with_ttl(SubList([k, inner]), i)),
    'str2': ('whole', lambda i, k, inner: 'ab'[:1] + chr(99 + i)),
    'substr2': ('whole', lambda i, k, inner: _with_ttl(SubStr('a' + chr(99 + i)), i)),
    'bytes2': ('whole', lambda i, k, inner: bytes([97, 99 + i])),
    'dict2': ('whole', lambda i, k, inner: {0: k, 1: inner}),
    'sized2': ('whole', lambda i, k, inner: _with_ttl(Sized2(k, inner), i)),
    'obj': ('whole', lambda i, k, inner: _with_ttl(Inner(i), i)),
}
SHAPE_OPTS = [{}, {'size': 5, 'start': 1}, {'reverse': True}, {'prefix': 'row'}, {'prefix': 'row', 'size': 2, 'start': 2},
              {'noPush': True}, {'noPush': True, 'prefix': 'row', 'reverse': True}]


def shape_src(o, outer):
    attrs = ''
    if o.get('reverse'):
        attrs += ' reverse'
    if o.get('size'):
        attrs += ' size=%d start=%d orphan=0' % (o['size'], o['start'])
    if o.get('prefix'):
        attrs += ' prefix=%s' % o['prefix']
    if o.get('noPush'):
        attrs += ' no_push_item'
    body = ('<dtml-var sequence-index>:<dtml-var "ident(_[\'sequence-item\'])">'
            '|<dtml-var "ident(_.getitem(\'sequence-item\', 0))">')
    if o.get('prefix'):
        body += '|<dtml-var "ident(%s_item)">|<dtml-var "ident(_[\'%s_item\'])">' % (o['prefix'], o['prefix'])
    body += '|<dtml-var ttl missing="NONE">'
    if outer:
        body += '|<dtml-var "_[\'ttl\']">'
    return '<dtml-in seq%s>%s;</dtml-in>#<dtml-var ttl missing="NONE"><dtml-var sequence-item missing="GONE">' % (attrs, body)


def shape_expected(data, shapes, o, outer, reading):
    """the documented text when length-two instances of tuple subclasses are read as `reading`"""
    n = len(data)
    order = list(range(n))
    if o.get('reverse'):
        order.reverse()
    lo, hi = 0, n
    if o.get('size'):
        lo = o['start'] - 1
        hi = min(lo + o['size'], n)

    def ident(v, i):
        # the first of the caller's elements that IS this object (the empty tuple is one shared object)
        return str([j for j, e in enumerate(data) if e is v][0]) if v is data[i] else 'in%d' % i
    out = ''
    for pos in range(lo, hi):
        i = order[pos]
        el = data[i]
        how = SHAPES[shapes[i]][0]
        if how == 'either':
            how = reading
        item = el[1] if how == 'split' else el
        cells = [ident(item, i)] * (4 if o.get('prefix') else 2)
        ttl = 'NONE' if outer is None else outer
        if not o.get('noPush') and type(item) is not str:
            ttl = getattr(item, 'ttl', ttl)
        cells.append(ttl)
        if outer:
            cells.append(ttl)
        out += '%d:%s;' % (pos, '|'.join(cells))
    return out + '#' + ('NONE' if outer is None else outer) + 'GONE'


def element_shapes(res, tier):
    from DocumentTemplate import HTML
    r = common.rng('C10/shapes')
    names = sorted(SHAPES)
    cases = []
    # deterministic part: every shape alone (lengths 1 and 3) x every option set; then random mixtures
    for sh in names:
        for oi, o in enumerate(SHAPE_OPTS):
            for n in ((1, 3) if tier != 'quick' else ((3,) if oi % 2 else (1, 3))):
                cases.append(([sh] * n, o))
    for _ in range(150 if tier == 'quick' else 4000):
        n = r.choice([1, 2, 3, 4, 6])
        pool = r.sample(names, r.choice([1, 2, 3]))
        cases.append(([r.choice(pool) for _ in range(n)], r.choice(SHAPE_OPTS)))
    readings = {}
    for ci, (shapes, o) in enumerate(cases):
        o = dict(o)
        if o.get('size') and o.get('start', 1) > len(shapes):
            o['start'] = 1
        outer = 'OUT' if ci % 3 == 0 else None
        data = [SHAPES[sh][1](i, r.choice(['k%d' % i, i * 10]), Inner(i)) for i, sh in enumerate(shapes)]

        def ident(v, data=data):
            for i, el in enumerate(data):
                if v is el:
                    return str(i)
            for i, el in enumerate(data):
                try:
                    if len(el) > 1 and el[1] is v:
                        return 'in%d' % i
                except Exception:  # noqa
                    pass
            return '?%r' % (v,)
        cont = r.choice(['list', 'tuple', 'iter', 'gen', 'lazy', 'onlygetitem', 'deque'])
        src = shape_src(o, outer)
        kw = {'ttl': outer} if outer else {}
        try:
            got = shared_template(src)(seq=container(cont, data), ident=ident, **kw)
        except Exception as e:  # noqa
            got = 'raised %s: %s' % (type(e).__name__, str(e)[:200])
        res.evaluations += 1
        res.count('shapes')
        for sh in set(shapes):
            res.count('shape=' + sh)
        res.nt(('shapes', tuple(sorted(set(shapes))), tuple(sorted(o)), cont))
        exps = {rd: shape_expected(data, shapes, o, outer, rd) for rd in ('whole', 'split')}
        matched = [rd for rd in ('whole', 'split') if exps[rd] == got]
        case = {'source': src, 'element shapes': shapes, 'elements': [repr(e)[:60] for e in data], 'container': cont,
                'options': o, 'outer ttl': outer}
        if not matched:
            res.oracle_fail.append({'case': case, 'what': (
                'sequence-item / <prefix>_item / the object whose attributes the body sees must be one and the same element: '
                'documented text %r (tuple-subclass pairs read as one element) or %r (read as key/item pairs); the engine '
                'gives %r' % (exps['whole'], exps['split'], got))})
        elif len(matched) == 1:
            readings.setdefault(matched[0], case)
    if len(readings) > 1:
        res.oracle_fail.append({'case': readings, 'what': (
            'length-two instances of tuple subclasses are taken apart into key / item in one rendering and used as one '
            'element in another: "the element" is not the same thing everywhere')})


def sweep(res, tier):
    """Deterministic product: every container x every item kind x lengths x option sets (x, in the thorough tier, how the
    objects serve their attributes), each element offering one name of every name class in turn.  The random generator
    above samples the same space with more options per case; this one makes sure that no (container, kind) pair and no
    name class is ever left to chance."""
    r = common.rng('C10/sweep')
    if tier == 'quick':
        lengths = (0, 1, 2, 5)
        optsets = [{}, {'else': True, 'prefix': 'pf'}, {'reverse': True}, {'size': 'n'}, {'size': 2, 'start': 2},
                   {'noPush': True}]
    else:
        lengths = (0, 1, 2, 3, 4, 5, 7)
        optsets = [{}, {'else': True}, {'prefix': 'pf'}, {'else': True, 'prefix': 'it', 'noPush': True}, {'reverse': True},
                   {'sort': True}, {'sort': True, 'reverse': True}, {'noPush': True}, {'size': 'n'}, {'size': 'n+1'},
                   {'size': 1, 'start': 'n'}, {'size': 2, 'start': 2}, {'size': 3, 'start': 1, 'reverse': True},
                   {'size': 2, 'start': 1, 'sort': True, 'prefix': 'pf'}]
    k = 0
    for kind in ('obj', 'map', 'tuple', 'tuplemap', 'str', 'int', 'mixed', 'mixedmap'):
        for cont in containers_for(kind):
            for n in lengths:
                for o in optsets:
                    for flavour in (FLAVOURS if tier != 'quick' and kind in ('obj', 'tuple') else (None,)):
                        opts = dict(o)
                        if opts.get('sort') and kind not in OBJK:
                            continue
                        if 'size' in opts:
                            opts['size'] = {'n': max(n, 1), 'n+1': n + 1}.get(opts['size'], opts['size'])
                            opts['start'] = {'n': max(n, 1)}.get(opts.get('start', 1), opts.get('start', 1))
                            if opts['start'] > max(n, 1):
                                continue                 # a start beyond the sequence is C11's question
                        k += 1
                        opts['names'] = [NAME_POOL[k % len(NAME_POOL)][1]]
                        opts['outer'] = {opts['names'][0]: 'OUT'} if k % 3 == 0 else {}
                        if flavour is None:
                            flavour = FLAVOURS[k % len(FLAVOURS)]
                        items, blocks = make(r, kind, n, opts)
                        exp = expected(items, kind, opts) + tail_expected(opts)
                        src = source_for(blocks, opts)
                        got = run_direct(src, items, cont, opts['outer'], flavour, shared=True)
                        res.evaluations += 1
                        res.count('sweep')
                        res.count('sweep_container=' + cont)
                        res.count('sweep_name_class=' + name_class(opts['names'][0]))
                        res.nt(('sweep', kind, cont, tuple(sorted(x for x in o)), n > 1))
                        if got != {'ok': exp}:
                            res.oracle_fail.append({
                                'case': {'source': src, 'items': items, 'container': cont, 'options': opts,
                                         'objects serve attributes from': flavour},
                                'what': 'documented values give %r; the engine gives %r' % (exp, got)})


def run(res, tier, have_driver):
    r = common.rng('C10')
    res.rule = ('item kinds obj / mapping / 2-tuple / str / int x lengths 0..7 x containers list / tuple / iterator / generator / '
                'lazy sequence x options {no_push_item, prefix, else, sort, reverse, batch size/start}; every iteration prints '
                'sequence-index/-number/-letter/-Letter/-roman/-Roman/-even/-odd/-start/-end/-length, -item, -key, '
                'sequence-var-x, first-x, last-x, the pushed attribute x and the prefixed aliases; probes after the end tag; nested '
                'loops with different / no prefixes probing the outer loop\'s prefixed names, and a later unprefixed loop; '
                'non-trivial = distinct (item kind, container, option set, length>1).  HISTORIES: 1..3 compiled documents '
                '(shared between histories when the source is equal) of 1..3 dtml-in tags over the same name (name form / '
                'expr form, some nested inside an outer loop over the same sequence) rendered 1..5 times over 1..2 data sets '
                'that live as long as the history (the caller\'s own list / tuple / lazy object is handed to every rendering; '
                'iterators are re-made over the same elements): same document + same data again, same document + other data '
                '(other length, empty), renderings after a rendering whose body raised at element k; options sort= with '
                '/cmp/asc|desc and two keys, sort_expr literal / variable changing per rendering, reverse, reverse_expr true / '
                'false / variable, every combination of start / end / size / orphan / overlap as literals, integer variables or '
                'numeric strings with values inside and beyond the sequence (explicit end beyond the length, start beyond the '
                'length, end before start); x values that are equal but print differently (1, 1.0, True); every rendering must '
                'give the documented text computed from the caller\'s data (where the documentation leaves a window bound open - '
                'default size, orphan, start beyond the length - that bound alone is read from the displayed indexes) and the '
                'caller\'s sequences must be left with the same elements, order and contents.  SEQUENCE ADAPTATION: besides '
                'list / tuple / iterator / generator / lazy sequence the sequence is a one-shot iterator with a PEP 424 length '
                'hint of every behaviour (exact, upper bound of a filtering stream, lower bound, half, 0, too large, '
                'NotImplemented, TypeError), a filter / map / chain / islice / reversed / tuple / dict-view iterator, an iterator '
                'handed over mid-stream, a re-iterable object with only __iter__, with __iter__ + __len__ (dict views), with only '
                '__getitem__, a deque or a UserList; kinds `mixed` (objects, pairs, strings, numbers in one sequence) and '
                '`mixedmap` (mappings and (key, mapping) pairs).  ELEMENT NAMES: 0..2 further attributes / keys per element '
                'with names of the classes identifier / dashed / looks-like-a-sequence-variable / punctuated / not-an-identifier '
                '(non-ASCII, leading digit, keyword), present on some elements only, values incl. 0 and \'\', with / without an '
                'outer variable of the same name, read by name and through _[name], probed again after the end tag; objects '
                'serve attributes from the instance dict / __getattr__ / the class / properties.  SWEEP (deterministic): every '
                'container x item kind x length x option set, one name class in turn.  ELEMENT SHAPES: elements of every shape '
                'that is or merely resembles a pair: plain tuples of length 0 / 1 / 2 / 3, namedtuple rows of 1 / 2 / 3 columns, '
                'instances of tuple subclasses (with instance attributes, with __slots__ and class attributes) of length 0..3, '
                'lists / list subclasses / str / str subclasses / bytes / dicts / sized subscriptable objects of length two, '
                'alone and mixed in one sequence x plain / batch / reverse / prefix / no_push_item x containers; sequence-item, '
                '_[\'sequence-item\'], _.getitem, <prefix>_item (name and expression) and the object whose attribute the body '
                'sees must be ONE object per element (identity observed by a caller function): the element, or element[1] for '
                'plain 2-tuples; for length-two tuple-subclass instances either reading, but one reading for the whole run')
    n_cases = 800 if tier == 'quick' else 12000
    model_cases = []
    for ci in range(n_cases):
        kind = r.choice(['obj', 'obj', 'map', 'tuple', 'tuplemap', 'str', 'int', 'mixed', 'mixedmap'])
        n = r.choice([0, 1, 2, 3, 3, 4, 5, 7])
        opts = {}
        if r.random() < 0.25:
            opts['noPush'] = True
        if r.random() < 0.35:
            opts['prefix'] = r.choice(['pf', 'it'])
        if r.random() < 0.5:
            opts['else'] = True
        plain = r.random() < 0.45
        if not plain:
            if kind in ('obj', 'map', 'tuple', 'tuplemap') and r.random() < 0.5:
                opts['sort'] = True
            if r.random() < 0.4:
                opts['reverse'] = True
            if n >= 2 and r.random() < 0.5:
                opts['size'] = r.randint(1, n)
                opts['start'] = r.randint(1, n)
        if n >= 1 and r.random() < 0.2:
            opts['boom'] = r.randrange(n)
        opts['names'] = draw_names(r)
        opts['outer'] = draw_outer(r, opts['names'])
        items, blocks = make(r, kind, n, opts)
        if opts.get('boom') is not None:
            # did the displayed window reach element `boom`?  (positions are those of the displayed order)
            lo, hi = 0, n
            if opts.get('size'):
                lo = opts.get('start', 1) - 1
                hi = min(lo + opts['size'], n)
            if lo <= opts['boom'] < hi:
                exp = 'CAUGHT' + tail_expected(opts)
            else:
                exp = expected(items, kind, opts) + tail_expected(opts)
        else:
            exp = expected(items, kind, opts) + tail_expected(opts)
        src = source_for(blocks, opts)
        cont = r.choice(containers_for(kind)) if not plain else r.choice(['list', 'tuple'])
        flavour = r.choice(FLAVOURS)
        got = run_direct(src, items, cont, opts['outer'], flavour)
        res.evaluations += 1
        res.count('kind=' + kind)
        res.count('container=' + cont)
        res.count('flavour=' + flavour)
        for nm in opts['names']:
            res.count('name_class=' + name_class(nm))
        res.nt((kind, cont, tuple(sorted(k for k in opts if k not in ('names', 'outer'))),
                tuple(sorted(name_class(nm) for nm in opts['names'])), n > 1))
        if got != {'ok': exp}:
            res.oracle_fail.append({'case': {'source': src, 'items': items, 'container': cont, 'options': opts,
                                             'objects serve attributes from': flavour},
                                    'what': 'documented values give %r; the engine gives %r' % (exp, got)})
        if plain:
            case = {'templates': [{'blocks': blocks, 'globals': [], 'vars': [], 'source': src}], 'main': 0, 'clients': [],
                    'mapping': [], 'kw': [['seq', {'l' if cont == 'list' else 't': items}]] + [
                        [nm, {'s': val}] for nm, val in sorted(opts['outer'].items())],
                    'classes': proggen.class_table(), 'denied': [], 'guard': False, 'utf8': True}
            model_cases.append(case)
        if len(res.samples) < 3 and n >= 2:
            res.sample({'source': src[:400], 'items': items[:3], 'container': cont, 'output': got})
    sweep(res, tier)
    element_shapes(res, tier)
    histories(res, tier)
    nested = [nested_case(r) for _ in range(60 if tier == 'quick' else 1500)]
    res.have_driver = have_driver
    nruns = interp.run_cases(res, [c for c, e, k in nested])
    for (c, exp, key), (c_, plan, impl, m) in zip(nested, nruns):
        res.evaluations += 1
        res.count('kind=nested')
        res.nt(('nested',) + key)
        if impl['result'] != {'ok': {'s': exp}}:
            res.oracle_fail.append({'case': {'source': c['templates'][0]['source'], 'kw': c['kw']},
                                    'what': 'documented values give %r; the engine gives %r' % (exp, impl['result'])})
    for (c, plan, impl, m) in nruns + interp.run_cases(res, model_cases):
        if m is None:
            continue
        d = interp.compare(impl, m)
        if d == 'oom':
            res.count('outside_model')
            continue
        res.corr_checked += 1
        if d:
            res.corr_mismatch.append({'case': interp.brief(c), 'impl': impl['result'], 'model': m['result'], 'diff': d})
    res.partial.append('theorems cover the unbatched renderer (renderwob); batch windows are C11\'s model; sort / reverse / batch '
                       'combinations and iterator / generator / lazy inputs are compared with the independent oracle only '
                       '(so are the ways objects serve their attributes: the model has one kind of object); element names of '
                       'every class and mixed sequences over lists / tuples go through the correspondence as well; element '
                       'shapes (tuple subclasses, pair look-alikes) are outside the model: independent oracle only')
    res.assumptions += ['interpreter model validated (not verified) against the real classes',
                        'documented values: index/number/letter/roman/even/odd = position in the whole (sorted, reversed) '
                        'sequence; start/end and first-x/last-x relative to the displayed window',
                        'batch windows: start = number of the first, end = number of the last displayed element (clamped to '
                        'the length), size = number displayed; element names inside the sequence variables\' own grammar '
                        '(sequence-*, first-*, last-*, previous-*, next-*, <statistic>-*) are not generated: the property text '
                        'does not say whether the element or the variable answers; bounds the documentation leaves open (default size, orphan, '
                        'start beyond the length, end before start) are read from the displayed indexes (C11 decides them)']


def search_more(res, tier):
    res2 = common.Result('C10')
    import os
    os.environ['VERIF_SEED'] = str(common.seed() + 1)
    run(res2, 'thorough', False)
    os.environ['VERIF_SEED'] = str(common.seed() - 1)
    return res2.oracle_fail


def replay(path):
    with open(path) as f:
        d = json.load(f)
    print(json.dumps(d.get('first', d), indent=1)[:3000])
    return 1
