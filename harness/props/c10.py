"""C10 — dtml-in visits each element once, in order, with correct sequence variables.

Generator: sequences of length 0..7 of objects / mappings / 2-tuples / strings / numbers, given as list, tuple, iterator,
generator or a lazy sequence object, rendered with combinations of mapping / no_push_item / prefix / sort / reverse /
batch (size, start); the body prints one line per iteration listing every documented variable that applies to the item
kind; probes after the end tag show that nothing the tag bound is still visible; an else body marks empty sequences.
Oracle: the documented values computed independently from the element positions.
Correspondence: the unbatched, unsorted subset over lists / tuples on the Lean interpreter model (op "render").
"""
import json

import common
import interp
import proggen

FIXED = ['index', 'number', 'letter', 'Letter', 'roman', 'Roman', 'even', 'odd', 'start', 'end', 'length']


def to_roman(n):
    out = ''
    for v, s in ((1000, 'M'), (900, 'CM'), (500, 'D'), (400, 'CD'), (100, 'C'), (90, 'XC'), (50, 'L'), (40, 'XL'),
                 (10, 'X'), (9, 'IX'), (5, 'V'), (4, 'IV'), (1, 'I')):
        while n >= v:
            out += s
            n -= v
    return out


def body_blocks(kind, opts):
    """the per-iteration line for this item kind"""
    def v(n, missing=None):
        return ['var', ['n', n], False, missing, None]
    bs = []
    for f in FIXED:
        bs += [v('sequence-' + f), ['lit', '|']]
    if kind in ('obj', 'str', 'int', 'tuple'):
        bs += [['lit', 'item='], v('sequence-item'), ['lit', '|']]
    if kind in ('tuple', 'tuplemap'):
        bs += [['lit', 'key='], v('sequence-key'), ['lit', '|']]
    if kind in ('obj', 'map', 'tuple', 'tuplemap'):
        bs += [['lit', 'var='], v('sequence-var-x'), ['lit', '|f='], v('first-x'), ['lit', '|l='], v('last-x'), ['lit', '|']]
    bs += [['lit', 'x='], v('x', 'NOPUSH'), ['lit', '|']]
    if opts.get('prefix'):
        p = opts['prefix']
        for f in FIXED:
            bs += [v(p + '_' + f), ['lit', '|']]
        if kind in ('obj', 'str', 'int', 'tuple'):
            bs += [['lit', 'pitem='], v(p + '_item'), ['lit', '|']]
        if kind in ('tuple', 'tuplemap'):
            bs += [['lit', 'pkey='], v(p + '_key'), ['lit', '|']]
    bs.append(['lit', ';'])
    return bs


def jstr(vv):
    if isinstance(vv, dict):
        if 's' in vv:
            return vv['s']
        if 'o' in vv:
            return 'obj%d' % vv['o']
    return str(vv)


def xval(item, kind):
    if kind == 'obj':
        return dict(item['a'])['x']
    if kind == 'map':
        return dict(item['d'])['x']
    if kind == 'tuple':
        return dict(item['t'][1]['a'])['x']
    if kind == 'tuplemap':
        return dict(item['t'][1]['d'])['x']
    return None


def expected(items, kind, opts):
    """documented output"""
    n = len(items)
    if n == 0:
        return 'EMPTY' if opts.get('else') else ''
    order = list(range(n))
    if opts.get('sort'):
        order.sort(key=lambda i: jx(xval(items[i], kind)))
    if opts.get('reverse'):
        order.reverse()
    seq = [items[i] for i in order]
    lo, hi = 0, n
    if opts.get('size'):
        start = opts.get('start', 1)
        lo = start - 1
        hi = min(lo + opts['size'], n)
    out = []
    for i in range(lo, hi):
        it = seq[i]
        first, last = i == lo, i == hi - 1
        cells = [i, i + 1, chr(97 + i), chr(65 + i), to_roman(i + 1).lower(), to_roman(i + 1), i % 2 == 0, i % 2,
                 1 if first else 0, 1 if last else 0, n]
        line = ''.join('%s|' % c for c in cells)
        item = it['t'][1] if kind in ('tuple', 'tuplemap') else it
        if kind in ('obj', 'str', 'int', 'tuple'):
            line += 'item=%s|' % jstr(item)
        if kind in ('tuple', 'tuplemap'):
            line += 'key=%s|' % jstr(it['t'][0])
        if kind in ('obj', 'map', 'tuple', 'tuplemap'):
            x = xval(it, kind)
            f = 1 if first else (x != xval(seq[i - 1], kind))
            la = 1 if last else (x != xval(seq[i + 1], kind))
            line += 'var=%s|f=%s|l=%s|' % (jstr(x), f, la)
        pushed = kind in ('obj', 'map', 'tuple', 'tuplemap') and not opts.get('noPush')
        line += 'x=%s|' % (jstr(xval(it, kind)) if pushed else 'NOPUSH')
        if opts.get('prefix'):
            line += ''.join('%s|' % c for c in cells)
            if kind in ('obj', 'str', 'int', 'tuple'):
                line += 'pitem=%s|' % jstr(item)
            if kind in ('tuple', 'tuplemap'):
                line += 'pkey=%s|' % jstr(it['t'][0])
        out.append(line + ';')
    return ''.join(out)


def jx(v):
    return v['s'] if isinstance(v, dict) else v


def gen_items(r, kind, n):
    items = []
    strs = r.random() < 0.4
    for i in range(n):
        x = {'s': r.choice(['a', 'b', 'b', 'c'])} if strs else r.choice([1, 2, 2, 3])
        if kind == 'obj':
            items.append({'o': 100 + i, 'a': [['x', x], ['y', i]]})
        elif kind == 'map':
            items.append({'d': [['x', x], ['y', i]]})
        elif kind == 'tuple':
            items.append({'t': [r.choice([{'s': 'k%d' % i}, i * 10]), {'o': 100 + i, 'a': [['x', x]]}]})
        elif kind == 'tuplemap':
            items.append({'t': [r.choice([{'s': 'k%d' % i}, i * 10]), {'d': [['x', x], ['y', i]]}]})
        elif kind == 'str':
            items.append({'s': r.choice(['s%d' % i, 'x', ''])})
        else:
            items.append(r.choice([0, 5, -1, i]))
    return items


def make(r, kind, n, opts):
    items = gen_items(r, kind, n)
    inopts = {}
    if kind in ('map', 'tuplemap'):
        inopts['mapping'] = True
    if opts.get('noPush'):
        inopts['noPush'] = True
    if opts.get('prefix'):
        inopts['prefix'] = opts['prefix']
    body = body_blocks(kind, opts)
    if opts.get('boom') is not None:
        # the body raises at element `boom`; the exception is handled OUTSIDE the loop, inside an enclosing dtml-let
        body = body + [['cond', [[['e', ['eq', ['under', 'sequence-index'], ['lit', opts['boom']]]],
                                  [['raise', 'KeyError', None, [['lit', 'm']]]]]], None]]
    loop = ['in', ['n', 'seq'], inopts, body, [['lit', 'EMPTY']] if opts.get('else') else None]
    tail = [['lit', '#'], ['var', ['n', 'sequence-item'], False, 'GONE', None],
            ['var', ['n', 'x'], False, 'GONE', None], ['var', ['n', 'sequence-index'], False, 'GONE', None]]
    if opts.get('boom') is not None:
        blocks = [['let', [['outerv', ['e', ['lit', 1]]]], [['try', [loop], [['', [['lit', 'CAUGHT']]]], None]] + tail],
                  ['var', ['n', 'outerv'], False, 'GONE', None]]
    else:
        blocks = [loop] + tail
    return items, blocks


def source_for(blocks, opts):
    """the DTML source, with the options the JSON program form does not carry"""
    src = proggen.print_blocks(blocks)
    extra = ''
    if opts.get('sort'):
        extra += ' sort=x'
    if opts.get('reverse'):
        extra += ' reverse'
    if opts.get('size'):
        extra += ' size=%d start=%d orphan=0' % (opts['size'], opts.get('start', 1))
    return src.replace('<dtml-in seq', '<dtml-in seq' + extra, 1)


def nested_case(r):
    """two nested loops: the prefixed names of the outer loop must keep denoting the OUTER element inside an inner loop that
    has another prefix or none; a later loop must not answer names with a prefix it was not given"""
    po = r.choice(['po', 'out'])
    pi = r.choice([None, None, 'pi', 'inn'])
    n1, n2 = r.randint(1, 3), r.randint(1, 3)
    outer = gen_items(r, 'obj', n1)
    inner = [{'o': 200 + i, 'a': [['z', i]]} for i in range(n2)]
    names = r.sample(['item', 'index', 'number', 'letter', 'Letter', 'roman', 'Roman', 'even', 'odd', 'length', 'start', 'end'],
                     r.randint(2, 4))

    def v(n, missing=None):
        return ['var', ['n', n], False, missing, None]
    ibody = []
    for nm in names:
        ibody += [v(po + '_' + nm), ['lit', ',']]
        if pi:
            ibody += [v(pi + '_' + nm), ['lit', ',']]
        ibody += [v('sequence-' + nm), ['lit', ',']]
    ibody.append(['lit', ';'])
    iopts = {'prefix': pi} if pi else {}
    later = [v(po + '_' + nm, 'UNDEF') for nm in names[:2]] + [['lit', ';']]
    warm = [['in', ['n', 'seq'], {'prefix': po}, [v(po + '_' + nm) for nm in names], None]] if r.random() < 0.5 else []
    blocks = warm + [['lit', '['], ['in', ['n', 'seq'], {'prefix': po}, [['in', ['n', 'seq2'], iopts, ibody, None], ['lit', '|']], None],
              ['lit', ']'], ['in', ['n', 'seq2'], {}, later, None]]

    def cell(nm, i, n, it):
        return {'item': jstr(it), 'index': i, 'number': i + 1, 'letter': chr(97 + i), 'Letter': chr(65 + i),
                'roman': to_roman(i + 1).lower(), 'Roman': to_roman(i + 1), 'even': i % 2 == 0, 'odd': i % 2, 'length': n,
                'start': 1 if i == 0 else 0, 'end': 1 if i == n - 1 else 0}[nm]
    exp = ''
    if warm:
        for i, it in enumerate(outer):
            exp += ''.join(str(cell(nm, i, n1, it)) for nm in names)
    exp += '['
    for i, it in enumerate(outer):
        for j, jt in enumerate(inner):
            for nm in names:
                exp += '%s,' % cell(nm, i, n1, it)
                if pi:
                    exp += '%s,' % cell(nm, j, n2, jt)
                exp += '%s,' % cell(nm, j, n2, jt)
            exp += ';'
        exp += '|'
    exp += ']'
    for j in range(n2):
        exp += 'UNDEF' * len(names[:2]) + ';'
    case = {'templates': [{'blocks': blocks, 'globals': [], 'vars': [], 'source': proggen.print_blocks(blocks)}], 'main': 0,
            'clients': [], 'mapping': [], 'kw': [['seq', {'l': outer}], ['seq2', {'l': inner}]],
            'classes': proggen.class_table(), 'denied': [], 'guard': False, 'utf8': True}
    return case, exp, (po, pi, tuple(names))


class Lazy:
    """a sequence object with __getitem__ / __len__ only"""

    def __init__(self, data):
        self._d = data

    def __getitem__(self, i):
        return self._d[i]

    def __len__(self):
        return len(self._d)


def container(kind, data):
    if kind == 'list':
        return list(data)
    if kind == 'tuple':
        return tuple(data)
    if kind == 'iter':
        return iter(list(data))
    if kind == 'gen':
        return (x for x in list(data))
    if kind == 'lazy':
        return Lazy(list(data))
    raise ValueError(kind)


def run_direct(src, items, cont):
    from DocumentTemplate import HTML
    world = proggen.World()
    data = [proggen.to_py(world, it) for it in items]
    try:
        return {'ok': HTML(src)(seq=container(cont, data))}
    except Exception as e:  # noqa
        return {'raise': type(e).__name__, 'msg': str(e)[:200]}


def run(res, tier, have_driver):
    r = common.rng('C10')
    res.rule = ('item kinds obj / mapping / 2-tuple / str / int x lengths 0..7 x containers list / tuple / iterator / generator / '
                'lazy sequence x options {no_push_item, prefix, else, sort, reverse, batch size/start}; every iteration prints '
                'sequence-index/-number/-letter/-Letter/-roman/-Roman/-even/-odd/-start/-end/-length, -item, -key, '
                'sequence-var-x, first-x, last-x, the pushed attribute x and the prefixed aliases; probes after the end tag; nested '
                'loops with different / no prefixes probing the outer loop\'s prefixed names, and a later unprefixed loop; '
                'non-trivial = distinct (item kind, container, option set, length>1)')
    n_cases = 500 if tier == 'quick' else 8000
    model_cases = []
    for ci in range(n_cases):
        kind = r.choice(['obj', 'obj', 'map', 'tuple', 'tuplemap', 'str', 'int'])
        n = r.choice([0, 1, 2, 3, 3, 4, 5, 7])
        opts = {}
        if r.random() < 0.25:
            opts['noPush'] = True
        if r.random() < 0.35:
            opts['prefix'] = r.choice(['pf', 'it'])
        if r.random() < 0.5:
            opts['else'] = True
        plain = r.random() < 0.45
        if not plain:
            if kind in ('obj', 'map', 'tuple', 'tuplemap') and r.random() < 0.5:
                opts['sort'] = True
            if r.random() < 0.4:
                opts['reverse'] = True
            if n >= 2 and r.random() < 0.5:
                opts['size'] = r.randint(1, n)
                opts['start'] = r.randint(1, n)
        if n >= 1 and r.random() < 0.2:
            opts['boom'] = r.randrange(n)
        items, blocks = make(r, kind, n, opts)
        if opts.get('boom') is not None:
            # did the displayed window reach element `boom`?  (positions are those of the displayed order)
            lo, hi = 0, n
            if opts.get('size'):
                lo = opts.get('start', 1) - 1
                hi = min(lo + opts['size'], n)
            if lo <= opts['boom'] < hi:
                exp = 'CAUGHT#GONEGONEGONEGONE'
            else:
                exp = expected(items, kind, opts) + '#GONEGONEGONEGONE'
        else:
            exp = expected(items, kind, opts) + '#GONEGONEGONE'
        src = source_for(blocks, opts)
        cont = r.choice(['list', 'tuple', 'iter', 'gen', 'lazy']) if not plain else r.choice(['list', 'tuple'])
        got = run_direct(src, items, cont)
        res.evaluations += 1
        res.count('kind=' + kind)
        res.count('container=' + cont)
        res.nt((kind, cont, tuple(sorted(k for k in opts)), n > 1))
        if got != {'ok': exp}:
            res.oracle_fail.append({'case': {'source': src, 'items': items, 'container': cont, 'options': opts},
                                    'what': 'documented values give %r; the engine gives %r' % (exp, got)})
        if plain:
            case = {'templates': [{'blocks': blocks, 'globals': [], 'vars': [], 'source': src}], 'main': 0, 'clients': [],
                    'mapping': [], 'kw': [['seq', {'l' if cont == 'list' else 't': items}]],
                    'classes': proggen.class_table(), 'denied': [], 'guard': False, 'utf8': True}
            model_cases.append(case)
        if len(res.samples) < 3 and n >= 2:
            res.sample({'source': src[:400], 'items': items[:3], 'container': cont, 'output': got})
    nested = [nested_case(r) for _ in range(60 if tier == 'quick' else 1500)]
    res.have_driver = have_driver
    nruns = interp.run_cases(res, [c for c, e, k in nested])
    for (c, exp, key), (c_, plan, impl, m) in zip(nested, nruns):
        res.evaluations += 1
        res.count('kind=nested')
        res.nt(('nested',) + key)
        if impl['result'] != {'ok': {'s': exp}}:
            res.oracle_fail.append({'case': {'source': c['templates'][0]['source'], 'kw': c['kw']},
                                    'what': 'documented values give %r; the engine gives %r' % (exp, impl['result'])})
    for (c, plan, impl, m) in nruns + interp.run_cases(res, model_cases):
        if m is None:
            continue
        d = interp.compare(impl, m)
        if d == 'oom':
            res.count('outside_model')
            continue
        res.corr_checked += 1
        if d:
            res.corr_mismatch.append({'case': interp.brief(c), 'impl': impl['result'], 'model': m['result'], 'diff': d})
    res.partial.append('theorems cover the unbatched renderer (renderwob); batch windows are C11\'s model; sort / reverse / batch '
                       'combinations and iterator / generator / lazy inputs are compared with the independent oracle only')
    res.assumptions += ['interpreter model validated (not verified) against the real classes',
                        'documented values: index/number/letter/roman/even/odd = position in the whole (sorted, reversed) '
                        'sequence; start/end and first-x/last-x relative to the displayed window']


def search_more(res, tier):
    res2 = common.Result('C10')
    import os
    os.environ['VERIF_SEED'] = str(common.seed() + 1)
    run(res2, 'thorough', False)
    os.environ['VERIF_SEED'] = str(common.seed() - 1)
    return res2.oracle_fail


def replay(path):
    with open(path) as f:
        d = json.load(f)
    print(json.dumps(d.get('first', d), indent=1)[:3000])
    return 1
