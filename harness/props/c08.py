"""C08 — namespace stack and recursion level are restored on every exit path.

Fault injection: every generated program is run once to count its N callable-invocation points, then N more times
with the k-th invocation raising (k = 0..N-1), and with pairs of faults; programs contain dtml-return, dtml-raise and
undefined names at random places.  Each run is a sub-template call of a driver template that snapshots the namespace
(frame identities, level) before and after and catches the exception.
Correspondence: results, call traces and every namespace snapshot of the Lean interpreter vs the real classes.
Oracle: identities of the frames and the level after == before, on the real TemplateDict.
"""
import json

import common
import interp
import proggen

FAULT_CLASSES = ['ValueError', 'KeyError', 'E2', 'TypeError']


def oracle(impl):
    ids = impl['snap_ids']
    if len(ids) < 2:
        return ['the driver template did not reach its second probe (%d snapshots): %r' % (len(ids), impl['result'])]
    (f0, l0), (f1, l1) = ids[0], ids[-1]
    # the top frame is the lookup cache of the dtml-call the probe itself runs in: a fresh dictionary per call
    f0, f1 = f0[:-1], f1[:-1]
    bad = []
    if f0 != f1:
        bad.append('namespace after the call holds %d frames, before %d (or different/reordered frames)' % (
            len(f1), len(f0)))
    if l0 != l1:
        bad.append('recursion level after the call is %d, before %d' % (l1, l0))
    return bad


def tree_leak_probe(res):
    """dtml-tree is not part of the interpreter model: its push/pop sites are probed directly"""
    from DocumentTemplate import HTML

    class N:
        def __init__(s, i, k):
            s.nid, s.kids = i, k

        def tpId(s):
            return s.nid

    class R:
        def setCookie(s, *a, **k):
            pass
    for bad_id in ('a', 'b', 'a1', None):
        for mode in ('expand_all', 'plain'):
            calls = []

            def kidsf_factory(node):
                def kidsf():
                    calls.append(node.nid)
                    if node.nid == bad_id and len([c for c in calls if c == bad_id]) == 1:
                        raise ValueError('boom')
                    return node.kids
                return kidsf
            a1 = N('a1', [])
            nodes = [N('a', [a1]), N('b', [N('b1', [])])]
            root = N('r', nodes)
            for n in [root, a1] + nodes + nodes[1].kids:
                n.kidsf = kidsf_factory(n)
            snaps = []

            def probe(md):
                snaps.append(([id(f) for f in md._data], md.level))
                return ''
            t = HTML('<dtml-call "probe(_)"><dtml-try><dtml-tree branches_expr="kidsf()"><dtml-var nid></dtml-tree>'
                     '<dtml-except></dtml-try><dtml-call "probe(_)">')
            md = {'URL': 'u', 'RESPONSE': R(), 'probe': probe}
            if mode == 'expand_all':
                md['expand_all'] = 1
            try:
                t(root, md)
            except Exception as e:  # noqa
                res.oracle_fail.append({'case': {'tree': True, 'bad': bad_id, 'mode': mode},
                                        'what': 'driver raised %r' % (e,)})
                continue
            res.evaluations += 1
            if len(snaps) != 2 or (snaps[0][0][:-1], snaps[0][1]) != (snaps[1][0][:-1], snaps[1][1]):
                res.oracle_fail.append({'case': {'tree': True, 'bad': bad_id, 'mode': mode,
                                                 'src': 'dtml-tree branches_expr with a failing expression'},
                                        'what': 'namespace after dtml-tree differs from before: %d vs %d frames' % (
                                            len(snaps[-1][0]) if snaps else -1, len(snaps[0][0]) if snaps else -1)})


def run(res, tier, have_driver):
    r = common.rng('C08')
    res.have_driver = have_driver
    res.rule = ('random programs over all block tags (nesting <= 3, sub-template calls, dtml-return / dtml-raise / undefined '
                'names inside every block kind), each run with no fault and with the k-th callable invocation raising for '
                'every k < N (N = invocation points of the fault-free run), plus random pairs of faults, exception classes '
                'ValueError / KeyError / E2 / TypeError; non-trivial = distinct (program, fault plan) where a fault actually '
                'fired or a return/raise was executed inside a block')
    n_prog = 250 if tier == 'quick' else 3000
    cases, plans = [], []
    base = [proggen.wrap_case(proggen.gen_case(r, r.choice([2, 3, 3]), robust=r.random() < 0.7)) for _ in range(n_prog)]
    # first pass: fault-free, to learn N
    first = interp.run_cases(res, base)
    for (c, plan, impl, m) in first:
        n = impl['calls']
        res.count('invocation_points=%s' % (n if n < 6 else '6+'))
        ks = list(range(n)) if tier == 'thorough' or n <= 8 else sorted(r.sample(range(n), 8))
        for k in ks:
            cases.append(c)
            plans.append(((k,), r.choice(FAULT_CLASSES)))
        for _ in range(2 if n >= 2 else 0):
            a, b = sorted(r.sample(range(n), 2))
            cases.append(c)
            plans.append(((a, b), r.choice(FAULT_CLASSES)))
    runs = first + interp.run_cases(res, cases, plans)
    for (c, plan, impl, m) in runs:
        res.evaluations += 1
        res.count('outcome=' + ('raise' if 'raise' in impl['result'] else 'ok'))
        for f in oracle(impl):
            res.oracle_fail.append({'case': {'program': interp.brief(c), 'faults': list(plan[0]), 'fault_cls': plan[1]},
                                    'what': f})
        fired = bool(plan[0]) and impl['calls'] > min(plan[0])
        if fired or 'dtml-return' in c['templates'][1]['source'] or 'dtml-raise' in c['templates'][1]['source']:
            res.nt((c['templates'][1]['source'], plan[0], plan[1]))
        if m is not None:
            d = interp.compare(impl, m)
            if d == 'oom':
                res.count('outside_model')
                continue
            res.corr_checked += 1
            if d:
                res.corr_mismatch.append({'case': {'program': interp.brief(c), 'faults': list(plan[0]),
                                                   'fault_cls': plan[1]},
                                          'impl': impl['result'], 'model': m['result'], 'diff': d})
    for i in (0, len(runs) // 2, len(runs) - 1):
        c, plan, impl, m = runs[i]
        res.sample({'program': c['templates'][1]['source'][:400], 'faults': list(plan[0]), 'fault_cls': plan[1],
                    'impl_result': impl['result'], 'snapshots_before_after': [impl['snap_ids'][0][1], impl['snap_ids'][-1][1]]
                    if len(impl['snap_ids']) >= 2 else None})
    tree_leak_probe(res)
    res.partial.append('dtml-tree is outside the interpreter model: its push/pop sites (tpRender, tpRenderTABLE, get_items) '
                       'are covered by the fault-injection oracle only')
    res.assumptions += ['the interpreter model (Render.lean) is validated, not verified, against the real classes: results, '
                        'call traces and namespace snapshots taken by probe callables inside the blocks are compared',
                        'an InstanceDict\'s attribute cache is not part of the namespace identity (theorem: erase)']


def search_more(res, tier):
    r = common.rng('C08-more')
    res2 = common.Result('C08')
    res2.have_driver = False
    found = []
    for _ in range(300):
        c = proggen.wrap_case(proggen.gen_case(r, 3))
        impl0 = proggen.run_impl(c)
        for k in range(min(impl0['calls'], 10)):
            impl = proggen.run_impl(c, (k,), r.choice(FAULT_CLASSES))
            for f in oracle(impl):
                found.append({'case': {'program': interp.brief(c), 'faults': [k]}, 'what': f})
        if len(found) > 3:
            break
    return found


def replay(path):
    with open(path) as f:
        d = json.load(f)
    print(json.dumps(d['first'], indent=1)[:3000])
    return 1
