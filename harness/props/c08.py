"""C08 — namespace stack and recursion level are restored on every exit path.

Fault injection: every generated program is run once to count its N callable-invocation points, then N more times
with the k-th invocation raising (k = 0..N-1), and with pairs of faults; programs contain dtml-return, dtml-raise and
undefined names at random places.  Each run is a sub-template call of a driver template that snapshots the namespace
(frame identities, level) before and after and catches the exception.
Correspondence: results, call traces and every namespace snapshot of the Lean interpreter vs the real classes.
Oracle: identities of the frames and the level after == before, on the real TemplateDict.

The exit through the recursion guard (String.__call__, level > 200) gets inputs of its own:
  (A) a family of runaway-recursion programs (cycles of templates x invocation form x enclosing block x who catches), rendered
      top-level at full depth on the model and on the real classes: the guard must fire at the same level with the same error,
      every invocation that continues holds the frames it held before, the names of every frame kind are found afterwards;
  (B) the same family under a Python caller that owns the TemplateDict and stands at a recursion level just below / at / above
      the threshold (the guard then fires after 0..10 calls, in every member of the cycle and inside every kind of block),
      with no / one / several clients and keyword arguments;
  (C) every generated program under such a Python caller, also with template classes whose rendering hooks
      (ZDocumentTemplate_beforeRender / afterRender) return a value or raise.
Expected values: object identity of the frames the caller pushed, the level the caller set, and outcomes read off the family's
parameters (who catches) - nothing is computed by the code under test.
"""
import json
import operator

import common
import interp
import proggen

FAULT_CLASSES = ['ValueError', 'KeyError', 'E2', 'TypeError']


def oracle(impl):
    ids = impl['snap_ids']
    if len(ids) < 2:
        return ['the driver template did not reach its second probe (%d snapshots): %r' % (len(ids), impl['result'])]
    (f0, l0), (f1, l1) = ids[0], ids[-1]
    # the top frame is the lookup cache of the dtml-call the probe itself runs in: a fresh dictionary per call
    f0, f1 = f0[:-1], f1[:-1]
    bad = []
    if f0 != f1:
        bad.append('namespace after the call holds %d frames, before %d (or different/reordered frames)' % (
            len(f1), len(f0)))
    if l0 != l1:
        bad.append('recursion level after the call is %d, before %d' % (l1, l0))
    return bad


def tree_leak_probe(res):
    """dtml-tree is not part of the interpreter model: its push/pop sites are probed directly"""
    from DocumentTemplate import HTML

    class N:
        def __init__(s, i, k):
            s.nid, s.kids = i, k

        def tpId(s):
            return s.nid

    class R:
        def setCookie(s, *a, **k):
            pass
    for bad_id in ('a', 'b', 'a1', None):
        for mode in ('expand_all', 'plain'):
            calls = []

            def kidsf_factory(node):
                def kidsf():
                    calls.append(node.nid)
                    if node.nid == bad_id and len([c for c in calls if c == bad_id]) == 1:
                        raise ValueError('boom')
                    return node.kids
                return kidsf
            a1 = N('a1', [])
            nodes = [N('a', [a1]), N('b', [N('b1', [])])]
            root = N('r', nodes)
            for n in [root, a1] + nodes + nodes[1].kids:
                n.kidsf = kidsf_factory(n)
            snaps = []

            def probe(md):
                snaps.append(([id(f) for f in md._data], md.level))
                return ''
            t = HTML('<dtml-call "probe(_)"><dtml-try><dtml-tree branches_expr="kidsf()"><dtml-var nid></dtml-tree>'
                     '<dtml-except></dtml-try><dtml-call "probe(_)">')
            md = {'URL': 'u', 'RESPONSE': R(), 'probe': probe}
            if mode == 'expand_all':
                md['expand_all'] = 1
            try:
                t(root, md)
            except Exception as e:  # noqa
                res.oracle_fail.append({'case': {'tree': True, 'bad': bad_id, 'mode': mode},
                                        'what': 'driver raised %r' % (e,)})
                continue
            res.evaluations += 1
            if len(snaps) != 2 or (snaps[0][0][:-1], snaps[0][1]) != (snaps[1][0][:-1], snaps[1][1]):
                res.oracle_fail.append({'case': {'tree': True, 'bad': bad_id, 'mode': mode,
                                                 'src': 'dtml-tree branches_expr with a failing expression'},
                                        'what': 'namespace after dtml-tree differs from before: %d vs %d frames' % (
                                            len(snaps[-1][0]) if snaps else -1, len(snaps[0][0]) if snaps else -1)})


# --------------------------------------------------------------------------- runaway recursion (the recursion guard's exit)
#
# A family of structured programs in which templates call each other in a cycle until the engine's recursion guard stops them.
# Every member of the family is described by a parameter dictionary; `rec_case` builds the program (JSON blocks for the model,
# DTML source for the real classes) from it:
#   cycle       number of templates in the cycle (1 = a template calling itself)
#   globs/vars  per cycle member: does it have constructor defaults / `_vars` of its own (frames it pushes itself)
#   entry       which member the caller invokes first (decides in which member the guard fires)
#   form        how the next template is invoked (dtml-var / call / if / unless / in / with / let / return / _['name'])
#   ctx         the block the invocation sits in (none, with, with mapping, let, in over an object / a string / a mapping,
#               if, the else block of a try, an except handler, a finally block)
#   catch       who catches the error: every level itself (except SystemError / bare except), nobody inside (try..finally at
#               every level), the calling template, the driver template
#   try_outside whether the per-level dtml-try encloses the context block or sits inside it
#   fn          every level calls the namespace callable `f` first (fault injection then raises at a chosen depth instead)
# The driver D (top-level call: keyword arguments, a mapping, a client) calls P (the calling template, with its own context
# block) which calls the cycle.  D, P and every cycle member probe the namespace before and after the block that contains the
# call, and after it render names that live in each kind of frame (keyword argument, mapping, client attribute, defaults):
# a name that has gone raises KeyError and changes the outcome.

REC_FORMS = ['var', 'call', 'if', 'unless', 'in', 'with', 'let', 'ret', 'under', 'callunder']
REC_CTXS = ['none', 'with', 'withmap', 'let', 'in', 'instr', 'inmap', 'if', 'tryelse', 'handler', 'finally']
REC_CATCH = ['inner-sys', 'inner-any', 'inner-fin', 'main', 'driver']
KWV, MAPV, CLV = 'KW', 'MAP', 'CL'


def _var(n):
    return ['var', ['n', n], False, None, None]


def _probe():
    return ['call', ['e', ['call', ['name', 'probe']]]]


def rec_call(form, nxt):
    """the blocks that invoke the template bound to `nxt`"""
    if form == 'var':
        return [_var(nxt)]
    if form == 'call':
        return [['call', ['n', nxt]]]
    if form == 'if':
        return [['cond', [[['n', nxt], [['lit', 'y']]]], [['lit', 'n']]]]
    if form == 'unless':
        return [['unless', ['n', nxt], [['lit', 'u']]]]
    if form == 'in':
        return [['in', ['n', nxt], {}, [['lit', '.']], [['lit', 'e']]]]
    if form == 'with':
        return [['with', ['n', nxt], False, False, [['lit', 'w']]]]
    if form == 'let':
        return [['let', [['v1', ['n', nxt]]], [['lit', 'l']]]]
    if form == 'ret':
        return [['ret', ['n', nxt]]]
    if form == 'under':
        return [['var', ['e', ['under', nxt]], False, None, None]]
    if form == 'callunder':
        return [['call', ['e', ['under', nxt]]]]
    raise ValueError(form)


def rec_ctx(ctx, inner):
    """`inner` placed inside a block of kind `ctx`, followed (inside the block) by a name that only the block's own frame
    defines; the second value is the text that name renders"""
    if ctx == 'none':
        return inner, ''
    if ctx == 'with':
        return [['with', ['n', 'o1'], False, False, inner + [_var('oa')]]], 'OA'
    if ctx == 'withmap':
        return [['with', ['n', 'm1'], True, False, inner + [_var('ma')]]], 'MA'
    if ctx == 'let':
        return [['let', [['v0', ['n', 'kwv']]], inner + [_var('v0')]]], KWV
    if ctx == 'in':
        return [['in', ['n', 'seq1'], {}, inner + [_var('oa'), _var('sequence-index')], None]], 'OA0'
    if ctx == 'instr':
        return [['in', ['n', 'seqs'], {}, inner + [_var('sequence-item')], None]], 'a'
    if ctx == 'inmap':
        return [['in', ['n', 'seqm'], {'mapping': True}, inner + [_var('ma')], None]], 'MA'
    if ctx == 'if':
        return [['cond', [[['n', 'flag'], inner + [_var('flag')]]], None]], 'True'
    if ctx == 'tryelse':
        return [['try', [['lit', '']], [['', [['lit', 'X']]]], inner]], ''
    if ctx == 'handler':
        return [['try', [['raise', 'ValueError', None, [['lit', 'v']]]], [['ValueError', inner + [_var('error_type')]]],
                 None]], 'ValueError'
    if ctx == 'finally':
        return [['tryfin', [['lit', '']], inner]], ''
    raise ValueError(ctx)


def rec_lookups(extra=()):
    out = [['lit', '<']]
    for n in ['kwv', 'mapv', 'clv'] + list(extra):
        out += [_var(n), ['lit', '|']]
    return out + [['lit', '>']]


def rec_expected_lookups(extra_vals=()):
    return '<' + ''.join(v + '|' for v in [KWV, MAPV, CLV] + list(extra_vals)) + '>'


# what a full-depth recursion costs on the real classes differs a lot between the context blocks: an except handler formats a
# traceback of the whole interpreter stack at every level (seconds per run), and with / let / try blocks at every level use so
# much of CPython's own stack that it ends before the engine's guard is reached.  The quick tier's full-depth runs therefore
# draw their context blocks from this list (the handler context only in the thorough tier); the runs under a Python caller,
# which stands just below the threshold, use all of them
REC_CTXS_QUICK = ['none', 'none', 'if', 'if', 'instr', 'inmap', 'in', 'with', 'withmap', 'let', 'tryelse', 'finally']


def rec_params(r, form=None, catch=None, ctx=None, bare=None, ctxs=REC_CTXS):
    cycle = r.choice([1, 1, 2, 3])
    p = {'cycle': cycle,
         'globs': [r.random() < 0.5 for _ in range(cycle)],
         'vars': [r.random() < 0.3 for _ in range(cycle)],
         'entry': r.randrange(cycle),
         'form': form or r.choice(REC_FORMS),
         'ctx': ctx or r.choice(ctxs),
         'pctx': r.choice(ctxs),
         'pglobs': r.random() < 0.5,
         'catch': catch or r.choice(REC_CATCH),
         'try_outside': r.random() < 0.5,
         'fn': r.random() < 0.5,
         'clients': r.choice([1, 1, 2])}
    if bare if bare is not None else r.random() < 0.35:
        # nothing of its own anywhere in the cycle: the guard fires in a template that has pushed nothing
        p['globs'] = [False] * cycle
        p['vars'] = [False] * cycle
    return p


def rec_case(p):
    """the program of one family member (see above), in the form `interp.run_cases` / `proggen.run_impl` take"""
    n = p['cycle']
    names = ['rec%d' % i for i in range(n)]
    tmpl = []
    for i in range(n):
        nxt = names[(i + 1) % n]
        own = (['rdef%d' % i] if p['globs'][i] else []) + (['rvar%d' % i] if p['vars'][i] else [])
        call = rec_call(p['form'], nxt)
        catch = p['catch']
        if catch == 'inner-sys':
            wrap = lambda bs: [['try', bs, [['SystemError', [['lit', 'G']] + rec_lookups(own)]], None]]  # noqa
        elif catch == 'inner-any':
            wrap = lambda bs: [['try', bs, [['', [['lit', 'G']] + rec_lookups(own)]], None]]  # noqa
        elif catch == 'inner-fin':
            wrap = lambda bs: [['tryfin', bs, [['lit', 'F']] + rec_lookups(own)]]  # noqa
        else:
            wrap = lambda bs: bs  # noqa
        if p['try_outside']:
            mid = wrap(rec_ctx(p['ctx'], call)[0])
        else:
            mid = rec_ctx(p['ctx'], wrap(call))[0]
        blocks = [['lit', 'r%d' % i], _probe()] + ([['call', ['n', 'f']]] if p['fn'] else []) + mid + [_probe()] + \
            rec_lookups(own)
        tmpl.append({'blocks': blocks, 'globals': [['rdef%d' % i, {'s': 'RD%d' % i}]] if p['globs'][i] else [],
                     'vars': [['rvar%d' % i, {'s': 'RV%d' % i}]] if p['vars'][i] else [],
                     'source': proggen.print_blocks(blocks)})
    # P: the calling template
    pcall = rec_call('var', names[p['entry']])
    if p['catch'] == 'main':
        pcall = [['try', pcall, [['', [['lit', 'PC']]]], None]]
    pown = ['pdef'] if p['pglobs'] else []
    pblocks = [['lit', 'p'], _probe()] + rec_ctx(p['pctx'], pcall)[0] + [_probe()] + rec_lookups(pown)
    P = {'blocks': pblocks, 'globals': [['pdef', {'s': 'PD'}]] if p['pglobs'] else [], 'vars': [],
         'source': proggen.print_blocks(pblocks)}
    dblocks = [_probe(), ['try', [_var('prog')], [['', [['lit', 'CAUGHT']]]], None], _probe()] + rec_lookups()
    D = {'blocks': dblocks, 'globals': [], 'vars': [], 'source': proggen.print_blocks(dblocks)}
    obj = {'o': 1, 'a': [['oa', {'s': 'OA'}]]}
    kw = [['probe', {'f': proggen.PROBE_BASE, 'r': None}], ['prog', {'T': 1}], ['kwv', {'s': KWV}], ['flag', True],
          ['f', {'f': 1, 'r': {'s': ''}}], ['o1', obj], ['seq1', {'l': [{'o': 2, 'a': [['oa', {'s': 'OA'}]]}]}],
          ['seqs', {'l': [{'s': 'a'}]}], ['m1', {'d': [['ma', {'s': 'MA'}]]}], ['seqm', {'l': [{'d': [['ma', {'s': 'MA'}]]}]}]]
    kw += [[nm, {'T': 2 + i}] for i, nm in enumerate(names)]
    clients = [{'o': 900, 'a': [['clv', {'s': CLV}]]}]
    if p['clients'] == 2:
        clients = [{'o': 901, 'a': [['clv', {'s': 'hidden'}], ['cl0', {'s': 'C0'}]]}] + clients
    return {'templates': [D, P] + tmpl, 'main': 0, 'clients': clients, 'mapping': [['mapv', {'s': MAPV}]], 'kw': kw,
            'classes': proggen.class_table(), 'denied': [], 'guard': False, 'utf8': True}


GUARD_MSG = 'infinite recursion in document template'
# forms whose outcome, once a level has caught the error and returned a text, is not predicted here (dtml-return ends the
# caller's rendering, dtml-in refuses a text as its sequence): the frame / level oracle applies, the outcome is not judged
UNPREDICTED_FORMS = ('ret', 'in')
STACK_FINDING = 'C08-interpreter-stack-exhaustion-cleanup'


def snap_pairs(snap_ids):
    """the snapshots of one run grouped by recursion level.  In the family every template invocation runs at a level of its
    own and takes exactly two snapshots, one before and one after the block that contains its call: a level with two
    snapshots is an invocation that went on after that block, a level with one was left by an exception"""
    by_level = {}
    for ids, lv in snap_ids:
        by_level.setdefault(lv, []).append(ids[:-1])      # without the probe's own dtml-call cache frame
    return by_level


def rec_snap_oracle(snap_ids):
    bad = []
    by_level = snap_pairs(snap_ids)
    for lv in sorted(by_level):
        s = by_level[lv]
        if len(s) > 2:
            bad.append('%d snapshots at recursion level %d: the level counter was not restored somewhere below' % (len(s), lv))
        elif len(s) == 2 and s[0] != s[1]:
            bad.append('at recursion level %d the namespace holds %d frames after the block with the call, %d before (or '
                       'different / reordered frames)' % (lv, len(s[1]), len(s[0])))
    return bad, by_level


def rec_p_output(p):
    """what the calling template P renders when it catches the error itself (plain reading of its source: the literal,
    the handler's literal, the name of its context block, its lookups)"""
    return 'pPC' + rec_ctx(p['pctx'], [])[1] + rec_expected_lookups(['PD'] if p['pglobs'] else [])


def rec_oracle(p, impl, fault=None):
    """what the property says about one top-level run of a family member: every invocation that continued holds the frames
    it held before; the driver catches everything and finds the names of every frame kind afterwards; who else had to
    continue follows from who catches"""
    bad, by_level = rec_snap_oracle(impl['snap_ids'])
    res = impl['result']
    if len(by_level.get(1, [])) != 2:
        bad.append('the driver template did not reach its second probe: %r' % (res,))
    depth = max(by_level) if by_level else 0
    closed = sorted(lv for lv in by_level if len(by_level[lv]) == 2)
    tail = rec_expected_lookups()
    out = res.get('ok', {}).get('s') if isinstance(res.get('ok'), dict) else None
    if out is None:
        bad.append('the driver template catches everything, yet the call ended with %r' % (res,))
        return bad
    if not out.endswith(tail):
        bad.append('names of the keyword / mapping / client frames are not rendered after the caught error: %r' % out[-60:])
    if fault is None and impl['max_level'] <= 200:
        # the interpreter's own stack ran out before the engine's guard: RecursionError is raised wherever the stack happens to
        # end, also inside handlers - who continues is not determined by the program; the rest of the oracle applies
        return bad
    catch = p['catch']
    # a fault injected at some depth is an ordinary exception: caught where SystemError is, except by `except SystemError`.
    # It is raised by the callable a level invokes BEFORE its own dtml-try: the level above catches it (if there is one)
    if catch in ('driver', 'inner-fin') or (fault is not None and (catch == 'inner-sys' or (catch == 'inner-any' and fault == 0))):
        if out != 'CAUGHT' + tail:
            bad.append('only the driver catches: expected %r, got %r' % ('CAUGHT' + tail, out[:80]))
        if closed != [1]:
            bad.append('only the driver continues, but levels %r took a second snapshot' % (closed[:6],))
    elif catch == 'main':
        if out != rec_p_output(p) + tail:
            bad.append('the calling template catches: expected %r, got %r' % (rec_p_output(p) + tail, out[:80]))
        if closed != [1, 2]:
            bad.append('driver and calling template continue, but levels %r took a second snapshot' % (closed[:6],))
    elif p['form'] not in UNPREDICTED_FORMS:
        # every level catches for itself: the deepest invocation continues, and so does everybody above it
        if 'CAUGHT' in out:
            bad.append('every level catches for itself, yet the error reached the driver: %r' % out[:80])
        if len(closed) != (depth if fault is None else depth - 1):
            bad.append('%d of %d levels continued after the caught error' % (len(closed), depth))
    return bad


def rec_compare(impl, m):
    """correspondence for the family: the same comparison as for every program, but the depth of the recursion is part of
    what is compared (the guard must fire at the same level, with the same error), not a reason to leave the run out.
    Runs in which CPython's own stack ended first (no model can exhibit that) are outside."""
    if impl['max_level'] <= 200 and impl['max_level'] > 40:
        return 'oom'
    ires, mres = impl['result'], m['result']
    if 'raise' in ires and 'raise' in mres and (ires['raise'], ires['msg']) != (mres['raise'], mres['msg']):
        return 'exception: impl %s %r, model %s %r' % (ires['raise'], ires['msg'], mres['raise'], mres['msg'])
    lite = dict(impl)
    lite['max_level'] = 0
    return interp.compare(lite, m)


# --------------------------------------------------------------------------- a Python caller holding the namespace
#
# The property's second kind of caller: Python code that owns a TemplateDict, calls a template with it as the mapping and goes
# on using it.  The caller decides what is on the namespace, at which recursion level it stands (a template called from deep
# inside an application: the guard then fires after a few calls, in whatever template and block the program is in at that
# moment), which client(s) and keyword arguments it passes, and which template class it uses (classes may override the two
# rendering hooks of String.__call__).  Oracle: the list of frames the caller pushed is, object for object, what the
# namespace holds afterwards, and the level is what the caller set - whatever the call did.

class HookError(Exception):
    pass


HOOKS = [None, 'before-value', 'before-raise', 'after-raise', 'before-return-none']


def build_world(case, faults=(), fault_cls='ValueError', hook=None):
    """the objects of a case (templates with their defaults, clients, mapping, keyword arguments), built from its JSON form
    the way proggen.run_impl builds them; `hook` = (template index, behaviour of its rendering hooks)"""
    from DocumentTemplate import HTML
    world = proggen.World(faults, proggen.CLASSES[fault_cls][0])

    class Hooked(HTML):
        hook_mode = None

        def __call__(self, client=None, mapping=None, **kw):
            lv = getattr(mapping, 'level', 0) if mapping is not None else 0
            if isinstance(lv, int) and lv > world.max_level:
                world.max_level = lv
            return HTML.__call__(self, client, mapping, **kw)

        def ZDocumentTemplate_beforeRender(self, md, default):
            if self.hook_mode == 'before-value':
                return 'HOOKED'
            if self.hook_mode == 'before-return-none':
                return None
            if self.hook_mode == 'before-raise':
                raise HookError('before')
            return default

        def ZDocumentTemplate_afterRender(self, md, result):
            if self.hook_mode == 'after-raise':
                raise HookError('after')
    templates = [Hooked(t['source']) for t in case['templates']]
    for i, (t, tj) in enumerate(zip(templates, case['templates'])):
        t.globals = {k: proggen.to_py(world, v, templates) for k, v in tj['globals']}
        t._vars = {k: proggen.to_py(world, v, templates) for k, v in tj['vars']}
        if hook and hook[0] == i:
            t.hook_mode = hook[1]
    clients = [proggen.to_py(world, c, templates) for c in case['clients']]
    mapping = {k: proggen.to_py(world, v, templates) for k, v in case['mapping']}
    kw = {k: proggen.to_py(world, v, templates) for k, v in case['kw']}
    return world, templates, clients, mapping, kw


CALL_CLIENTS = ['none', 'one', 'two', 'empty']


def py_call(case, index, level0, call_client='none', call_kw=False, faults=(), fault_cls='ValueError', hook=None):
    """call template `index` of the case the way a Python caller does that holds the namespace"""
    import sys
    from DocumentTemplate._DocumentTemplate import InstanceDict, TemplateDict
    if sys.getrecursionlimit() < 20000:
        sys.setrecursionlimit(20000)
    world, templates, clients, mapping, kw = build_world(case, faults, fault_cls, hook)
    md = TemplateDict()
    md.guarded_getattr = None
    md.guarded_getitem = None
    held = [mapping] + [InstanceDict(c, md) for c in clients] + [kw]
    for f in held:
        md._push(f)
    md.level = level0
    extra = [proggen.Obj(950 + i, {'extra%d' % i: 'E%d' % i}) for i in range(2)]
    client = {'none': None, 'one': extra[0], 'two': tuple(extra), 'empty': ()}[call_client]
    ckw = {'callkw': 'CK'} if call_kw else {}
    try:
        out = templates[index](client, md, **ckw)
        res = {'ok': out}
    except RecursionError:
        res = {'raise': 'RecursionError', 'msg': ''}
    except Exception as e:  # noqa
        res = {'raise': type(e).__name__, 'msg': proggen.exc_msg(e)}
    after = list(md._data)
    bad = []
    if len(after) != len(held) or any(x is not y for x, y in zip(after, held)):
        bad.append('the caller pushed %d frames; after the call the namespace holds %d (or different / reordered frames)' % (
            len(held), len(after)))
    if md.level != level0:
        bad.append('the caller set recursion level %r; after the call it is %r' % (level0, md.level))
    return {'result': res, 'bad': bad, 'snap_ids': world.snap_ids, 'max_level': world.max_level, 'calls': world.calls}


def rec_py_oracle(p, level0, run, fault=None):
    """family member called by a Python caller (template P) at recursion level `level0`"""
    bad = list(run['bad'])
    bad += rec_snap_oracle(run['snap_ids'])[0]
    res = run['result']
    if fault is not None:
        return bad
    guard = {'raise': 'SystemError', 'msg': GUARD_MSG}
    catch = p['catch']
    # level0 > 200: the guard fires in the called template itself; level0 == 200: in the first template it calls (no
    # cycle member is ever entered, so only the calling template can catch)
    if level0 > 200 or catch in ('driver', 'inner-fin') or (level0 == 200 and catch != 'main'):
        if res != guard:
            bad.append('nobody below the caller catches the guard\'s error: expected %r, got %r' % (guard, res))
    elif catch == 'main':
        if res != {'ok': rec_p_output(p)}:
            bad.append('the calling template catches: expected %r, got %r' % (rec_p_output(p), res))
    elif p['form'] not in UNPREDICTED_FORMS:
        tail = rec_expected_lookups(['PD'] if p['pglobs'] else [])
        if not (isinstance(res.get('ok'), str) and res['ok'].endswith(tail)):
            bad.append('every level catches for itself and the calling template renders its names afterwards: expected '
                       '…%r, got %r' % (tail, res))
    return bad


def rec_family(res, r, tier):
    """(A) top-level renderings of family members, model and real classes; (B) the same members under a Python caller that
    stands at a recursion level just below / at / above the guard's threshold"""
    n_top = 10 if tier == 'quick' else 200
    n_py = 1000 if tier == 'quick' else 20000
    # (A) every invocation form x who catches, the other parameters random; in the quick tier a sample of the grid
    grid = [(f, c) for f in REC_FORMS for c in REC_CATCH]
    r.shuffle(grid)
    ctxs = REC_CTXS_QUICK if tier == 'quick' else REC_CTXS
    ps = [rec_params(r, form=f, catch=c, ctxs=ctxs) for f, c in (grid * (1 + n_top // len(grid)))[:n_top]]
    cases = [rec_case(p) for p in ps]
    plans = [((), 'ValueError')] * len(cases)
    # ... and some of them with an ordinary exception raised at some depth instead (needs the per-level callable)
    for p, c in list(zip(ps, cases))[:max(2, n_top // 4)]:
        if p['fn']:
            ps.append(p)
            cases.append(c)
            plans.append(((r.choice([0, 1, 2, 5, 30]),), r.choice(FAULT_CLASSES)))
    params_of = {id(c): p for p, c in zip(ps, cases)}
    for (c, plan, impl, m) in interp.run_cases(res, cases, plans):
        p = params_of[id(c)]
        res.evaluations += 1
        fault = plan[0][0] if plan[0] else None
        desc = {'family': 'runaway recursion, top-level rendering', 'params': p, 'faults': list(plan[0]),
                'fault_cls': plan[1], 'templates': [t['source'] for t in c['templates']]}
        res.count('recursion_family_top')
        res.count('recursion_stopped_by=%s' % ('fault' if fault is not None else 'guard' if impl['max_level'] > 200
                                                 else 'interpreter stack'))
        stack_ended = fault is None and impl['max_level'] <= 200
        for f in rec_oracle(p, impl, fault):
            if stack_ended:
                # the interpreter's own stack ended before the engine's guard (CPython 3.12: near 125-190 nested template
                # calls, depending on the blocks per level): the clean-up code itself then fails - a finding, see
                # known_findings.json; exactly these runs are left out
                res.known_hits.setdefault(STACK_FINDING, {'params': p, 'templates': desc['templates'], 'what': f})
                res.count('stack_exhaustion_runs_with_leak')
                break
            res.oracle_fail.append({'case': desc, 'what': f})
        res.nt(('rec-top', json.dumps(p, sort_keys=True), plan[0]))
        if m is not None:
            d = rec_compare(impl, m)
            if d == 'oom':
                res.count('outside_model')
                continue
            res.corr_checked += 1
            if d:
                res.corr_mismatch.append({'case': desc, 'impl': impl['result'], 'model': m['result'], 'diff': d})
    # (B)
    for i in range(n_py):
        p = rec_params(r, form=REC_FORMS[i % len(REC_FORMS)], catch=REC_CATCH[(i // len(REC_FORMS)) % len(REC_CATCH)])
        c = rec_case(p)
        level0 = r.choice([201, 200, 200, 199, 199, 198, 197, 196, 190, 500])
        # mostly the calling template P; sometimes a member of the cycle directly
        index = 1 if r.random() < 0.8 else 2 + r.randrange(p['cycle'])
        cc = r.choice(CALL_CLIENTS)
        ckw = r.random() < 0.3
        fault = None
        if p['fn'] and r.random() < 0.15:
            fault = r.randrange(3)
        run = py_call(c, index, level0, cc, ckw, faults=() if fault is None else (fault,), fault_cls=r.choice(FAULT_CLASSES))
        res.evaluations += 1
        res.count('recursion_family_python_caller')
        if run['max_level'] > 200:
            res.count('python_caller_guard_fired')
        res.nt(('rec-py', json.dumps(p, sort_keys=True), index, level0, cc, ckw, fault))
        bad = rec_py_oracle(p, level0, run, fault) if index == 1 else run['bad'] + rec_snap_oracle(run['snap_ids'])[0]
        for f in bad:
            res.oracle_fail.append({'case': {'family': 'runaway recursion, Python caller holding the namespace', 'params': p,
                                             'called': index, 'level': level0, 'client': cc, 'keyword': ckw, 'fault': fault,
                                             'templates': [t['source'] for t in c['templates']]},
                                    'what': f, 'result': run['result']})


def python_caller(res, r, base, tier):
    """(C) every generated program under a Python caller: its main template (and its sub-template) called with a namespace the
    caller holds, at recursion levels around the guard's threshold, with one / several / no clients and keyword arguments,
    with and without an injected fault, with template classes whose rendering hooks return or raise"""
    # (never more than ~30 template calls below the caller: the interpreter's own stack must not be what ends the recursion)
    levels = [170, 190, 197, 198, 199, 200, 201, 202]
    per = 5 if tier == 'quick' else 12
    for c in base:
        for _ in range(per):
            level0 = r.choice(levels[2:]) if r.random() < 0.85 else r.choice(levels[:2])
            index = 1 if r.random() < 0.8 else 2
            hook = None
            if r.random() < 0.25:
                hook = (r.choice([1, 2]), r.choice(HOOKS[1:]))
            faults = (r.randrange(4),) if r.random() < 0.3 else ()
            cc = r.choice(CALL_CLIENTS)
            ckw = r.random() < 0.3
            fc = r.choice(FAULT_CLASSES)
            run = py_call(c, index, level0, cc, ckw, faults=faults, fault_cls=fc, hook=hook)
            res.evaluations += 1
            res.count('python_caller')
            if run['max_level'] > 200:
                res.count('python_caller_guard_fired')
            if hook:
                res.count('python_caller_hook=%s' % hook[1])
            if run['max_level'] > 200 or hook or (faults and run['calls'] > faults[0]):
                res.nt(('py', c['templates'][1]['source'], index, level0, cc, ckw, faults, hook))
            for f in run['bad']:
                res.oracle_fail.append({'case': {'python_caller': True, 'program': interp.brief(c), 'template': index,
                                                 'level': level0, 'client': cc, 'keyword': ckw, 'faults': list(faults),
                                                 'fault_cls': fc, 'hook': hook},
                                        'what': f, 'result': run['result']})



# --------------------------------------------------------------------------- namespaces of every shape under a Python caller
#
# Two further classes of inputs, run on the real classes only (the callables involved work on the namespace / on mappings that
# are frames of it, which the interpreter model's callables cannot):
#   (D) deep namespaces: the caller's TemplateDict already holds d entries when the template is called, for EVERY d of a range
#       (and d around powers of two / round numbers far above it); the templates are one per tag that puts entries on the
#       namespace (in by name / by expression / over mappings / batched, with, with mapping, with only, let, sub-template by
#       name / with keyword arguments / with a client and keyword arguments, tree), alone and inside every enclosing block
#       (try..except followed by a probe, try..finally, with, let, in), called with no client / a client / keyword arguments /
#       both.  Nothing in the documented behaviour limits the number of data sources.
#   (E) mappings that are frames of the namespace change size while a block is open: REQUEST.set (the request passed as a
#       mapping), a Python function that adds a key to / deletes a key from the mapping it is given or the top-most dictionary of
#       the namespace it is handed, the item of a `dtml-in .. mapping`, a sub-template that does so - in the body / handler /
#       else / finally block of every block tag x every exit (normal, dtml-raise caught / not caught, undefined name,
#       a raising callable, dtml-return) x every enclosing block, as a grid and as random nestings.
# Oracle (both): the frames the caller pushed are, object for object, what the namespace holds after the call and the level is
# what the caller set; every block of the template is bracketed by a pair of probes, and whenever the second probe of a pair
# runs it sees exactly the frames (identity, order) and the level the first one saw.

class NsRequest(dict):
    """a mapping with the `set` method of Zope's REQUEST"""

    def set(self, name, value):
        self[name] = value


class NsWorld:
    def __init__(self):
        from DocumentTemplate import HTML
        self.pre = {}
        self.bad = []
        self.pairs = 0
        self.counter = 0
        w = self

        def probe(md, ident, second):
            # (of a very deep namespace the probes keep the number of entries and the 64 on top; the caller compares all)
            d = md._data
            snap = ((len(d), d[-64:]) if len(d) > 256 else (len(d), list(d)), md.level)
            if not second:
                w.pre[ident] = snap
                return ''
            first = w.pre.pop(ident, None)
            if first is None:
                return ''
            w.pairs += 1
            (n0, f0), (n1, f1) = first[0], snap[0]
            if n0 != n1 or len(f0) != len(f1) or any(x is not y for x, y in zip(f0, f1)):
                w.bad.append('block %s: the namespace holds %d entries after the block, %d before it (or different / '
                             'reordered entries)' % (ident, n1, n0))
            if first[1] != snap[1]:
                w.bad.append('block %s: recursion level %r after the block, %r before it' % (ident, snap[1], first[1]))
            return ''

        def grow(m):
            w.counter += 1
            m['grown%d' % w.counter] = 1
            return ''

        def growtop(md):
            for f in reversed(md._data):
                if type(f) in (dict, NsRequest):
                    grow(f)
                    break
            return ''

        def shrink(md):
            for f in reversed(md._data):
                if type(f) in (dict, NsRequest):
                    ks = [k for k in f if isinstance(k, str) and k.startswith('grown')]
                    if ks:
                        del f[ks[0]]
                        break
            return ''

        def boom():
            raise ValueError('boom')

        class Node:
            def __init__(s, nid, kids):
                s.nid, s.kids = nid, kids

            def tpId(s):
                return s.nid

        class Resp:
            def setCookie(s, *a, **k):
                pass
        self.req = NsRequest(ra='RA')
        self.obj = proggen.Obj(960, {'oa': 'OA'})
        self.client = proggen.Obj(961, {'ca': 'CA'})
        self.root = Node('r', [Node('a', [Node('a1', [])]), Node('b', [])])
        self.sub = HTML('<dtml-var a>')
        self.subm = HTML('<dtml-call "REQUEST.set(\'sm\', a)"><dtml-call "growtop(_)"><dtml-var a>')
        self.subx = HTML('<dtml-call "growtop(_)"><dtml-with obj><dtml-call "REQUEST.set(\'sx\', 1)"><dtml-var nosuchname>'
                         '</dtml-with>')
        self.top = {'seq': [1, 2], 'seqm': [{'ma': 'MA'}, {'ma': 'MB'}], 'obj': self.obj, 'm1': {'ma': 'MA'}, 'a': 1,
                    'sub': self.sub, 'subm': self.subm, 'subx': self.subx, 'probe': probe, 'grow': grow, 'growtop': growtop,
                    'shrink': shrink, 'boom': boom, 'root': self.root, 'URL': 'u', 'RESPONSE': Resp(), 'REQUEST': self.req,
                    'empty': []}

    def reset(self):
        self.pre.clear()
        del self.bad[:]
        for k in [k for k in self.req if k != 'ra']:
            del self.req[k]
        for d in [self.top, self.top['m1']] + self.top['seqm']:
            for k in [k for k in d if isinstance(k, str) and k.startswith('grown')]:
                del d[k]


NS_CALLFORMS = ['plain', 'client', 'kw', 'client+kw', 'clients']


def ns_call(w, t, md, held, level0, callform):
    """one call by a Python caller whose namespace `md` holds the entries `held` (they are put there afresh)"""
    w.reset()
    md._data[:] = held
    md.level = level0
    client = {'plain': None, 'kw': None, 'client': w.client, 'client+kw': w.client, 'clients': (w.client, w.obj)}[callform]
    ckw = {'callkw': 'CK'} if 'kw' in callform else {}
    try:
        out = t(client, md, **ckw)
        res = {'ok': out}
    except RecursionError:
        res = {'raise': 'RecursionError', 'msg': ''}
    except Exception as e:  # noqa  (the caller catches, whatever it is)
        res = {'raise': type(e).__name__, 'msg': str(e)[:80]}
    after = md._data
    bad = list(w.bad)
    if len(after) != len(held) or not all(map(operator.is_, after, held)):
        bad.append('the caller\'s namespace held %d entries when the template was called; after the call it holds %d (or '
                   'different / reordered entries; on top now: %.60r)' % (len(held), len(after), after[-1] if after else None))
    if md.level != level0:
        bad.append('the caller set recursion level %r; after the call it is %r' % (level0, md.level))
    return res, bad


def _pp(ident, src):
    return '<dtml-var "probe(_, %r, 0)">%s<dtml-var "probe(_, %r, 1)">' % (ident, src, ident)


# (D) one template per tag that puts entries on the namespace; %s = what is rendered inside (nothing here)
NS_TAGS = [
    ('in-name', '<dtml-in seq><dtml-var sequence-item></dtml-in>'),
    ('in-expr', '<dtml-in "seq"><dtml-var sequence-item></dtml-in>'),
    ('in-mapping', '<dtml-in seqm mapping><dtml-var ma></dtml-in>'),
    ('in-batch', '<dtml-in seq size=1 start=2><dtml-var sequence-item></dtml-in>'),
    ('in-batch-prev', '<dtml-in seq size=1 start=2 previous>p</dtml-in>'),
    ('in-else', '<dtml-in empty>x<dtml-else>e</dtml-in>'),
    ('with', '<dtml-with obj><dtml-var oa></dtml-with>'),
    ('with-mapping', '<dtml-with m1 mapping><dtml-var ma></dtml-with>'),
    ('with-only', '<dtml-with obj only><dtml-var oa></dtml-with>'),
    ('let', '<dtml-let b=a c="b"><dtml-var c></dtml-let>'),
    ('if', '<dtml-if a>y</dtml-if>'),
    ('sub-name', '<dtml-var sub>'),
    ('sub-kw', '<dtml-var "sub(None, _, a=2)">'),
    ('sub-client-kw', '<dtml-var "sub(obj, _, a=2)">'),
    ('try-except', '<dtml-try><dtml-var nosuchname><dtml-except>h</dtml-try>'),
    ('tree', '<dtml-tree root branches_expr="kids"><dtml-var nid></dtml-tree>'),
]
NS_WRAPS = [
    ('none', '%s'),
    ('try', '<dtml-try>%s<dtml-except>E</dtml-try>'),
    ('try-finally', '<dtml-try>%s<dtml-finally>F</dtml-try>'),
    ('with', '<dtml-with obj>%s</dtml-with>'),
    ('with-mapping', '<dtml-with m1 mapping>%s</dtml-with>'),
    ('let', '<dtml-let b=a>%s</dtml-let>'),
    ('in', '<dtml-in seq>%s</dtml-in>'),
    ('try-with-let', '<dtml-try><dtml-with obj mapping><dtml-let b=a>%s</dtml-let></dtml-with><dtml-except>E</dtml-try>'),
]


def deep_namespaces(res, r, tier):
    """every lookup on a namespace of d entries may cost d steps, so the depths are explored in three ways: (1) the whole family
    (tag x enclosing block x call form) at every small depth; (2) every depth of a long range with a few members in rotation;
    (3) a boundary search: what a template renders does not depend on how many entries lie below the ones it uses, so every
    tag is rendered on an exponential grid of depths (up to 2**16 entries) and, wherever the outcome at two neighbouring grid
    points differs, the depth at which it changes is located by bisection and the whole family is run at every depth around it"""
    from DocumentTemplate import HTML
    from DocumentTemplate._DocumentTemplate import TemplateDict
    w = NsWorld()
    family = []
    for tn, tsrc in NS_TAGS:
        for wn, wsrc in NS_WRAPS:
            src = _pp('whole', wsrc % _pp('tag', tsrc))
            try:
                family.append((tn, wn, src, HTML(src)))
            except Exception as e:  # noqa
                res.oracle_fail.append({'case': {'family': 'deep namespace', 'src': src}, 'what': 'does not parse: %r' % (e,)})
    plain = [f for f in family if f[1] == 'none']
    wrapped = [f for f in family if f[1] != 'none']
    md = TemplateDict()
    md.guarded_getattr = None
    md.guarded_getitem = None
    fillers = []
    reported = set()
    runs = [0]

    def run_at(depth, member, cf, level0=0):
        tn, wn, src, t = member
        while len(fillers) < depth:
            fillers.append({'filler%d' % len(fillers): 1})
        # `depth` entries below the one with the names (so that most lookups stay cheap): depth + 1 on entry
        out, bad = ns_call(w, t, md, fillers[:depth] + [w.top], level0, cf)
        runs[0] += 1
        if 'raise' in out:
            res.count('deep_namespace_call_raised=%s' % out['raise'])
        for f in bad:
            key = (tn, wn, cf, f[:40])
            if key in reported:
                continue
            reported.add(key)
            res.oracle_fail.append({'case': {'family': 'deep namespace under a Python caller', 'entries_on_entry': depth + 1,
                                             'tag': tn, 'enclosing': wn, 'call': cf, 'src': src,
                                             'namespace': '%d one-key dictionaries below the one with the names' % depth},
                                    'what': f, 'result': out})
        return out

    def whole_family(depth):
        for i, f in enumerate(family):
            if f[1] == 'none':
                for cf in NS_CALLFORMS:
                    run_at(depth, f, cf, 0 if depth % 3 else 7)
            else:
                run_at(depth, f, NS_CALLFORMS[(depth + i) % len(NS_CALLFORMS)])
    # (1)
    for depth in range(0, 24 if tier == 'quick' else 300):
        whole_family(depth)
    # (2)
    for depth in range(24, 2048 if tier == 'quick' else 20000):
        for f, cf in [(plain[depth % len(plain)], NS_CALLFORMS[(depth // len(plain)) % len(NS_CALLFORMS)]),
                      (r.choice(family), r.choice(NS_CALLFORMS))]:
            run_at(depth, f, cf)
    # (3)
    grid = [0] + [1 << k for k in range(0, 17)]
    boundaries = set()
    for f in plain:
        for cf in ('plain', 'client+kw'):
            outs = [run_at(d, f, cf) for d in grid]
            for (d0, o0), (d1, o1) in zip(zip(grid, outs), zip(grid[1:], outs[1:])):
                if o0 != o1:
                    lo, hi = d0, d1
                    while hi - lo > 1:
                        mid = (lo + hi) // 2
                        if run_at(mid, f, cf) == o0:
                            lo = mid
                        else:
                            hi = mid
                    boundaries.add(hi)
    res.count('deep_namespace_outcome_boundaries', len(boundaries))
    around = set()
    for b in sorted(boundaries)[:6]:
        around.update(range(max(0, b - 8), b + 3))
    for depth in sorted(around):
        whole_family(depth)
    n = runs[0]
    res.evaluations += n
    res.count('deep_namespace_runs', n)
    res.nt(('deep-ns', len(family), n))
    for tn, wn, src, t in family:
        res.nt(('deep-ns', tn, wn))


# (E)
NS_MUTATORS = [
    ('request-set', '<dtml-call "REQUEST.set(\'grownr%d\', 1)">'),
    ('request-set-twice', '<dtml-call "REQUEST.set(\'grownr%d\', 1)"><dtml-call "REQUEST.set(\'grownq%d\', 2)">'),
    ('grow-top', '<dtml-call "growtop(_)">'),
    ('grow-mapping', '<dtml-call "grow(m1)">'),
    ('grow-item', '<dtml-in seqm mapping><dtml-call "grow(_[\'sequence-item\'])"></dtml-in>'),
    ('grow-shrink', '<dtml-call "growtop(_)"><dtml-call "growtop(_)"><dtml-call "shrink(_)">'),
    ('shrink', '<dtml-call "shrink(_)">'),
    ('sub-mutates', '<dtml-var subm>'),
    ('sub-mutates-kw', '<dtml-var "subm(None, _, a=3)">'),
    ('none', ''),
]
NS_EXITS = [
    ('normal', 'n'),
    ('raise', '<dtml-raise ValueError>x</dtml-raise>'),
    ('undefined', '<dtml-var nosuchname>'),
    ('callable-raises', '<dtml-call "boom()">'),
    ('return', '<dtml-return a>'),
    ('sub-raises', '<dtml-var subx>'),
]
# block tags with the place(s) where the mutation + exit happen: %(b)s; %(m)s is a mutation alone
NS_BLOCKS = [
    ('try-except', '<dtml-try>%(b)s<dtml-except>h</dtml-try>'),
    ('try-except-named', '<dtml-try>%(b)s<dtml-except KeyError>k<dtml-except ValueError>v</dtml-try>'),
    ('try-except-other', '<dtml-try>%(b)s<dtml-except TypeError>t</dtml-try>'),
    ('try-else', '<dtml-try>%(m)s<dtml-except>h<dtml-else>%(b)s</dtml-try>'),
    ('try-handler', '<dtml-try>%(m)s<dtml-var nosuchname><dtml-except>%(b)s</dtml-try>'),
    ('try-finally', '<dtml-try>%(b)s<dtml-finally>f</dtml-try>'),
    ('try-finally-block', '<dtml-try>t<dtml-finally>%(b)s</dtml-try>'),
    ('try-in-try', '<dtml-try><dtml-try>%(b)s<dtml-finally>%(m)s</dtml-try><dtml-except>h</dtml-try>'),
    ('with', '<dtml-with obj>%(b)s</dtml-with>'),
    ('with-mapping', '<dtml-with m1 mapping>%(b)s</dtml-with>'),
    ('with-request', '<dtml-with REQUEST mapping>%(b)s</dtml-with>'),
    ('let', '<dtml-let b=a>%(b)s</dtml-let>'),
    ('in', '<dtml-in seq>%(b)s</dtml-in>'),
    ('in-mapping', '<dtml-in seqm mapping>%(b)s</dtml-in>'),
    ('in-batch', '<dtml-in seq size=1 start=2>%(b)s</dtml-in>'),
    ('in-else', '<dtml-in empty>x<dtml-else>%(b)s</dtml-in>'),
    ('if', '<dtml-if a>%(b)s</dtml-if>'),
    ('if-else', '<dtml-if nosuchflag>x<dtml-else>%(b)s</dtml-if>'),
    ('unless', '<dtml-unless nosuchflag>%(b)s</dtml-unless>'),
]
NS_OUTER = [
    ('none', '%s'),
    ('let', '<dtml-let top="\'TOP\'">%s<dtml-var top></dtml-let>'),
    ('with-in', '<dtml-with obj><dtml-in seq>%s<dtml-var oa><dtml-var sequence-item></dtml-in></dtml-with>'),
    ('try', '<dtml-try>%s<dtml-except>O</dtml-try><dtml-var a>'),
    ('try-finally', '<dtml-try>%s<dtml-finally>OF</dtml-try>'),
    ('with-request', '<dtml-with REQUEST mapping>%s<dtml-var ra></dtml-with>'),
]
# what the caller has on its namespace (besides the dictionary with the names)
NS_SHAPES = ['request-below', 'request-above', 'request-twice', 'no-request', 'kw-on-top']


def ns_held(w, shape):
    if shape == 'request-below':
        return [{'below': 1}, w.req, w.top]
    if shape == 'request-above':
        return [w.top, w.req]
    if shape == 'request-twice':
        return [w.req, w.top, {}, w.req]
    if shape == 'kw-on-top':
        return [w.req, w.top, {'kwtop': 1}]
    return [{}, w.top]


def ns_random_block(r, depth, state):
    """a random nesting of block tags with mutations and exits at random places, every block bracketed by probes"""
    state[0] += 1
    ident = 'b%d' % state[0]

    def piece():
        x = r.random()
        if depth > 0 and x < 0.45:
            return ns_random_block(r, depth - 1, state)
        if x < 0.8:
            state[0] += 1
            m = r.choice(NS_MUTATORS[:-1])[1]
            return m.replace('%d', str(state[0]))
        if x < 0.93:
            return r.choice(NS_EXITS)[1]
        return r.choice(['<dtml-var a>', 'txt', '<dtml-var sub>'])
    body = ''.join(piece() for _ in range(r.choice([1, 2, 2, 3])))
    mut = r.choice(NS_MUTATORS)[1].replace('%d', str(state[0]) + 'm')
    return _pp(ident, r.choice(NS_BLOCKS)[1] % {'b': body, 'm': mut})


def mutated_frames(res, r, tier):
    from DocumentTemplate import HTML
    from DocumentTemplate._DocumentTemplate import TemplateDict
    w = NsWorld()
    md = TemplateDict()
    md.guarded_getattr = None
    md.guarded_getitem = None
    progs = []
    # the grid: block x mutation x exit, the enclosing block / mutation-before-or-after-the-exit / namespace shape / call form in
    # rotation (thorough: all enclosing blocks)
    i = 0
    for bn, bsrc in NS_BLOCKS:
        for mn, msrc in NS_MUTATORS:
            for en, esrc in NS_EXITS:
                outers = NS_OUTER if tier == 'thorough' else [NS_OUTER[(i + i // 6) % len(NS_OUTER)]]
                for on, osrc in outers:
                    i += 1
                    m = msrc.replace('%d', str(i))
                    body = m + esrc if i % 5 else esrc + m
                    src = _pp('whole', osrc % _pp('block', bsrc % {'b': body, 'm': m.replace('grown', 'grownx')}))
                    progs.append(({'block': bn, 'mutation': mn, 'exit': en, 'enclosing': on}, src))
    for j in range(350 if tier == 'quick' else 20000):
        state = [0]
        src = ''.join(ns_random_block(r, r.choice([1, 2, 2, 3]), state) for _ in range(r.choice([1, 1, 2])))
        progs.append(({'random_nesting': j}, _pp('whole', src) + '<dtml-var a>'))
    n = 0
    for desc, src in progs:
        try:
            t = HTML(src)
            t.cook()
        except Exception as e:  # noqa
            res.oracle_fail.append({'case': dict(desc, src=src), 'what': 'the generated template does not parse: %r' % (e,)})
            continue
        shapes = NS_SHAPES if tier == 'thorough' else [NS_SHAPES[n % len(NS_SHAPES)], r.choice(NS_SHAPES)]
        for shape in shapes:
            cf = r.choice(NS_CALLFORMS)
            level0 = r.choice([0, 0, 3, 150])
            out, bad = ns_call(w, t, md, ns_held(w, shape), level0, cf)
            n += 1
            res.count('mutated_frames_outcome=%s' % ('ok' if 'ok' in out else out['raise']))
            for f in bad[:3]:
                res.oracle_fail.append({'case': dict(desc, family='mappings on the namespace change size inside a block',
                                                     namespace=shape, call=cf, level=level0, src=src),
                                        'what': f, 'result': out})
        res.nt(('ns-mut', src))
    res.evaluations += n
    res.count('mutated_frames_runs', n)
    res.count('mutated_frames_probe_pairs', w.pairs)


def run(res, tier, have_driver):
    r = common.rng('C08')
    res.have_driver = have_driver
    res.rule = ('random programs over all block tags (nesting <= 3, sub-template calls, dtml-return / dtml-raise / undefined '
                'names inside every block kind), each run with no fault and with the k-th callable invocation raising for '
                'every k < N (N = invocation points of the fault-free run), plus random pairs of faults, exception classes '
                'ValueError / KeyError / E2 / TypeError; non-trivial = distinct (program, fault plan) where a fault actually '
                'fired or a return/raise was executed inside a block.  Runaway recursion (the exit through the recursion guard): a '
                'family of structured programs - cycles of 1-3 templates with / without defaults and _vars of their own, the next '
                'template invoked through var / call / if / unless / in / with / let / return / _[name], from inside every kind of '
                'block (with, with mapping, let, in over objects / strings / mappings, if, try-else, except handler, finally), '
                'the error caught by every level itself (except SystemError / bare except) / passed through try..finally at every '
                'level / caught by the calling template / by the driver - (A) rendered top-level at full depth on model and real '
                'classes (guard level and message compared), (B) called by a Python caller that holds the TemplateDict and stands '
                'at recursion level 190..201 / 500, with no / one / two / an empty tuple of clients and keyword arguments, '
                'optionally with an ordinary fault at some depth; every invocation snapshots the namespace before and after the '
                'block with the call, names of every frame kind are rendered after the catch, the outcome is predicted from who '
                'catches.  (C) every generated program (main and sub-template) under such a Python caller at levels 170..202, '
                'with faults and with template classes whose before/after rendering hooks return a value / None / raise.  (D) deep '
                'namespaces under a Python caller: one template per tag that puts entries on the namespace x enclosing block x call '
                'form, the whole family at every small depth, members in rotation at every depth of a long range, and around every '
                'depth at which the outcome of any tag changes (exponential grid up to 2**16 entries + bisection).  (E) mappings '
                'that are frames of the namespace gain / lose keys while a block is open (REQUEST.set, Python functions working on '
                'the mapping / namespace they are handed, dtml-in mapping items, sub-templates): block tag x mutation x exit x '
                'enclosing block grid and random nestings, x namespace shape x call form; every block bracketed by probe pairs')
    n_prog = 250 if tier == 'quick' else 3000
    cases, plans = [], []
    base = [proggen.wrap_case(proggen.gen_case(r, r.choice([2, 3, 3]), robust=r.random() < 0.7)) for _ in range(n_prog)]
    # first pass: fault-free, to learn N
    first = interp.run_cases(res, base)
    for (c, plan, impl, m) in first:
        n = impl['calls']
        res.count('invocation_points=%s' % (n if n < 6 else '6+'))
        ks = list(range(n)) if tier == 'thorough' or n <= 8 else sorted(r.sample(range(n), 8))
        for k in ks:
            cases.append(c)
            plans.append(((k,), r.choice(FAULT_CLASSES)))
        for _ in range(2 if n >= 2 else 0):
            a, b = sorted(r.sample(range(n), 2))
            cases.append(c)
            plans.append(((a, b), r.choice(FAULT_CLASSES)))
    runs = first + interp.run_cases(res, cases, plans)
    for (c, plan, impl, m) in runs:
        res.evaluations += 1
        res.count('outcome=' + ('raise' if 'raise' in impl['result'] else 'ok'))
        for f in oracle(impl):
            res.oracle_fail.append({'case': {'program': interp.brief(c), 'faults': list(plan[0]), 'fault_cls': plan[1]},
                                    'what': f})
        fired = bool(plan[0]) and impl['calls'] > min(plan[0])
        if fired or 'dtml-return' in c['templates'][1]['source'] or 'dtml-raise' in c['templates'][1]['source']:
            res.nt((c['templates'][1]['source'], plan[0], plan[1]))
        if m is not None:
            d = interp.compare(impl, m)
            if d == 'oom':
                res.count('outside_model')
                continue
            res.corr_checked += 1
            if d:
                res.corr_mismatch.append({'case': {'program': interp.brief(c), 'faults': list(plan[0]),
                                                   'fault_cls': plan[1]},
                                          'impl': impl['result'], 'model': m['result'], 'diff': d})
    for i in (0, len(runs) // 2, len(runs) - 1):
        c, plan, impl, m = runs[i]
        res.sample({'program': c['templates'][1]['source'][:400], 'faults': list(plan[0]), 'fault_cls': plan[1],
                    'impl_result': impl['result'], 'snapshots_before_after': [impl['snap_ids'][0][1], impl['snap_ids'][-1][1]]
                    if len(impl['snap_ids']) >= 2 else None})
    rec_family(res, common.rng('C08-rec'), tier)
    python_caller(res, common.rng('C08-py'), base, tier)
    tree_leak_probe(res)
    deep_namespaces(res, common.rng('C08-deep'), tier)
    mutated_frames(res, common.rng('C08-mut'), tier)
    res.partial.append('dtml-tree is outside the interpreter model: its push/pop sites (tpRender, tpRenderTABLE, get_items) '
                       'are covered by the fault-injection oracle only')
    res.partial.append('renderings in which CPython\'s own stack ends before the engine\'s recursion guard (RecursionError inside '
                       'clean-up code) are a known finding and outside the family\'s oracle / correspondence')
    res.assumptions += ['the interpreter model (Render.lean) is validated, not verified, against the real classes: results, '
                        'call traces and namespace snapshots taken by probe callables inside the blocks are compared',
                        'an InstanceDict\'s attribute cache is not part of the namespace identity (theorem: erase)']


def search_more(res, tier):
    r = common.rng('C08-more')
    res2 = common.Result('C08')
    res2.have_driver = False
    found = []
    for _ in range(300):
        c = proggen.wrap_case(proggen.gen_case(r, 3))
        impl0 = proggen.run_impl(c)
        for k in range(min(impl0['calls'], 10)):
            impl = proggen.run_impl(c, (k,), r.choice(FAULT_CLASSES))
            for f in oracle(impl):
                found.append({'case': {'program': interp.brief(c), 'faults': [k]}, 'what': f})
        for _ in range(4):
            run = py_call(c, r.choice([1, 1, 2]), r.choice([190, 198, 199, 200, 201]),
                          r.choice(CALL_CLIENTS), r.random() < 0.3, faults=(r.randrange(4),) if r.random() < 0.3 else (),
                          hook=(r.choice([1, 2]), r.choice(HOOKS[1:])) if r.random() < 0.25 else None)
            for f in run['bad']:
                found.append({'case': {'python_caller': True, 'program': interp.brief(c)}, 'what': f})
        if len(found) > 3:
            break
    if not found:
        res2.have_driver = False
        rec_family(res2, r, 'quick')
        found += res2.oracle_fail[:4]
    return found


def replay(path):
    with open(path) as f:
        d = json.load(f)
    print(json.dumps(d['first'], indent=1)[:3000])
    return 1
