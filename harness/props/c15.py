"""C15 — dtml-var options apply a fixed, documented value pipeline.

Correspondence: Lean `VarPipe.render` vs the real tag for str / int / None / objects with
methods / undefined names, every subset and written order of modifiers, formats, sizes, etc.
Oracle (independent of the model, written from the documentation): order independence,
missing/null, truncation, case methods, thousands grouping, url round trip, sql_quote.
Reference pipeline (pipe_oracle): the whole documented pipeline written in plain Python, evaluated on
every conversion code of the %(name ...)code syntax, %-formats / methods / special formats of fmt=,
numeric value types, texts that must be taken verbatim (case, blanks), names that differ in case only,
and on histories (one compiled template rendered with several values in a row).
"""
import decimal
import fractions
import html
import json
import math
import re
import urllib.parse

import common
import varpipe
from varpipe import MODS, SPECIAL

WORDS = ['', 'a', 'Hello World', 'hello_big_world', 'x y  z', "it's", "a'b''c", 'na\x00me\x1a\r\n', '1234567',
         '-1234567.891', '12,345', '$1000', '1000000', '999', 'a%20b', '%41', '100%', 'a+b c/d', 'ÄÖ ß straße',
         'ǆ ǅ', 'İı', 'a_b-c', '   ', 'trailing ', ' leading', 'no-blank-here-at-all', 'αβγ δ', '中文 字',
         '\U0001F600 smile', 'tab\tsep', 'line1\nline2', '<b>&"', 'UPPER lower']


def gen_value(r, for_model):
    c = r.random()
    if c < 0.55:
        s = r.choice(WORDS)
        if r.random() < 0.3:
            s = s + r.choice(WORDS)
        if for_model:
            # the model's Ext instance: ASCII case mapping, codec on valid UTF-8 escapes
            pass
        return {'kind': 'str', 's': s, 't': False}
    if c < 0.7:
        return {'kind': 'int', 'i': r.choice([0, 1, -1, 7, 42, 999, 1000, 1234567, -7654321, 10 ** 12])}
    if c < 0.78:
        return {'kind': 'none'}
    if c < 0.86:
        return {'kind': 'undefined'}
    if c < 0.95:
        return {'kind': 'obj', 's': r.choice(WORDS), 'truthy': r.random() < 0.7,
                'methods': {'hello': r.choice(WORDS), 'title2': 'T'}}
    return {'kind': 'str', 's': '<' + r.choice(WORDS), 't': True}


def cased_ok(s):
    """is ASCII-only case mapping (the model's Ext instance) exact on s?"""
    return all(ord(ch) < 128 or (ch.upper() == ch and ch.lower() == ch) for ch in s)


def gen_spec(r):
    w = [m for m in MODS if r.random() < 0.18]
    r.shuffle(w)
    sp = {'written': w}
    c = r.random()
    if c < 0.45:
        sp['fmt'] = r.choice(SPECIAL + ['%s', 'x%sx', '%d', '%s%%', 'abc', '', 'upper', 'lower', 'capitalize',
                                        'hello', 'nosuch-format'])
    if r.random() < 0.45:
        sp['size'] = str(r.choice([0, 1, 2, 3, 4, 5, 6, 7, 8, 10, 11, 12, 20, 100, 'x', '-1', '+3']))
        if r.random() < 0.5:
            sp['etc'] = r.choice(['...', '', '>>', ' etc', '…'])
    elif r.random() < 0.1:
        sp['etc'] = '!!'
    if r.random() < 0.25:
        sp['null'] = r.choice(['', 'NULL', 'n/a'])
    if r.random() < 0.2:
        sp['missing'] = r.choice(['', 'MISSING'])
    if r.random() < 0.08:
        sp['cfmt'] = 'd'
    return sp


# --------------------------------------------------------------------------- oracles

def grouped(numeral):
    """reference for thousands_commas on [sign]digits[.rest]"""
    m = re.match(r'^([^0-9]*)([0-9]+)((?:\..*)?)$', numeral, re.S)
    if not m:
        return None
    pre, digits, rest = m.groups()
    out = ''
    while len(digits) > 3:
        out = ',' + digits[-3:] + out
        digits = digits[:-3]
    return pre + digits + out + rest


def sql_safe(s):
    i = 0
    while i < len(s):
        if s[i] == "'":
            if i + 1 < len(s) and s[i + 1] == "'":
                i += 2
                continue
            return False
        i += 1
    return True


def render_simple(src, **kw):
    from DocumentTemplate import HTML
    t = varpipe.template('html', src)
    try:
        return ('out', t(**kw))
    except Exception as e:  # noqa
        return ('err', type(e).__name__)


def doc_oracles(res, r, tier):
    """property statements evaluated directly on the implementation"""
    n = 300 if tier == 'quick' else 5000
    fails = []

    def fail(case, what):
        fails.append({'case': case, 'what': what})
    for _ in range(n):
        s = r.choice(WORDS) + r.choice(['', ' ', 'x']) + r.choice(WORDS)
        # case methods / spacify equal the string methods
        for mod, ref in (('lower', s.lower()), ('upper', s.upper()), ('capitalize', s.capitalize()),
                         ('spacify', s.replace('_', ' '))):
            out = render_simple('<dtml-var x %s>' % mod, x=s)
            res.evaluations += 1
            if out != ('out', ref):
                fail({'src': '<dtml-var x %s>' % mod, 'x': s}, '%s: %r, expected %r' % (mod, out, ref))
        # truncation
        size = r.randint(0, len(s) + 2)
        etc = r.choice([None, '...', '', '>>'])
        src = '<dtml-var x size=%d%s>' % (size, '' if etc is None else ' etc="%s"' % etc)
        out = render_simple(src, x=s)
        res.evaluations += 1
        e = '...' if etc is None else etc
        if out[0] != 'out':
            fail({'src': src, 'x': s}, 'truncation raised %r' % (out,))
        elif len(s) <= size:
            if out[1] != s:
                fail({'src': src, 'x': s}, 'value no longer than size changed: %r' % out[1])
        else:
            o = out[1]
            if not o.endswith(e):
                fail({'src': src, 'x': s}, 'truncated value does not end with etc: %r' % o)
            else:
                p = o[:len(o) - len(e)] if e else o
                head = s[:size]
                l_ = head.rfind(' ')
                want = head[:l_ + 1] if l_ > size / 2 else head
                if not s.startswith(p) or len(p) > size:
                    fail({'src': src, 'x': s}, 'kept part %r is not a prefix of at most size characters' % p)
                elif p != want:
                    fail({'src': src, 'x': s}, 'cut at %r, expected %r (last blank in second half rule)' % (p, want))
        res.nt(('trunc', s, size, etc))
        # sql_quote
        out = render_simple('<dtml-var x sql_quote>', x=s)
        res.evaluations += 1
        if out[0] != 'out' or any(ch in out[1] for ch in '\x00\x1a\r') or not sql_safe(out[1]) or \
                out[1].replace("''", "'") != s.replace('\x00', '').replace('\x1a', '').replace('\r', ''):
            fail({'src': '<dtml-var x sql_quote>', 'x': s}, 'sql_quote gave %r' % (out,))
        # url round trip through two tags
        for q, u, fq in (('url_quote', 'url_unquote', urllib.parse.quote),
                         ('url_quote_plus', 'url_unquote_plus', urllib.parse.quote_plus)):
            o1 = render_simple('<dtml-var x %s>' % q, x=s)
            if o1 != ('out', fq(s)):
                fail({'src': '<dtml-var x %s>' % q, 'x': s}, '%s gave %r' % (q, o1))
                continue
            o2 = render_simple('<dtml-var x %s>' % u, x=o1[1])
            res.evaluations += 2
            if o2 != ('out', s):
                if '%' in s or (u == 'url_unquote_plus' and '+' in s):
                    # the tag unquotes twice (doubled table entry)
                    res.known_hits.setdefault('C15-double-unquote', {'value': s, 'quoted': o1[1], 'back': o2})
                else:
                    fail({'src': '<dtml-var x %s>' % u, 'x': o1[1]}, '%s does not invert %s: %r' % (u, q, o2))
    # thousands_commas
    for _ in range(n):
        digits = str(r.choice([r.randint(0, 10 ** r.randint(1, 15)), 999, 1000, 999999, 1000000]))
        num = r.choice(['', '-', '+', '$']) + digits + r.choice(['', '.5', '.123456', '.'])
        for val in (num, None):
            if val is None:
                val = int(digits)
                num2 = digits
            else:
                num2 = num
            out = render_simple('<dtml-var x thousands_commas>', x=val)
            res.evaluations += 1
            ref = grouped(num2)
            if out != ('out', ref):
                fail({'src': '<dtml-var x thousands_commas>', 'x': val}, 'thousands_commas: %r, expected %r' % (out, ref))
        res.nt(('thou', num))
    # missing / null
    for val, isnull in ((None, True), ('', True), ([], True), ((), True), ({}, True), (0, False), (0.0, False),
                        (False, False), ('x', False), ([0], False), (5, False)):
        out = render_simple('<dtml-var x null="NULL">', x=val)
        res.evaluations += 1
        exp = 'NULL' if isnull else str(val)
        if out != ('out', exp):
            fail({'src': '<dtml-var x null="NULL">', 'x': repr(val)}, 'null: %r, expected %r' % (out, exp))
    out = render_simple('<dtml-var nosuch missing="M" upper size=0>')
    if out != ('out', 'M'):
        fail({'src': 'missing'}, 'missing: %r' % (out,))
    out = render_simple('<dtml-var nosuch upper>')
    if out != ('err', 'KeyError'):
        fail({'src': 'missing'}, 'undefined without missing: %r' % (out,))
    # missing= replaces an UNDEFINED name only: a defined name whose evaluation raises KeyError is an error, not "missing"
    from DocumentTemplate import HTML

    def failing():
        return {}['inner-key']

    class Obj:
        def absolute_url(self):
            raise KeyError('no url')
    inner = HTML('<dtml-var undefined_inside>')
    for src, kw in (('<dtml-var f missing="N/A">', {'f': failing}), ('<dtml-var f missing="N/A" upper>', {'f': failing}),
                    ('<dtml-var t missing="N/A">', {'t': inner}), ('<dtml-var t missing="N/A" size=3>', {'t': inner}),
                    ('<dtml-var o url missing="N/A">', {'o': Obj()}), ('<dtml-var f missing="">', {'f': failing})):
        out = render_simple(src, **kw)
        res.evaluations += 1
        res.nt(('missing-defined', src))
        if out != ('err', 'KeyError'):
            fail({'src': src}, 'missing= replaced a DEFINED name whose evaluation raised KeyError: %r' % (out,))
    # url_unquote(_plus) as a single application (fmt=url-unquote[-plus]) inverts url_quote(_plus) for every text
    for s2 in ['1+1=2', 'C++ and C', 'a b+c', '+', ' ', '%', '%2B', 'a%20b', '100%+', 'ü+ö', 'x=1&y=2+3', '++', '+ +'] + \
            [''.join(r.choice('+ %ab2B&=é') for _ in range(r.randint(1, 8))) for _ in range(200 if tier == 'quick' else 4000)]:
        for fq, fu, fmtname in ((urllib.parse.quote, urllib.parse.unquote, 'url-unquote'),
                                (urllib.parse.quote_plus, urllib.parse.unquote_plus, 'url-unquote-plus')):
            quoted = fq(s2)
            out = render_simple('<dtml-var x fmt=%s>' % fmtname, x=quoted)
            res.evaluations += 1
            res.nt(('unquote-once', fmtname, s2))
            if out != ('out', s2):
                fail({'src': '<dtml-var x fmt=%s>' % fmtname, 'x': quoted}, '%s of %r gave %r, expected %r' % (fmtname, quoted, out, s2))
    # floats and bytes (outside the Lean model: oracle only)
    for val, src, exp in ((3.14159, '<dtml-var x fmt="%.2f">', '3.14'), (1234567.5, '<dtml-var x fmt=comma-numeric>', '1,234,567.5'),
                          (2.5, '<dtml-var x fmt=dollars-and-cents>', '$2.50'), (b'abc', '<dtml-var x upper>', 'ABC'),
                          (1234.5, '<dtml-var x fmt=whole-dollars>', '$1234'),
                          ('abc', '<dtml-var x fmt=collection-length>', '3'), ([1, 2], '<dtml-var x fmt=collection-length>', '2')):
        out = render_simple(src, x=val)
        res.evaluations += 1
        if out[0] != 'out' or (out[1] if isinstance(out[1], str) else out[1].decode()) != exp:
            fail({'src': src, 'x': repr(val)}, 'got %r, expected %r' % (out, exp))
    return fails


# --------------------------------------------------------------------------- reference pipeline
#
# The documented pipeline, written from the property text and the module documentation in plain Python.  Nothing
# below looks at the implementation: the expected text of a case is computed from the value, the options as they
# are WRITTEN in the template and Python's own semantics ('%' formatting, str methods, urllib, html.escape).

# the one fixed order of the value modifiers (table of the documentation at the pinned commit)
MOD_ORDER = ['html_quote', 'url_quote', 'url_quote_plus', 'url_unquote', 'url_unquote_plus', 'newline_to_br',
             'lower', 'upper', 'capitalize', 'spacify', 'thousands_commas', 'sql_quote']
CONVERSIONS = 'diouxXeEfFgGcrsa'            # every conversion type of Python's % operator
BAD_CONVERSIONS = 'SDCRqZ'                  # letters the tag syntax accepts that are no conversion type
UNDEF = ['undef']


class Outside(Exception):
    """the case is outside the domain on which the reference is defined"""


class PObj:
    """object with a str() form, a truth value and methods whose names differ in case only"""

    def __init__(self, s, truthy):
        self._s = s
        self._truthy = truthy

    def __str__(self):
        return self._s

    def __repr__(self):
        return 'PObj(%r)' % self._s

    def __bool__(self):
        return self._truthy

    def DayOfWeek(self):
        return 'Monday'

    def dayofweek(self):
        return 'lower-case-twin'

    def Title(self):
        return 'The ' + self._s

    def AsInt(self):
        return 48879

    def asint(self):
        return 7

    def AsFloat(self):
        return 12345.678

    def hello(self):
        return 'hello_big world'


def mk(vd):
    """value description (JSON-able) -> Python object"""
    k = vd[0]
    if k == 'int':
        return int(vd[1])
    if k == 'bool':
        return bool(vd[1])
    if k == 'float':
        return float(vd[1])
    if k == 'dec':
        return decimal.Decimal(vd[1])
    if k == 'frac':
        return fractions.Fraction(vd[1])
    if k == 'complex':
        return complex(vd[1])
    if k == 'str':
        return vd[1]
    if k == 'none':
        return None
    if k == 'json':
        return json.loads(vd[1])
    if k == 'tuple':
        return tuple(json.loads(vd[1]))
    if k == 'obj':
        return PObj(vd[1], vd[2])
    raise ValueError(k)


INTS = [0, 1, -1, 7, 10, 42, 65, 255, 999, 1000, 3054, 48879, 1234567, -7654321, 10 ** 12, 2 ** 70]
FLOATS = ['0.0', '-0.0', '0.5', '-0.25', '2.5', '3.14159', '12345.678', '1e-10', '1234567.0', '1e+20', '-1.5e-07',
          '1e+16', '255.0', 'nan', 'inf', '-inf']
DECS = ['0', '2.50', '1234567.891', '1E+3', '-0.00', '255']
FRACS = ['0', '7/2', '255']
COMPLEX = ['0j', '(1+2j)']
CONTAINERS = [['json', '[]'], ['json', '{}'], ['tuple', '[]'], ['json', '[0]'], ['json', '[1, 2, 3]'],
              ['json', '{"a": 1}'], ['tuple', '[1, 2]']]


def gen_pvalue(r):
    c = r.random()
    if c < 0.22:
        return ['int', r.choice(INTS)]
    if c < 0.42:
        return ['float', r.choice(FLOATS)]
    if c < 0.47:
        return ['dec', r.choice(DECS)]
    if c < 0.49:
        return ['frac', r.choice(FRACS)]
    if c < 0.51:
        return ['complex', r.choice(COMPLEX)]
    if c < 0.54:
        return ['bool', r.random() < 0.5]
    if c < 0.76:
        s = r.choice(WORDS)
        if r.random() < 0.3:
            s += r.choice(WORDS)
        return ['str', s]
    if c < 0.80:
        return ['none']
    if c < 0.86:
        return r.choice(CONTAINERS)
    if c < 0.94:
        return ['obj', r.choice(WORDS), r.random() < 0.7]
    return UNDEF


def is_null(val):
    """null value: None, or false but not 0"""
    return val is None or (not val and val != 0)


def finite_number(val):
    if isinstance(val, (bool, int, fractions.Fraction)):
        return True
    if isinstance(val, float):
        return math.isfinite(val)
    if isinstance(val, decimal.Decimal):
        return val.is_finite()
    return False


def ref_group(text):
    """thousands_commas: groups the digits of the integer part; a text without digits has nothing to group"""
    if not any(ch in '0123456789' for ch in text):
        return text
    g = grouped(text)
    if g is None:
        raise Outside('thousands_commas on a text that is not [sign]digits[.rest]')
    return g


def ref_sql(text):
    return text.replace('\x00', '').replace('\x1a', '').replace('\r', '').replace("'", "''")


def ref_br(text):
    return text.replace('\r', '').replace('\n', '<br />\n')


REF_MODS = {
    'html_quote': lambda t: html.escape(t, True),
    'url_quote': urllib.parse.quote,
    'url_quote_plus': urllib.parse.quote_plus,
    'url_unquote': urllib.parse.unquote,
    'url_unquote_plus': urllib.parse.unquote_plus,
    'newline_to_br': ref_br,
    'lower': str.lower, 'upper': str.upper, 'capitalize': str.capitalize,
    'spacify': lambda t: t.replace('_', ' '),
    'thousands_commas': ref_group,
    'sql_quote': ref_sql,
}
NUMERIC_SPECIAL = {'whole-dollars': '$%d', 'dollars-and-cents': '$%.2f', 'dollars-with-commas': '$%d',
                   'dollars-and-cents-with-commas': '$%.2f'}
TEXT_SPECIAL = {'html-quote': 'html_quote', 'url-quote': 'url_quote', 'url-quote-plus': 'url_quote_plus',
                'url-unquote': 'url_unquote', 'url-unquote-plus': 'url_unquote_plus', 'multi-line': 'newline_to_br',
                'sql-quote': 'sql_quote'}


def ref_fmt(fmt, val):
    """fmt=: a method of the value, a named special format or a %-format"""
    if fmt and fmt.isidentifier() and hasattr(val, fmt):
        m = getattr(val, fmt)
        if not callable(m):
            raise Outside('fmt names an attribute that is no method')
        return m()
    if fmt in NUMERIC_SPECIAL:
        if not finite_number(val):
            raise Outside('money format of a non-number')
        try:
            text = NUMERIC_SPECIAL[fmt] % val
        except Exception:  # noqa
            raise Outside('money format of a number Python cannot format')
        return ref_group(text) if fmt.endswith('with-commas') else text
    if fmt == 'collection-length':
        return str(len(val))
    if fmt == 'comma-numeric':
        return ref_group(str(val))
    if fmt in TEXT_SPECIAL:
        if not isinstance(val, str):
            raise Outside('text format of a non-text')
        return REF_MODS[TEXT_SPECIAL[fmt]](val)
    if fmt in SPECIAL or fmt in ('structured-text', 'restructured-text'):
        raise Outside('special format without a reference')
    if fmt == '':
        return ''
    if isinstance(val, (tuple, dict)):
        raise Outside('%-format of a tuple / mapping: the operand is not one value')
    return fmt % val


def ref_pipeline(spec, vd, size=None):
    """expected text of one dtml-var insertion; raises what Python raises; Outside = not defined here.
    Returns (text, text before truncation)."""
    if vd == UNDEF:
        if spec.get('by_expr'):
            raise Outside('an expression is not a name: missing= is about undefined names')
        if spec.get('missing') is not None:
            return spec['missing'], None
        raise KeyError(spec['name'])
    val = mk(vd)
    if spec.get('null') is not None and is_null(val):
        return spec['null'], None
    if spec.get('fmt') is not None:
        val = ref_fmt(spec['fmt'], val)
    code = spec.get('cfmt', 's')
    if isinstance(val, bytes):
        raise Outside('bytes')
    if code == 's':
        text = val if isinstance(val, str) else str(val)
    else:
        text = ('%' + code) % (val,)
    for m in MOD_ORDER:
        if m in spec['written']:
            text = REF_MODS[m](text)
    if ('url_unquote' in spec['written'] and '%' in text) or \
            ('url_unquote_plus' in spec['written'] and ('%' in text or '+' in text)):
        raise Outside('known finding C15-double-unquote')
    full = text
    if size is None:
        size = spec.get('size')
    if size is not None:
        size = int(size)
        if len(text) > size:
            text = text[:size]
            blank = text.rfind(' ')
            if blank > size / 2:
                text = text[:blank + 1]
            text += spec['etc'] if spec.get('etc') is not None else '...'
    return text, full


def ref_outcome(spec, vd):
    try:
        return ('out', ref_pipeline(spec, vd)[0])
    except Outside:
        return None
    except Exception as e:  # noqa
        return ('err', type(e).__name__)


PCT_FORMATS = ['%s', 'x%sx', '%d', '%5d', '%05d', '%i', '%o', '%x', '%X', '%#x', '%#X', '%08X', '%e', '%E', '%.2E',
               '%.2e', '%g', '%G', '%.3G', '%f', '%F', '%.2f', '%08.3f', '%+d', '%-8s|', '%r', '%a', '%c', '%s%%',
               '%5.1f%%', 'Total: %s', 'UPPER %s lower', '%S', 'abc', '', '%.3s', '%10.4s']
METHOD_NAMES = ['upper', 'lower', 'capitalize', 'title', 'swapcase', 'strip', 'hello', 'DayOfWeek', 'dayofweek',
                'Title', 'AsInt', 'asint', 'AsFloat', 'bit_length', 'hex', 'is_integer', 'keys', 'NoSuchMethod',
                'nosuch-format']
VERBATIM = ['', 'NULL', 'n/a', 'N/A', 'Not Available', ' ', ' padded ', 'ÉTC…', 'MiXeD', '0', '%s', 'a=b']
ETCS = ['...', '', '>>', ' etc', '…', ' More', 'ETC', '!!']
NAME_PAIRS = [('x', 'X'), ('X', 'x'), ('Total_Cost', 'total_cost'), ('total_cost', 'TOTAL_COST'), ('x', 'X')]


def gen_code(r):
    letter = r.choice(CONVERSIONS) if r.random() < 0.93 else r.choice(BAD_CONVERSIONS)
    width = r.choice(['', '', '', '0', '1', '3', '5', '08', '012', '12'])
    prec = r.choice(['', '', '', '.', '.0', '.2', '.3', '.10'])
    return width + prec + letter


def gen_pspec(r, syntax):
    w = [m for m in MOD_ORDER if r.random() < 0.13]
    r.shuffle(w)
    name, decoy = r.choice(NAME_PAIRS)
    sp = {'written': w, 'name': name, 'decoy': decoy, 'by_expr': r.random() < 0.15}
    c = r.random()
    if c < 0.25:
        sp['fmt'] = r.choice(PCT_FORMATS)
    elif c < 0.40:
        sp['fmt'] = r.choice(METHOD_NAMES)
    elif c < 0.50:
        sp['fmt'] = r.choice(SPECIAL)
    if r.random() < 0.25:
        sp['null'] = r.choice(VERBATIM)
    if r.random() < 0.2:
        sp['missing'] = r.choice(VERBATIM)
    if syntax == 'epfs' and r.random() < 0.75:
        sp['cfmt'] = gen_code(r)
    return sp


_UNQUOTED = re.compile(r'^[^\x00- ="()<>-]+$')


def pipe_source(sp, syntax, r):
    """the tag as text: options in a random written order, quoted or bare values, assorted white space"""
    attrs = list(sp['written'])
    for k in ('fmt', 'size', 'etc', 'null', 'missing'):
        v = sp.get(k)
        if v is not None:
            if _UNQUOTED.match(str(v)) and r.random() < 0.3:
                attrs.append('%s=%s' % (k, v))
            else:
                attrs.append('%s="%s"' % (k, v))
    r.shuffle(attrs)
    if sp['by_expr']:
        head = 'expr="%s"' % sp['name']
        if syntax == 'epfs':
            head = 'var ' + head
    else:
        head = sp['name']
        if syntax == 'epfs' and r.random() < 0.2:
            head = 'var ' + head
    body = head
    for a in attrs:
        body += r.choice([' ', ' ', ' ', '  ', '\t', '\n']) + a
    if syntax == 'dtml':
        tag = '<dtml-var %s>' % body
    elif syntax == 'ssi':
        tag = '<!--#var %s-->' % body
    else:
        tag = '%%(%s)%s' % (body, sp.get('cfmt', 's'))
    pre, post = r.choice([('', ''), ('[', ']'), ('a ', ' b'), ('', 'S'), ('9', '0x'), ('', ''), ('%', '%')])
    return pre, tag, post


def compile_template(syntax, src):
    from DocumentTemplate import HTML, String
    return (String if syntax == 'epfs' else HTML)(src)


def render_with(t, sp, vd):
    ns = {sp['decoy']: 'DECOY'}
    if vd != UNDEF:
        ns[sp['name']] = mk(vd)
    try:
        out = t(**ns)
    except Exception as e:  # noqa
        return ('err', type(e).__name__)
    return ('out', out)


def pipe_case(res, fails, sp, syntax, pre, tag, post, values, tag2=None):
    """one compiled template, rendered with each value in turn and with the first one again; every rendering must
    equal the reference; tag2 = the same options in another written order (own template)"""
    src = pre + tag + post
    case = {'kind': 'pipeline', 'syntax': syntax, 'src': src, 'spec': sp, 'values': values}
    try:
        t = compile_template(syntax, src)
        t2 = compile_template(syntax, pre + tag2 + post) if tag2 else None
    except Exception as e:  # noqa
        fails.append({'case': case, 'what': 'generated tag does not compile: %s: %s' % (type(e).__name__, str(e)[:100])})
        return
    history = list(values) + ([values[0]] if len(values) > 1 else [])
    res.count('pipe_history_len=%d' % len(history))
    for step, vd in enumerate(history):
        want = ref_outcome(sp, vd)
        if want is None:
            res.count('pipe_outside_reference')
            # still a rendering of the history: it must not disturb the later ones
            render_with(t, sp, vd)
            continue
        if want[0] == 'out':
            want = ('out', pre + want[1] + post)
        got = render_with(t, sp, vd)
        res.evaluations += 1
        res.count('pipe_expected=' + want[0])
        if got != want:
            fails.append({'case': dict(case, step=step, value=vd),
                          'what': 'rendering %d of the template (value %r): %r, the documented pipeline gives %r'
                                  % (step + 1, vd, got, want)})
            return
        if t2 is not None and step == 0:
            got2 = render_with(t2, sp, vd)
            res.evaluations += 1
            if got2 != want:
                fails.append({'case': dict(case, src=pre + tag2 + post, step=step, value=vd),
                              'what': 'other written order: %r, the documented pipeline gives %r' % (got2, want)})
                return
    res.nt(('pipe', src, json.dumps(values)))


GRID_VALUES = [['int', 255], ['int', 48879], ['int', -3054], ['int', 0], ['int', 65], ['bool', True],
               ['float', '12345.678'], ['float', '1e-10'], ['float', '1234567.0'], ['float', '-0.25'], ['float', 'nan'],
               ['float', 'inf'], ['dec', '255'], ['dec', '2.50'], ['str', 'text'], ['str', 'Hello World'], ['str', 'a'],
               ['none'], ['obj', 'An_Object', True]]


def pipe_oracle(res, r, tier):
    """the reference pipeline against the real tag"""
    fails = []
    base = {'written': [], 'name': 'x', 'decoy': 'X', 'by_expr': False}
    # (a) grid: every conversion type in both spellings x width/precision x value types, in the %(x)code syntax
    #     alone, behind a custom format, in front of modifiers + truncation; the same %-format through fmt= in the
    #     HTML syntaxes
    for letter in CONVERSIONS + BAD_CONVERSIONS:
        for wp in ('', '08', '.2', '10.3'):
            code = wp + letter
            for vd in GRID_VALUES:
                res.count('pipe_grid')
                pipe_case(res, fails, dict(base, cfmt=code), 'epfs', '', '%%(x)%s' % code, '', [vd])
                if letter in BAD_CONVERSIONS and wp:
                    continue
                pipe_case(res, fails, dict(base, fmt='%' + code), 'dtml', '', '<dtml-var x fmt="%%%s">' % code, '', [vd])
            sp = dict(base, cfmt=code, written=['lower'], size='3', etc='~')
            pipe_case(res, fails, sp, 'epfs', '[', '%%(x lower size=3 etc="~")%s' % code, ']',
                      [['int', 48879], ['float', '12345.678'], ['str', 'Hello World']])
            sp = dict(base, cfmt=code, fmt='AsInt')
            pipe_case(res, fails, sp, 'epfs', '', '%%(x fmt=AsInt)%s' % code, '', [['obj', 'o', True]])
            sp = dict(base, cfmt=code, fmt='AsFloat', written=['upper'])
            pipe_case(res, fails, sp, 'epfs', '', '%%(x upper fmt=AsFloat)%s' % code, '', [['obj', 'o', True]])
            sp = dict(base, cfmt=code, missing='n/a', null='Nil')
            pipe_case(res, fails, sp, 'epfs', '', '%%(x missing="n/a" null="Nil")%s' % code, '',
                      [UNDEF, ['int', 255], ['none'], ['str', '']])
    # (b) random specs x histories of values
    n = 4500 if tier == 'quick' else 80000
    for _ in range(n):
        syntax = r.choice(['epfs', 'epfs', 'dtml', 'ssi'])
        sp = gen_pspec(r, syntax)
        values = [gen_pvalue(r) for _ in range(r.choice([1, 1, 2, 3]))]
        if r.random() < 0.45:
            # sizes 0..len+2 of the text that reaches the truncation stage
            try:
                full = ref_pipeline(sp, values[0])[1]
            except Exception:  # noqa
                full = None
            top = len(full) + 2 if full is not None else 12
            sp['size'] = str(r.choice([r.randint(0, top), r.randint(0, top), r.choice([0, 1, 2, 3, 5, 8, 20, 100])]))
            if r.random() < 0.6:
                sp['etc'] = r.choice(ETCS)
        elif r.random() < 0.1:
            sp['etc'] = r.choice(ETCS)
        pre, tag, post = pipe_source(sp, syntax, r)
        tag2 = None
        if r.random() < 0.4:
            tag2 = pipe_source(sp, syntax, r)[1]
        res.count('pipe_syntax=' + syntax)
        if 'cfmt' in sp:
            res.count('pipe_cfmt=' + sp['cfmt'][-1])
        for vd in values:
            res.count('pipe_value=' + vd[0])
        pipe_case(res, fails, sp, syntax, pre, tag, post, values, tag2)
    return fails


def run(res, tier, have_driver):
    r = common.rng('C15')
    res.rule = ('random specs (modifier subsets in random written order, 13 special + method + %-formats, sizes '
                '0..len+2 and non-integers, etc strings, null, missing, C-format d) x values (str incl. non-ASCII, '
                'int, None, objects with methods, undefined, tainted); each spec also re-rendered with its options '
                'permuted; plus documentation oracles (truncation, case methods, grouping, url round trip, sql_quote, '
                'null table); reference pipeline written in Python from the documentation (missing, null, fmt= as '
                'method / special format / %-format, C-style format (\'%\' + code) % (value,), modifiers in the fixed '
                'order, size/etc) compared with the real tag on: a grid of every conversion type of the %(name)code '
                'syntax in both spellings (diouxXeEfFgGcrsa + letters that are no conversion) x width/precision x '
                'int / bool / float incl. nan, inf / Decimal / str / None / object, alone, behind fmt=method, in front '
                'of modifiers + truncation, with missing/null, and the same codes through fmt="%code" in the HTML '
                'syntax; random specs in the three syntaxes (modifier subsets, %-formats with upper-case conversions '
                'and flags, methods whose names differ in case only, special formats, null / missing / etc texts '
                'with upper case and blanks, quoted or bare values, assorted white space, name vs expr, variable '
                'names that differ in case only with a decoy bound to the other spelling, sizes 0..len+2) x '
                'histories of 1-3 values (int, bool, float, Decimal, Fraction, complex, str, None, containers, '
                'objects, undefined) rendered one after the other by ONE compiled template and the first value '
                'again, plus the same options in another written order; counters pipe_*; non-trivial = distinct '
                '(spec, value) that reaches the modifier stage with at least one option, distinct (source, history) '
                'of the reference pipeline')
    n = 9000 if tier == 'quick' else 150000
    cases = []
    for _ in range(n):
        sp = gen_spec(r)
        v = gen_value(r, True)
        syn = r.choice(['dtml', 'dtml', 'ssi', 'epfs'])
        if 'cfmt' in sp:
            syn = 'epfs'
        cases.append((sp, v, syn, v['kind'] != 'undefined' and r.random() < 0.25))
    reqs, impls = [], []
    skipped_domain = 0
    for sp, v, syn, by_expr in cases:
        impl, src = varpipe.run_impl(sp, v, syn, by_expr)
        impls.append((impl, src))
        res.evaluations += 1
        res.count('syntax=' + syn)
        res.count('value=' + v['kind'])
        res.count('result=' + impl[0])
        if impl[0] == 'compile-err':
            res.oracle_fail.append({'case': {'spec': sp, 'src': src}, 'what': 'generated tag does not compile: %s' % impl[1]})
        # order independence: same options, another written order
        nattrs = len(sp['written']) + sum(1 for k in ('fmt', 'size', 'etc', 'null', 'missing') if sp.get(k) is not None)
        if nattrs > 1:
            order = list(range(nattrs))
            r.shuffle(order)
            sp2 = dict(sp)
            sp2['order'] = order
            impl2, src2 = varpipe.run_impl(sp2, v, syn, by_expr)
            res.evaluations += 1
            if impl2 != impl:
                res.oracle_fail.append({'case': {'spec': sp, 'value': v, 'src': src, 'src2': src2},
                                        'what': 'written order changes the result: %r vs %r' % (impl, impl2)})
        if impl[0] == 'out' and (sp['written'] or sp.get('fmt') or sp.get('size')):
            res.nt((json.dumps(sp, sort_keys=True), json.dumps(v, sort_keys=True)))
        reqs.append(varpipe.model_req(sp, v))
    for i in (0, 50, len(cases) // 2, len(cases) - 5):
        res.sample({'spec': cases[i][0], 'value': cases[i][1], 'syntax': cases[i][2],
                    'src': impls[i][1], 'impl': impls[i][0]})
    if have_driver:
        resp = common.run_driver(reqs)
        oom = 0
        for (sp, v, syn, by_expr), (impl, src), rp in zip(cases, impls, resp):
            if 'ok' not in rp:
                res.harness_errors.append('driver: %r for %r' % (rp, src))
                break
            text = v.get('s', '') + ''.join(v.get('methods', {}).values()) if v['kind'] in ('str', 'obj') else ''
            uses_case = any(m in sp['written'] for m in ('lower', 'upper', 'capitalize')) or \
                sp.get('fmt') in ('lower', 'upper', 'capitalize')
            if uses_case and not cased_ok(text):
                skipped_domain += 1    # full Unicode case mapping is outside the driver's Ext instance
                continue
            d = varpipe.compare(impl, rp['ok'])
            if d == 'oom':
                oom += 1
                continue
            res.corr_checked += 1
            if d:
                res.corr_mismatch.append({'case': {'spec': sp, 'value': v, 'syntax': syn, 'src': src},
                                          'impl': impl, 'model': rp['ok'], 'diff': d})
        res.dist['outside_model'] = oom
        res.dist['outside_ext_domain'] = skipped_domain
    for f in doc_oracles(res, r, tier):
        res.oracle_fail.append(f)
    for f in pipe_oracle(res, common.rng('C15-pipe'), tier):
        res.oracle_fail.append(f)
    res.partial.append('unquote_inverts_quote_partial: holds at tag level only for values without %XX (doubled '
                       'url_unquote entry: known finding C15-double-unquote); thousands grouping is proved as '
                       '"only inserts commas" + tested against a reference grouping, not proved digit by digit')
    res.assumptions += ['Unicode case mapping, urllib quote/unquote, float formatting are external: parameters of '
                        'the model (driver instance: ASCII case mapping, UTF-8 percent codec); bytes and floats are '
                        'checked by the oracle only',
                        'reference pipeline: the fixed modifier order is the documented table of the pinned commit; '
                        'outside its domain (counted as pipe_outside_reference): %-format fmt= of a tuple / mapping, '
                        'money formats of non-numbers, text formats of non-texts, thousands_commas on texts that are '
                        'not [sign]digits[.rest], url_unquote results that still contain % or + (known finding), '
                        'missing= with expr=, bytes, tainted values (C04)']


def search_more(res, tier):
    r = common.rng('C15-more')
    r2 = common.Result('C15')
    return (doc_oracles(r2, r, 'quick') + pipe_oracle(r2, common.rng('C15-pipe-more'), 'quick'))[:5]


def replay(path):
    with open(path) as f:
        d = json.load(f)
    c = d['first']['case']
    if c.get('kind') == 'pipeline':
        t = compile_template(c['syntax'], c['src'])
        for vd in c['values'] + c['values'][:1]:
            print(repr(c['src']), vd, 'impl', render_with(t, c['spec'], vd), 'documented', ref_outcome(c['spec'], vd))
    elif 'spec' in c and 'value' in c:
        print(varpipe.run_impl(c['spec'], c['value'], c.get('syntax', 'dtml')))
    else:
        print(render_simple(c['src'], x=c.get('x')))
    return 1
