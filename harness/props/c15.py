"""C15 — dtml-var options apply a fixed, documented value pipeline.

Correspondence: Lean `VarPipe.render` vs the real tag for str / int / None / objects with
methods / undefined names, every subset and written order of modifiers, formats, sizes, etc.
Oracle (independent of the model, written from the documentation): order independence,
missing/null, truncation, case methods, thousands grouping, url round trip, sql_quote.
"""
import json
import re
import urllib.parse

import common
import varpipe
from varpipe import MODS, SPECIAL

WORDS = ['', 'a', 'Hello World', 'hello_big_world', 'x y  z', "it's", "a'b''c", 'na\x00me\x1a\r\n', '1234567',
         '-1234567.891', '12,345', '$1000', '1000000', '999', 'a%20b', '%41', '100%', 'a+b c/d', 'ÄÖ ß straße',
         'ǆ ǅ', 'İı', 'a_b-c', '   ', 'trailing ', ' leading', 'no-blank-here-at-all', 'αβγ δ', '中文 字',
         '\U0001F600 smile', 'tab\tsep', 'line1\nline2', '<b>&"', 'UPPER lower']


def gen_value(r, for_model):
    c = r.random()
    if c < 0.55:
        s = r.choice(WORDS)
        if r.random() < 0.3:
            s = s + r.choice(WORDS)
        if for_model:
            # the model's Ext instance: ASCII case mapping, codec on valid UTF-8 escapes
            pass
        return {'kind': 'str', 's': s, 't': False}
    if c < 0.7:
        return {'kind': 'int', 'i': r.choice([0, 1, -1, 7, 42, 999, 1000, 1234567, -7654321, 10 ** 12])}
    if c < 0.78:
        return {'kind': 'none'}
    if c < 0.86:
        return {'kind': 'undefined'}
    if c < 0.95:
        return {'kind': 'obj', 's': r.choice(WORDS), 'truthy': r.random() < 0.7,
                'methods': {'hello': r.choice(WORDS), 'title2': 'T'}}
    return {'kind': 'str', 's': '<' + r.choice(WORDS), 't': True}


def cased_ok(s):
    """is ASCII-only case mapping (the model's Ext instance) exact on s?"""
    return all(ord(ch) < 128 or (ch.upper() == ch and ch.lower() == ch) for ch in s)


def gen_spec(r):
    w = [m for m in MODS if r.random() < 0.18]
    r.shuffle(w)
    sp = {'written': w}
    c = r.random()
    if c < 0.45:
        sp['fmt'] = r.choice(SPECIAL + ['%s', 'x%sx', '%d', '%s%%', 'abc', '', 'upper', 'lower', 'capitalize',
                                        'hello', 'nosuch-format'])
    if r.random() < 0.45:
        sp['size'] = str(r.choice([0, 1, 2, 3, 4, 5, 6, 7, 8, 10, 11, 12, 20, 100, 'x', '-1', '+3']))
        if r.random() < 0.5:
            sp['etc'] = r.choice(['...', '', '>>', ' etc', '…'])
    elif r.random() < 0.1:
        sp['etc'] = '!!'
    if r.random() < 0.25:
        sp['null'] = r.choice(['', 'NULL', 'n/a'])
    if r.random() < 0.2:
        sp['missing'] = r.choice(['', 'MISSING'])
    if r.random() < 0.08:
        sp['cfmt'] = 'd'
    return sp


# --------------------------------------------------------------------------- oracles

def grouped(numeral):
    """reference for thousands_commas on [sign]digits[.rest]"""
    m = re.match(r'^([^0-9]*)([0-9]+)((?:\..*)?)$', numeral, re.S)
    if not m:
        return None
    pre, digits, rest = m.groups()
    out = ''
    while len(digits) > 3:
        out = ',' + digits[-3:] + out
        digits = digits[:-3]
    return pre + digits + out + rest


def sql_safe(s):
    i = 0
    while i < len(s):
        if s[i] == "'":
            if i + 1 < len(s) and s[i + 1] == "'":
                i += 2
                continue
            return False
        i += 1
    return True


def render_simple(src, **kw):
    from DocumentTemplate import HTML
    t = varpipe.template('html', src)
    try:
        return ('out', t(**kw))
    except Exception as e:  # noqa
        return ('err', type(e).__name__)


def doc_oracles(res, r, tier):
    """property statements evaluated directly on the implementation"""
    n = 300 if tier == 'quick' else 5000
    fails = []

    def fail(case, what):
        fails.append({'case': case, 'what': what})
    for _ in range(n):
        s = r.choice(WORDS) + r.choice(['', ' ', 'x']) + r.choice(WORDS)
        # case methods / spacify equal the string methods
        for mod, ref in (('lower', s.lower()), ('upper', s.upper()), ('capitalize', s.capitalize()),
                         ('spacify', s.replace('_', ' '))):
            out = render_simple('<dtml-var x %s>' % mod, x=s)
            res.evaluations += 1
            if out != ('out', ref):
                fail({'src': '<dtml-var x %s>' % mod, 'x': s}, '%s: %r, expected %r' % (mod, out, ref))
        # truncation
        size = r.randint(0, len(s) + 2)
        etc = r.choice([None, '...', '', '>>'])
        src = '<dtml-var x size=%d%s>' % (size, '' if etc is None else ' etc="%s"' % etc)
        out = render_simple(src, x=s)
        res.evaluations += 1
        e = '...' if etc is None else etc
        if out[0] != 'out':
            fail({'src': src, 'x': s}, 'truncation raised %r' % (out,))
        elif len(s) <= size:
            if out[1] != s:
                fail({'src': src, 'x': s}, 'value no longer than size changed: %r' % out[1])
        else:
            o = out[1]
            if not o.endswith(e):
                fail({'src': src, 'x': s}, 'truncated value does not end with etc: %r' % o)
            else:
                p = o[:len(o) - len(e)] if e else o
                head = s[:size]
                l_ = head.rfind(' ')
                want = head[:l_ + 1] if l_ > size / 2 else head
                if not s.startswith(p) or len(p) > size:
                    fail({'src': src, 'x': s}, 'kept part %r is not a prefix of at most size characters' % p)
                elif p != want:
                    fail({'src': src, 'x': s}, 'cut at %r, expected %r (last blank in second half rule)' % (p, want))
        res.nt(('trunc', s, size, etc))
        # sql_quote
        out = render_simple('<dtml-var x sql_quote>', x=s)
        res.evaluations += 1
        if out[0] != 'out' or any(ch in out[1] for ch in '\x00\x1a\r') or not sql_safe(out[1]) or \
                out[1].replace("''", "'") != s.replace('\x00', '').replace('\x1a', '').replace('\r', ''):
            fail({'src': '<dtml-var x sql_quote>', 'x': s}, 'sql_quote gave %r' % (out,))
        # url round trip through two tags
        for q, u, fq in (('url_quote', 'url_unquote', urllib.parse.quote),
                         ('url_quote_plus', 'url_unquote_plus', urllib.parse.quote_plus)):
            o1 = render_simple('<dtml-var x %s>' % q, x=s)
            if o1 != ('out', fq(s)):
                fail({'src': '<dtml-var x %s>' % q, 'x': s}, '%s gave %r' % (q, o1))
                continue
            o2 = render_simple('<dtml-var x %s>' % u, x=o1[1])
            res.evaluations += 2
            if o2 != ('out', s):
                if '%' in s or (u == 'url_unquote_plus' and '+' in s):
                    # the tag unquotes twice (doubled table entry)
                    res.known_hits.setdefault('C15-double-unquote', {'value': s, 'quoted': o1[1], 'back': o2})
                else:
                    fail({'src': '<dtml-var x %s>' % u, 'x': o1[1]}, '%s does not invert %s: %r' % (u, q, o2))
    # thousands_commas
    for _ in range(n):
        digits = str(r.choice([r.randint(0, 10 ** r.randint(1, 15)), 999, 1000, 999999, 1000000]))
        num = r.choice(['', '-', '+', '$']) + digits + r.choice(['', '.5', '.123456', '.'])
        for val in (num, None):
            if val is None:
                val = int(digits)
                num2 = digits
            else:
                num2 = num
            out = render_simple('<dtml-var x thousands_commas>', x=val)
            res.evaluations += 1
            ref = grouped(num2)
            if out != ('out', ref):
                fail({'src': '<dtml-var x thousands_commas>', 'x': val}, 'thousands_commas: %r, expected %r' % (out, ref))
        res.nt(('thou', num))
    # missing / null
    for val, isnull in ((None, True), ('', True), ([], True), ((), True), ({}, True), (0, False), (0.0, False),
                        (False, False), ('x', False), ([0], False), (5, False)):
        out = render_simple('<dtml-var x null="NULL">', x=val)
        res.evaluations += 1
        exp = 'NULL' if isnull else str(val)
        if out != ('out', exp):
            fail({'src': '<dtml-var x null="NULL">', 'x': repr(val)}, 'null: %r, expected %r' % (out, exp))
    out = render_simple('<dtml-var nosuch missing="M" upper size=0>')
    if out != ('out', 'M'):
        fail({'src': 'missing'}, 'missing: %r' % (out,))
    out = render_simple('<dtml-var nosuch upper>')
    if out != ('err', 'KeyError'):
        fail({'src': 'missing'}, 'undefined without missing: %r' % (out,))
    # missing= replaces an UNDEFINED name only: a defined name whose evaluation raises KeyError is an error, not "missing"
    from DocumentTemplate import HTML

    def failing():
        return {}['inner-key']

    class Obj:
        def absolute_url(self):
            raise KeyError('no url')
    inner = HTML('<dtml-var undefined_inside>')
    for src, kw in (('<dtml-var f missing="N/A">', {'f': failing}), ('<dtml-var f missing="N/A" upper>', {'f': failing}),
                    ('<dtml-var t missing="N/A">', {'t': inner}), ('<dtml-var t missing="N/A" size=3>', {'t': inner}),
                    ('<dtml-var o url missing="N/A">', {'o': Obj()}), ('<dtml-var f missing="">', {'f': failing})):
        out = render_simple(src, **kw)
        res.evaluations += 1
        res.nt(('missing-defined', src))
        if out != ('err', 'KeyError'):
            fail({'src': src}, 'missing= replaced a DEFINED name whose evaluation raised KeyError: %r' % (out,))
    # url_unquote(_plus) as a single application (fmt=url-unquote[-plus]) inverts url_quote(_plus) for every text
    for s2 in ['1+1=2', 'C++ and C', 'a b+c', '+', ' ', '%', '%2B', 'a%20b', '100%+', 'ü+ö', 'x=1&y=2+3', '++', '+ +'] + \
            [''.join(r.choice('+ %ab2B&=é') for _ in range(r.randint(1, 8))) for _ in range(200 if tier == 'quick' else 4000)]:
        for fq, fu, fmtname in ((urllib.parse.quote, urllib.parse.unquote, 'url-unquote'),
                                (urllib.parse.quote_plus, urllib.parse.unquote_plus, 'url-unquote-plus')):
            quoted = fq(s2)
            out = render_simple('<dtml-var x fmt=%s>' % fmtname, x=quoted)
            res.evaluations += 1
            res.nt(('unquote-once', fmtname, s2))
            if out != ('out', s2):
                fail({'src': '<dtml-var x fmt=%s>' % fmtname, 'x': quoted}, '%s of %r gave %r, expected %r' % (fmtname, quoted, out, s2))
    # floats and bytes (outside the Lean model: oracle only)
    for val, src, exp in ((3.14159, '<dtml-var x fmt="%.2f">', '3.14'), (1234567.5, '<dtml-var x fmt=comma-numeric>', '1,234,567.5'),
                          (2.5, '<dtml-var x fmt=dollars-and-cents>', '$2.50'), (b'abc', '<dtml-var x upper>', 'ABC'),
                          (1234.5, '<dtml-var x fmt=whole-dollars>', '$1234'),
                          ('abc', '<dtml-var x fmt=collection-length>', '3'), ([1, 2], '<dtml-var x fmt=collection-length>', '2')):
        out = render_simple(src, x=val)
        res.evaluations += 1
        if out[0] != 'out' or (out[1] if isinstance(out[1], str) else out[1].decode()) != exp:
            fail({'src': src, 'x': repr(val)}, 'got %r, expected %r' % (out, exp))
    return fails


def run(res, tier, have_driver):
    r = common.rng('C15')
    res.rule = ('random specs (modifier subsets in random written order, 13 special + method + %-formats, sizes '
                '0..len+2 and non-integers, etc strings, null, missing, C-format d) x values (str incl. non-ASCII, '
                'int, None, objects with methods, undefined, tainted); each spec also re-rendered with its options '
                'permuted; plus documentation oracles (truncation, case methods, grouping, url round trip, sql_quote, '
                'null table); non-trivial = distinct (spec, value) that reaches the modifier stage with at least '
                'one option')
    n = 9000 if tier == 'quick' else 150000
    cases = []
    for _ in range(n):
        sp = gen_spec(r)
        v = gen_value(r, True)
        syn = r.choice(['dtml', 'dtml', 'ssi', 'epfs'])
        if 'cfmt' in sp:
            syn = 'epfs'
        cases.append((sp, v, syn, v['kind'] != 'undefined' and r.random() < 0.25))
    reqs, impls = [], []
    skipped_domain = 0
    for sp, v, syn, by_expr in cases:
        impl, src = varpipe.run_impl(sp, v, syn, by_expr)
        impls.append((impl, src))
        res.evaluations += 1
        res.count('syntax=' + syn)
        res.count('value=' + v['kind'])
        res.count('result=' + impl[0])
        if impl[0] == 'compile-err':
            res.oracle_fail.append({'case': {'spec': sp, 'src': src}, 'what': 'generated tag does not compile: %s' % impl[1]})
        # order independence: same options, another written order
        nattrs = len(sp['written']) + sum(1 for k in ('fmt', 'size', 'etc', 'null', 'missing') if sp.get(k) is not None)
        if nattrs > 1:
            order = list(range(nattrs))
            r.shuffle(order)
            sp2 = dict(sp)
            sp2['order'] = order
            impl2, src2 = varpipe.run_impl(sp2, v, syn, by_expr)
            res.evaluations += 1
            if impl2 != impl:
                res.oracle_fail.append({'case': {'spec': sp, 'value': v, 'src': src, 'src2': src2},
                                        'what': 'written order changes the result: %r vs %r' % (impl, impl2)})
        if impl[0] == 'out' and (sp['written'] or sp.get('fmt') or sp.get('size')):
            res.nt((json.dumps(sp, sort_keys=True), json.dumps(v, sort_keys=True)))
        reqs.append(varpipe.model_req(sp, v))
    for i in (0, 50, len(cases) // 2, len(cases) - 5):
        res.sample({'spec': cases[i][0], 'value': cases[i][1], 'syntax': cases[i][2],
                    'src': impls[i][1], 'impl': impls[i][0]})
    if have_driver:
        resp = common.run_driver(reqs)
        oom = 0
        for (sp, v, syn, by_expr), (impl, src), rp in zip(cases, impls, resp):
            if 'ok' not in rp:
                res.harness_errors.append('driver: %r for %r' % (rp, src))
                break
            text = v.get('s', '') + ''.join(v.get('methods', {}).values()) if v['kind'] in ('str', 'obj') else ''
            uses_case = any(m in sp['written'] for m in ('lower', 'upper', 'capitalize')) or \
                sp.get('fmt') in ('lower', 'upper', 'capitalize')
            if uses_case and not cased_ok(text):
                skipped_domain += 1    # full Unicode case mapping is outside the driver's Ext instance
                continue
            d = varpipe.compare(impl, rp['ok'])
            if d == 'oom':
                oom += 1
                continue
            res.corr_checked += 1
            if d:
                res.corr_mismatch.append({'case': {'spec': sp, 'value': v, 'syntax': syn, 'src': src},
                                          'impl': impl, 'model': rp['ok'], 'diff': d})
        res.dist['outside_model'] = oom
        res.dist['outside_ext_domain'] = skipped_domain
    for f in doc_oracles(res, r, tier):
        res.oracle_fail.append(f)
    res.partial.append('unquote_inverts_quote_partial: holds at tag level only for values without %XX (doubled '
                       'url_unquote entry: known finding C15-double-unquote); thousands grouping is proved as '
                       '"only inserts commas" + tested against a reference grouping, not proved digit by digit')
    res.assumptions += ['Unicode case mapping, urllib quote/unquote, float formatting are external: parameters of '
                        'the model (driver instance: ASCII case mapping, UTF-8 percent codec); bytes and floats are '
                        'checked by the oracle only']


def search_more(res, tier):
    r = common.rng('C15-more')
    r2 = common.Result('C15')
    return doc_oracles(r2, r, 'quick')[:5]


def replay(path):
    with open(path) as f:
        d = json.load(f)
    c = d['first']['case']
    if 'spec' in c and 'value' in c:
        print(varpipe.run_impl(c['spec'], c['value'], c.get('syntax', 'dtml')))
    else:
        print(render_simple(c['src'], x=c.get('x')))
    return 1
