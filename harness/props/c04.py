"""C04 — tainted (untrusted) values are always HTML-escaped when inserted.

Correspondence: Lean `VarPipe.render` (with the executable `Ext` instance) vs the real tag on the
same (spec, value).  Oracle on the implementation: a tainted value never contributes a raw '<'
(tag-made `<br />` set aside), and html_quote never escapes twice.
"""
import itertools
import json
import re

import common
import varpipe
from varpipe import MODS, SPECIAL

BASES = ['ab', 'a_b c', '1234567', '12345.678', "it's%3Cq", 'x%3cy%3E', 'a\nb', 'a\r\nb_c', '%253Cz', 'q+r %2B',
         'A b_C', '']
QUOTERS = {'url_quote', 'url_quote_plus', 'newline_to_br'}
QUOTER_FMTS = {'multi-line', 'url-quote', 'url-quote-plus'}
UNQUOTERS = {'url_unquote', 'url_unquote_plus'}
BR = re.compile(r'<br />', re.I)


def tainted_values(r, n):
    vals = []
    for _ in range(n):
        b = r.choice(BASES)
        k = r.randint(0, len(b))
        s = b[:k] + '<' + b[k:]
        if r.random() < 0.25:
            k2 = r.randint(0, len(s))
            s = s[:k2] + r.choice(['<', '<b>', '&', '"']) + s[k2:]
        vals.append({'kind': 'str', 's': s, 't': True})
    return vals


def all_positions():
    vals = []
    for b in BASES:
        for k in range(len(b) + 1):
            vals.append({'kind': 'str', 's': b[:k] + '<' + b[k:], 't': True})
    return vals


def requote_combo(spec):
    w = set(spec['written'])
    q = bool(w & QUOTERS) or spec.get('fmt') in QUOTER_FMTS
    return q and bool(w & UNQUOTERS)


def raw_lt(spec, value, out):
    """does the output contain a '<' that is not a (possibly truncated) tag-made <br />?"""
    s = BR.sub('', out)
    if '<' not in s:
        return False
    brmaker = 'newline_to_br' in spec['written'] or spec.get('fmt') == 'multi-line'
    if brmaker and spec.get('size') is not None:
        # truncation may cut a <br /> in two; what is left of it sits right before `etc`
        etc = spec.get('etc') if spec.get('etc') is not None else '...'
        pos = s.rfind('<')
        if s.count('<') == 1:
            tail = s[pos:]
            if etc and tail.endswith(etc):
                tail = tail[:-len(etc)]
            if '<br />'.startswith(tail.lower()):
                return False
    return True


def oracle(spec, value, impl):
    """returns (failures, known-finding id or None)"""
    if value['kind'] != 'str' or not value['t']:
        return [], None
    if impl[0] != 'out':
        return [], None     # an exception inserts nothing
    out = impl[1]
    bad = []
    known = None
    lit = ''.join(str(spec.get(k) or '') for k in ('etc', 'null', 'missing', 'fmt'))
    if '<' not in lit and raw_lt(spec, value, out):
        if requote_combo(spec):
            known = 'C04-requote'
        elif spec.get('fmt') in ('casefold', 'format', '__str__'):
            known = 'C04-method-format'
        else:
            bad.append('tainted value %r reaches the output with a raw "<": %r' % (value['s'], out))
    if '&' not in value['s'] and ('&amp;lt;' in out or '&amp;amp;' in out) and \
            'url_quote' not in spec['written']:
        if spec.get('fmt') == 'multi-line' and 'html_quote' in spec['written']:
            known = known or 'C04-multiline-then-html_quote'
        else:
            bad.append('escaped twice: %r' % out)
    return bad, known


def gen_specs(tier, r):
    specs = []
    # every subset of the 12 modifiers, in a random written order
    subsets = []
    for k in range(len(MODS) + 1):
        for c in itertools.combinations(MODS, k):
            subsets.append(list(c))
    for sub in subsets:
        w = list(sub)
        r.shuffle(w)
        sp = {'written': w}
        specs.append(sp)
    n = 6000 if tier == 'quick' else 80000
    fmts = SPECIAL + ['%s', 'x%sx', '%s%%', '[%s]', '', 'upper', 'lower', 'capitalize', '%d']
    for _ in range(n):
        w = [m for m in MODS if r.random() < 0.25]
        r.shuffle(w)
        sp = {'written': w}
        if r.random() < 0.6:
            sp['fmt'] = r.choice(fmts)
        if r.random() < 0.5:
            sp['size'] = str(r.choice([0, 1, 2, 3, 4, 5, 6, 8, 10, 20, 100]))
            if r.random() < 0.5:
                sp['etc'] = r.choice(['...', '', '>>', ' etc'])
        if r.random() < 0.2:
            sp['null'] = r.choice(['', 'NULL', 'n/a'])
        if r.random() < 0.15:
            sp['missing'] = r.choice(['', 'MISSING'])
        specs.append(sp)
    return specs


def run(res, tier, have_driver):
    r = common.rng('C04')
    res.rule = ('all 4096 modifier subsets (random written order) plus random specs with fmt= (13 special formats, '
                'method formats, %-formats), size/etc, null/missing; tainted values with "<" at every position '
                'of 12 base strings (url escapes, digits, newlines, quotes, underscores); dtml/SSI/EPFS/entity '
                'syntax, by name and by expr; non-trivial = distinct (spec, value) with a tainted value that '
                'reaches the final stage (no exception, no null/missing shortcut)')
    specs = gen_specs(tier, r)
    positions = all_positions()
    cases = []
    for i, sp in enumerate(specs):
        nvals = 2 if tier == 'quick' else 6
        vals = [positions[(i * 7 + j * 13) % len(positions)] for j in range(nvals)]
        vals += tainted_values(r, 1)
        if r.random() < 0.3:
            vals.append(r.choice([{'kind': 'str', 's': r.choice(BASES) + r.choice(['', '<', '&', '%3C']), 't': False},
                                  {'kind': 'int', 'i': r.choice([0, 5, -12, 1234567])},
                                  {'kind': 'none'}, {'kind': 'undefined'},
                                  {'kind': 'obj', 's': 'o<bj', 'truthy': r.random() < 0.7,
                                   'methods': {'hello': 'he<llo'}}]))
        for v in vals:
            syn = r.choice(['dtml', 'dtml', 'ssi', 'epfs'])
            if sp['written'] and not any(k in sp for k in ('fmt', 'size', 'etc', 'null', 'missing')) \
                    and r.random() < 0.2:
                syn = 'entity'
            by_expr = syn != 'entity' and v['kind'] != 'undefined' and r.random() < 0.3
            cases.append((sp, v, syn, by_expr))
    # explicit probes of the method-format channel (known finding)
    for f in ('casefold', 'format', '__str__'):
        cases.append(({'written': [], 'fmt': f}, {'kind': 'str', 's': '<qz', 't': True}, 'dtml', False))
    reqs, impls = [], []
    for sp, v, syn, by_expr in cases:
        spec = dict(sp)
        if syn == 'entity':
            spec = {'written': sp['written']}
        impl, src = varpipe.run_impl(spec, v, syn, by_expr)
        impls.append((impl, src))
        res.evaluations += 1
        res.count('syntax=' + syn)
        res.count('value=' + v['kind'] + ('+tainted' if v.get('t') else ''))
        res.count('result=' + impl[0])
        bad, known = oracle(spec, v, impl)
        if known:
            res.known_hits.setdefault(known, {'spec': spec, 'value': v, 'src': src, 'out': impl[1]})
            res.count('known:' + known)
        for f in bad:
            res.oracle_fail.append({'case': {'spec': spec, 'value': v, 'syntax': syn, 'by_expr': by_expr,
                                             'src': src}, 'what': f})
        if v.get('t') and impl[0] == 'out':
            res.nt((json.dumps(spec, sort_keys=True), v['s']))
        reqs.append(varpipe.model_req(spec, v))
    # C-style format codes of the %(name)fmt syntax on tainted values: whatever the code does with a text value (most numeric
    # codes raise), nothing of the value may come out unescaped
    from AccessControl.tainted import TaintedString
    from DocumentTemplate import String
    for code in ('d', '5d', '05d', 'i', 'x', 'X', 'o', 'e', 'E', 'f', '8.2f', 'g', 'c', 'r', 'a', '12s', '.5s', '-8s', 's'):
        for txt in ('<img src=x>', '12<3', '<', ' <b>', '<1e3'):
            for src in ('%%(x)%s' % code, '[%%(x)%s]' % code, '%%(x upper)%s' % code, '%%(x size=40)%s' % code):
                res.evaluations += 1
                res.count('epfs_format_codes')
                try:
                    out = String(src)(x=TaintedString(txt))
                except Exception:  # noqa
                    continue
                res.nt(('epfs-fmt', code, txt, src))
                if '<' in out:
                    res.oracle_fail.append({'case': {'src': src, 'value': 'TaintedString(%r)' % txt, 'syntax': 'epfs'},
                                            'what': 'a tainted value came out with a raw "<": %r' % (out,)})
    for i in (0, 100, len(cases) // 2, len(cases) - 5):
        res.sample({'spec': cases[i][0], 'value': cases[i][1], 'syntax': cases[i][2],
                    'src': impls[i][1], 'impl': impls[i][0]})
    if have_driver:
        resp = common.run_driver(reqs)
        oom = 0
        for (sp, v, syn, by_expr), (impl, src), rp in zip(cases, impls, resp):
            if 'ok' not in rp:
                res.harness_errors.append('driver: %r for %r' % (rp, src))
                break
            d = varpipe.compare(impl, rp['ok'])
            if d == 'oom':
                oom += 1
                continue
            if sp.get('fmt') in ('casefold', 'format', '__str__'):
                continue
            res.corr_checked += 1
            if d:
                res.corr_mismatch.append({'case': {'spec': sp, 'value': v, 'syntax': syn, 'src': src},
                                          'impl': impl, 'model': rp['ok'], 'diff': d})
        res.dist['outside_model'] = oom
    res.partial.append('tainted_never_raw_partial excludes quote-then-unquote combinations (known finding '
                       'C04-requote) and newline_to_br (tag-made <br />: checked by the oracle, not proved)')
    res.assumptions += ['AccessControl TaintedString semantics (mark kept by lower/upper/capitalize/+, re-evaluated '
                        'by slicing/replace) are modelled as a Bool and validated by correspondence',
                        'case mapping and URL codec are parameters of the model (law: they do not create "<" '
                        'from text without "<" ... for unquote this is exactly what fails: C04-requote)']


def search_more(res, tier):
    r = common.rng('C04-more')
    found = []
    for sp in gen_specs('quick', r):
        for v in tainted_values(r, 2):
            impl, src = varpipe.run_impl(sp, v, 'dtml', False)
            bad, known = oracle(sp, v, impl)
            for f in bad:
                found.append({'case': {'spec': sp, 'value': v, 'src': src}, 'what': f})
        if len(found) > 5:
            break
    return found


def replay(path):
    with open(path) as f:
        d = json.load(f)
    c = d['first']['case']
    impl, src = varpipe.run_impl(c['spec'], c['value'], c.get('syntax', 'dtml'), c.get('by_expr', False))
    bad, known = oracle(c['spec'], c['value'], impl)
    print(src, impl, bad, known)
    return 1 if bad else 0
